(* Props/C15.v — property C15: PKCE binds the code to the party that started the flow.
   Only statements, each closed by `exact <lemma>`, with Print Assumptions.
   HB bits v = b64url_nopad(sha<bits>(ascii v)) is universally quantified (an arbitrary function); where a
   theorem needs it to be injective / non-empty that is an explicit hypothesis of the theorem.
   The transform tables server_cc_methods / client_cc_methods are Gen/PkceTables.v (regenerated). *)
From Coq Require Import String.
From Verif Require Import Lib.Base Lib.PyStr Lib.PkceTy Gen.PkceTables Model.Pkce Proofs.Pkce_proofs.
Open Scope string_scope.
Open Scope N_scope.

(* The authorization request carried challenge c (a non-empty code_challenge) and tokens were issued  ==>
   the token request carried a verifier v and the transform named by the method RECORDED at authorization
   time (the request's method, or the provider's default when it named none) maps v to exactly c. *)
Theorem C15_bound : forall HB cf ce cc ccm cv tccm c,
  norm cc = Some c -> flow HB cf ce cc ccm cv tccm = Tokens ->
  exists v k, norm cv = Some v /\ assoc (recorded_method ccm) server_cc_methods = Some k /\ tr HB k v = Ok c.
Proof. exact bound. Qed.
Print Assumptions C15_bound.

(* exact characterisation of "tokens are issued" *)
Theorem C15_tokens_iff : forall HB cf ce cc ccm cv tccm,
  flow HB cf ce cc ccm cv tccm = Tokens <->
  authn_leg cf ce cc ccm = Ok (norm cc, recorded_method ccm)
  /\ (norm cc = None \/
      exists c v k, norm cc = Some c /\ norm cv = Some v
                    /\ assoc (recorded_method ccm) server_cc_methods = Some k /\ tr HB k v = Ok c).
Proof. exact tokens_iff. Qed.
Print Assumptions C15_tokens_iff.

(* a missing verifier yields no tokens *)
Theorem C15_missing_verifier_refused : forall HB cf ce cc ccm cv tccm c,
  norm cc = Some c -> norm cv = None ->
  flow HB cf ce cc ccm cv tccm = AzRefused 2 \/ flow HB cf ce cc ccm cv tccm = TkRefused 3.
Proof. exact missing_verifier_refused. Qed.
Print Assumptions C15_missing_verifier_refused.

(* a wrong verifier yields no tokens *)
Theorem C15_wrong_verifier_refused : forall HB cf ce cc ccm cv tccm c v,
  norm cc = Some c -> norm cv = Some v ->
  (forall k, assoc (recorded_method ccm) server_cc_methods = Some k -> tr HB k v <> Ok c) ->
  flow HB cf ce cc ccm cv tccm <> Tokens.
Proof. exact wrong_verifier_refused. Qed.
Print Assumptions C15_wrong_verifier_refused.

(* near misses: with a collision-free hash, once some verifier v redeems the code no other string does *)
Theorem C15_near_miss_refused : forall HB, (forall n v v', HB n v = HB n v' -> v = v') ->
  forall cf ce cc ccm tccm c v v',
  norm cc = Some c -> flow HB cf ce cc ccm (Some v) tccm = Tokens -> v' <> v ->
  flow HB cf ce cc ccm (Some v') tccm <> Tokens.
Proof. exact near_miss. Qed.
Print Assumptions C15_near_miss_refused.

(* essential, globally or for the client (the per-client flag overrides the global one): no challenge, or a
   method outside the configured set, is refused at the authorization endpoint — no code is issued *)
Theorem C15_essential : forall HB cf ce cc ccm cv tccm,
  essential_eff (pc_essential cf) ce = true ->
  (norm cc = None -> flow HB cf ce cc ccm cv tccm = AzRefused 1)
  /\ (forall c, norm cc = Some c -> ~ In (recorded_method ccm) (pc_methods cf) ->
                flow HB cf ce cc ccm cv tccm = AzRefused 2).
Proof. exact essential_refuses. Qed.
Print Assumptions C15_essential.

Theorem C15_essential_table :
  essential_eff true None = true /\ essential_eff false None = false
  /\ essential_eff true (Some false) = false /\ essential_eff false (Some true) = true
  /\ essential_eff true (Some true) = true /\ essential_eff false (Some false) = false.
Proof. exact essential_table. Qed.
Print Assumptions C15_essential_table.

(* an unsupported method with a challenge is refused whether or not PKCE is essential *)
Theorem C15_unsupported_method_refused : forall HB cf ce cc ccm cv tccm c,
  norm cc = Some c -> ~ In (recorded_method ccm) (pc_methods cf) -> flow HB cf ce cc ccm cv tccm = AzRefused 2.
Proof. exact unsupported_refused_always. Qed.
Print Assumptions C15_unsupported_method_refused.

(* no downgrade: a code_challenge_method in the TOKEN request changes nothing; the method applied is
   recorded_method of the authorization request (C15_bound); a stored challenge always has a configured method *)
Theorem C15_no_downgrade : forall HB cf ce cc ccm cv t1 t2,
  flow HB cf ce cc ccm cv t1 = flow HB cf ce cc ccm cv t2.
Proof. exact flow_tccm_ignored. Qed.
Print Assumptions C15_no_downgrade.

Theorem C15_recorded_method_configured : forall cf ce cc ccm st,
  authn_leg cf ce cc ccm = Ok st ->
  st = (norm cc, recorded_method ccm)
  /\ (forall c, norm cc = Some c -> In (recorded_method ccm) (pc_methods cf))
  /\ (essential_eff (pc_essential cf) ce = true -> norm cc <> None).
Proof. exact authn_leg_ok. Qed.
Print Assumptions C15_recorded_method_configured.

Theorem C15_no_keyerror : forall HB cf ce cc ccm cv t,
  conf_valid cf = true -> flow HB cf ce cc ccm cv t <> TkRaised KeyError.
Proof. exact no_keyerror. Qed.
Print Assumptions C15_no_keyerror.

(* this library's relying party against this library's provider: for every non-empty verifier over any
   ASCII alphabet (unreserved() in particular), every method the RP can be configured with that the provider
   is configured to support: the pair the RP produces redeems the code *)
Theorem C15_rp_op_agree : forall HB, (forall n v, HB n v <> []) ->
  forall cf ce rpm v c m tccm,
  rp_make HB rpm v = Ok (c, m) -> v <> [] -> In m (pc_methods cf) ->
  flow HB cf ce (Some c) (Some m) (Some v) tccm = Tokens.
Proof. exact rp_op_agree. Qed.
Print Assumptions C15_rp_op_agree.

Theorem C15_rp_total : forall HB rpm v,
  unreserved_s v = true ->
  (exists c m, rp_make HB rpm v = Ok (c, m)) \/ rp_make HB rpm v = Err (Refused 5).
Proof. exact rp_total_unreserved. Qed.
Print Assumptions C15_rp_total.

(* full statement without `v <> []` is false of the faithful model (code_challenge_length = 0):
   Theorem C15_rp_op_agree_full : ... rp_make HB rpm v = Ok (c, m) -> In m (pc_methods cf) -> flow ... = Tokens. *)
Theorem C15_rp_op_agree_refuted : forall HB, (forall n v, HB n v <> []) ->
  forall cf ce rpm c m tccm,
  rp_make HB rpm [] = Ok (c, m) -> In m (pc_methods cf) ->
  flow HB cf ce (Some c) (Some m) (Some []) tccm = TkRefused 3.
Proof. exact rp_op_empty_verifier_refused. Qed.
Print Assumptions C15_rp_op_agree_refuted.

(* regenerated-table obligations: every RP method exists on the provider with the same digest size *)
Theorem C15_tables_agree : forall m bits,
  assoc m client_cc_methods = Some bits -> m <> [] /\ assoc m server_cc_methods = Some (TrSha bits).
Proof. exact client_method_on_server. Qed.
Print Assumptions C15_tables_agree.

(* ================================================================ transports of the authorization request
   delivery (Model/Pkce.v): plain front channel | request object by value | by reference (request_uri) | pushed
   (PAR; plain body or an object in the body) then redeemed through the issued urn.  protected_of d is the PKCE
   pair of the authenticated / protected request, front_of d what travelled next to it through the user agent,
   assembled d what the PKCE hook sees; recorded_d what the grant of the code then records. *)

(* a front-channel challenge next to a protected one never becomes the recorded one: whatever the transport,
   the challenge (method) of the protected request is the assembled one *)
Theorem C15_transport_protected_challenge_recorded : forall d p c,
  protected_of d = Some p -> fst p = Some c -> fst (assembled d) = Some c.
Proof. exact assembled_challenge_protected. Qed.
Print Assumptions C15_transport_protected_challenge_recorded.

Theorem C15_transport_protected_method_recorded : forall d p m,
  protected_of d = Some p -> snd p = Some m -> snd (assembled d) = Some m.
Proof. exact assembled_method_protected. Qed.
Print Assumptions C15_transport_protected_method_recorded.

(* for a pushed request and a request object passed by value the protected request IS the request ... *)
Theorem C15_transport_protected_is_request : forall d p,
  protected_of d = Some p -> (forall o f, d <> DRef o f) -> assembled d = p.
Proof. exact assembled_is_protected. Qed.
Print Assumptions C15_transport_protected_is_request.

(* ... so the front channel changes nothing at all *)
Theorem C15_transport_pushed_front_irrelevant : forall HB cf ce b f f' cv t,
  flow_d HB cf ce (DPushed b f) cv t = flow_d HB cf ce (DPushed b f') cv t.
Proof. exact flow_d_pushed_front_irrelevant. Qed.
Print Assumptions C15_transport_pushed_front_irrelevant.

Theorem C15_transport_value_front_irrelevant : forall HB cf ce o f f' cv t,
  flow_d HB cf ce (DValue o f) cv t = flow_d HB cf ce (DValue o f') cv t.
Proof. exact flow_d_value_front_irrelevant. Qed.
Print Assumptions C15_transport_value_front_irrelevant.

(* the only way a front-channel parameter reaches the PKCE hook next to a protected request: the protected
   request (a request_uri document) does not carry that parameter *)
Theorem C15_transport_front_fills_gaps_only : forall d p,
  protected_of d = Some p ->
  (fst p = None -> fst (assembled d) = None \/ exists o f, d = DRef o f /\ fst (assembled d) = fst (front_of d))
  /\ (snd p = None -> snd (assembled d) = None \/ exists o f, d = DRef o f /\ snd (assembled d) = snd (front_of d)).
Proof. exact assembled_gap. Qed.
Print Assumptions C15_transport_front_fills_gaps_only.

(* the token endpoint accepts a verifier iff it transforms to the challenge of the protected request *)
Theorem C15_transport_tokens_iff : forall HB cf ce d p c cv t,
  protected_of d = Some p -> fst p = Some c ->
  (flow_d HB cf ce d cv t = Tokens <->
   recorded_d cf ce d = Ok (Some c, recorded_method (snd (assembled d)))
   /\ exists v k, norm cv = Some v
                  /\ assoc (recorded_method (snd (assembled d))) server_cc_methods = Some k
                  /\ tr HB k v = Ok c).
Proof. exact transport_tokens_iff. Qed.
Print Assumptions C15_transport_tokens_iff.

Theorem C15_transport_bound : forall HB cf ce d p c cv t,
  protected_of d = Some p -> fst p = Some c -> flow_d HB cf ce d cv t = Tokens ->
  exists v k, norm cv = Some v
              /\ assoc (recorded_method (snd (assembled d))) server_cc_methods = Some k
              /\ tr HB k v = Ok c.
Proof. exact transport_bound. Qed.
Print Assumptions C15_transport_bound.

Theorem C15_transport_missing_verifier_refused : forall HB cf ce d p c cv t,
  protected_of d = Some p -> fst p = Some c -> norm cv = None ->
  flow_d HB cf ce d cv t = AzRefused 2 \/ flow_d HB cf ce d cv t = TkRefused 3.
Proof. exact transport_missing_verifier_refused. Qed.
Print Assumptions C15_transport_missing_verifier_refused.

(* the verifier of a different challenge c' (say, the one somebody put on the front channel) redeems nothing *)
Theorem C15_transport_front_verifier_refused : forall HB cf ce d p c c' cv t v,
  protected_of d = Some p -> fst p = Some c -> norm cv = Some v -> c' <> c ->
  (forall k, assoc (recorded_method (snd (assembled d))) server_cc_methods = Some k -> tr HB k v = Ok c') ->
  flow_d HB cf ce d cv t <> Tokens.
Proof. exact transport_front_verifier_refused. Qed.
Print Assumptions C15_transport_front_verifier_refused.

(* the complete pair of the protected request with its verifier is accepted, whatever the front channel carries *)
Theorem C15_transport_accepts : forall HB cf ce d p c m k v t,
  protected_of d = Some p -> p = (Some c, Some m) -> In m (pc_methods cf) ->
  assoc m server_cc_methods = Some k -> v <> [] -> tr HB k v = Ok c ->
  flow_d HB cf ce d (Some v) t = Tokens.
Proof. exact transport_accepts. Qed.
Print Assumptions C15_transport_accepts.

(* essential: a front-channel challenge does not make up for a pushed request / request object without one *)
Theorem C15_transport_essential : forall HB cf ce d p cv t,
  essential_eff (pc_essential cf) ce = true ->
  protected_of d = Some p -> (forall o f, d <> DRef o f) -> fst p = None ->
  flow_d HB cf ce d cv t = AzRefused 1.
Proof. exact transport_essential_front_does_not_count. Qed.
Print Assumptions C15_transport_essential.

(* ---- non-vacuity: a concrete injective, non-empty "hash" (prefix a character) ---- *)
Definition HBx (n : N) (v : pystr) : pystr := 72 :: v.
Definition cf_all := mk_pkce_conf [PS "plain"; PS "S256"; PS "S384"; PS "S512"] true.

Example C15_nonvacuous_accept :
  flow HBx cf_all None (Some (HBx 256 (PS "verifier-43"))) (Some (PS "S256")) (Some (PS "verifier-43")) None = Tokens
  /\ flow HBx cf_all None (Some (PS "verifier-43")) None (Some (PS "verifier-43")) (Some (PS "S256")) = Tokens.
Proof. split; vm_compute; reflexivity. Qed.

Example C15_nonvacuous_refuse :
  flow HBx cf_all None (Some (HBx 256 (PS "verifier-43"))) (Some (PS "S256")) (Some (PS "verifier-44")) None = TkRefused 4
  /\ flow HBx cf_all None (Some (HBx 256 (PS "v"))) (Some (PS "S256")) (Some (HBx 256 (PS "v"))) (Some (PS "plain")) = TkRefused 4
  /\ flow HBx cf_all None None (Some (PS "S256")) None None = AzRefused 1
  /\ flow HBx cf_all (Some false) None None None None = Tokens
  /\ flow HBx (mk_pkce_conf [PS "S256"] false) (Some true) (Some (PS "c")) None (Some (PS "c")) None = AzRefused 2.
Proof. repeat split; vm_compute; reflexivity. Qed.

Example C15_nonvacuous_rp :
  exists c, rp_make HBx None (PS "abc-._~XYZ") = Ok (c, PS "S256")
            /\ flow HBx cf_all None (Some c) (Some (PS "S256")) (Some (PS "abc-._~XYZ")) None = Tokens.
Proof. eexists. split; vm_compute; reflexivity. Qed.

Definition pkA : pk := (Some (HBx 256 (PS "verifier-A")), Some (PS "S256")).
Definition pkB : pk := (Some (HBx 256 (PS "verifier-B")), Some (PS "S256")).
Definition pk0 : pk := (None, None).
Example C15_nonvacuous_transport :
  (* pushed A, front channel says B: only A's verifier redeems *)
  flow_d HBx cf_all None (DPushed (PbPlain pkA) pkB) (Some (PS "verifier-A")) None = Tokens
  /\ flow_d HBx cf_all None (DPushed (PbPlain pkA) pkB) (Some (PS "verifier-B")) None = TkRefused 4
  /\ flow_d HBx cf_all None (DPushed (PbObject pkA pkB) pkB) (Some (PS "verifier-B")) None = TkRefused 4
  /\ flow_d HBx cf_all None (DValue pkA pkB) (Some (PS "verifier-B")) None = TkRefused 4
  /\ flow_d HBx cf_all None (DRef pkA pkB) (Some (PS "verifier-B")) None = TkRefused 4
  /\ flow_d HBx cf_all None (DRef pkA pkB) (Some (PS "verifier-A")) None = Tokens
  (* same challenge, front channel names 'plain': the challenge replayed as verifier redeems nothing *)
  /\ flow_d HBx cf_all None (DPushed (PbPlain pkA) (fst pkA, Some (PS "plain"))) (fst pkA) None = TkRefused 4
  (* essential, pushed without a challenge: the front-channel one does not count *)
  /\ flow_d HBx cf_all None (DPushed (PbPlain pk0) pkB) (Some (PS "verifier-B")) None = AzRefused 1
  /\ flow_d HBx cf_all None (DValue pk0 pkB) (Some (PS "verifier-B")) None = AzRefused 1
  (* a request_uri document WITHOUT the parameter: the front-channel one fills the gap (the guard of
     C15_transport_protected_is_request / C15_transport_essential is necessary) *)
  /\ flow_d HBx cf_all None (DRef pk0 pkB) (Some (PS "verifier-B")) None = Tokens
  /\ recorded_d cf_all None (DPushed (PbPlain pkA) pkB) = Ok (fst pkA, PS "S256").
Proof. repeat split; vm_compute; reflexivity. Qed.

(* ================================================================ interactive authentication: the log-in page
   The user has to authenticate before the code is minted: the request travels as `query` (Message.to_urlencoded) in
   the log-in page, the application rebuilds it (AuthorizationRequest().from_urlencoded(query), create_session,
   authz_part2) and the grant records the REBUILT request.  resume (Model/Pkce.v) = request -> query -> rebuilt
   request, through the urllib model of Lib/Qs.v.  resumable lists others: the request class does not declare the two
   PKCE parameters with a list type, the other parameters carry text and are not themselves called code_challenge /
   code_challenge_method.  `to_query ... <> None`: the page's query can be written (no lone surrogate). *)

(* the round trip is a per-parameter map over EVERY parameter the request holds: nothing is dropped or added *)
Theorem C15_resume_keeps_every_parameter : forall lists r q,
  to_query r = Some q -> values_nonempty r = true ->
  resume lists r = Ok (map (fun kv => (fst kv, deser lists (fst kv) (ser (snd kv)))) r).
Proof. exact resume_is_map. Qed.
Print Assumptions C15_resume_keeps_every_parameter.

(* extension parameters survive: a parameter the class does not declare as a list comes back with its text *)
Theorem C15_resume_extension_parameter_survives : forall lists r q k,
  to_query r = Some q -> values_nonempty r = true -> str_in k lists = false ->
  forall r', resume lists r = Ok r' -> option_map ser (assoc k r') = option_map ser (assoc k r).
Proof. exact resume_param. Qed.
Print Assumptions C15_resume_extension_parameter_survives.

Theorem C15_resume_pair_survives : forall lists r q r',
  str_in k_cc lists = false -> str_in k_ccm lists = false ->
  to_query r = Some q -> values_nonempty r = true ->
  resume lists r = Ok r' -> qpair r' = qpair r.
Proof. exact resume_pair. Qed.
Print Assumptions C15_resume_pair_survives.

(* the pair recorded for the code minted after the log-in page is the pair post_authn_parse accepted for the
   authorization request that led to the page (recorded_d: whatever the transport of that request) *)
Theorem C15_resumed_recorded_is_request_pair : forall cf ce d lists others st q,
  resumable lists others -> recorded_d cf ce d = Ok st -> to_query (held others st) = Some q ->
  recorded_i cf ce d lists others = Ok (fst st, Some (snd st)).
Proof. exact recorded_i_is_request_pair. Qed.
Print Assumptions C15_resumed_recorded_is_request_pair.

(* an interactive flow is judged exactly like the same request answered without a log-in page *)
Theorem C15_resumed_flow_is_direct_flow : forall HB cf ce d lists others cv t,
  resumable lists others ->
  (forall st, recorded_d cf ce d = Ok st -> to_query (held others st) <> None) ->
  flow_i HB cf ce d lists others cv t = flow_d HB cf ce d cv t.
Proof. exact flow_i_is_flow_d. Qed.
Print Assumptions C15_resumed_flow_is_direct_flow.

(* token endpoint, resumed flows: tokens iff the request was acceptable and (it carried no challenge or the verifier
   transforms, under the recorded method, to the challenge of the request that led to the log-in page) *)
Theorem C15_resumed_tokens_iff : forall HB cf ce d lists others cv t,
  resumable lists others ->
  (forall st, recorded_d cf ce d = Ok st -> to_query (held others st) <> None) ->
  (flow_i HB cf ce d lists others cv t = Tokens <->
   recorded_d cf ce d = Ok (fst (assembled d), recorded_method (snd (assembled d)))
   /\ (fst (assembled d) = None \/
       exists c v k, fst (assembled d) = Some c /\ norm cv = Some v
                     /\ assoc (recorded_method (snd (assembled d))) server_cc_methods = Some k /\ tr HB k v = Ok c)).
Proof. exact resumed_tokens_iff. Qed.
Print Assumptions C15_resumed_tokens_iff.

Theorem C15_resumed_missing_verifier_refused : forall HB cf ce d lists others cv t c,
  resumable lists others ->
  (forall st, recorded_d cf ce d = Ok st -> to_query (held others st) <> None) ->
  fst (assembled d) = Some c -> norm cv = None ->
  flow_i HB cf ce d lists others cv t = AzRefused 2 \/ flow_i HB cf ce d lists others cv t = TkRefused 3.
Proof. exact resumed_missing_verifier_refused. Qed.
Print Assumptions C15_resumed_missing_verifier_refused.

Theorem C15_resumed_wrong_verifier_refused : forall HB cf ce d lists others cv t c v,
  resumable lists others ->
  (forall st, recorded_d cf ce d = Ok st -> to_query (held others st) <> None) ->
  fst (assembled d) = Some c -> norm cv = Some v ->
  (forall k, assoc (recorded_method (snd (assembled d))) server_cc_methods = Some k -> tr HB k v <> Ok c) ->
  flow_i HB cf ce d lists others cv t <> Tokens.
Proof. exact resumed_wrong_verifier_refused. Qed.
Print Assumptions C15_resumed_wrong_verifier_refused.

(* which other parameters the request has (prompt, max_age, state ...) and which of them are lists has no say *)
Theorem C15_resumed_others_irrelevant : forall HB cf ce d lists others lists' others' cv t,
  resumable lists others -> resumable lists' others' ->
  (forall st, recorded_d cf ce d = Ok st -> to_query (held others st) <> None) ->
  (forall st, recorded_d cf ce d = Ok st -> to_query (held others' st) <> None) ->
  flow_i HB cf ce d lists others cv t = flow_i HB cf ce d lists' others' cv t.
Proof. exact resumed_others_irrelevant. Qed.
Print Assumptions C15_resumed_others_irrelevant.

(* why "every parameter is written" matters: a page written from the declared parameters only loses the challenge *)
Theorem C15_resume_declared_only_refuted : forall declared r,
  str_in k_cc declared = false -> fst (qpair (declared_only declared r)) = None.
Proof. exact declared_only_drops_pair. Qed.
Print Assumptions C15_resume_declared_only_refuted.

Definition oth_x : rparams :=
  [(PS "client_id", PvS (PS "client_1")); (PS "redirect_uri", PvS (PS "https://client_1.example.com/cb?a=b c"));
   (PS "scope", PvL [PS "openid"; PS "profile"]); (PS "state", PvS (PS "S&=%+ t")); (PS "response_type", PvL [PS "code"]);
   (PS "prompt", PvL [PS "login"])].
Definition lists_x : list pystr := [PS "scope"; PS "response_type"; PS "prompt"; PS "acr_values"].
Example C15_nonvacuous_resume :
  (* the side conditions are satisfiable, the query is what urllib writes, the rebuilt request is the request *)
  resumable lists_x oth_x
  /\ to_query (held oth_x (fst pkA, PS "S256"))
     = Some (PS "client_id=client_1&redirect_uri=https%3A%2F%2Fclient_1.example.com%2Fcb%3Fa%3Db+c&scope=openid+profile&state=S%26%3D%25%2B+t&response_type=code&prompt=login&code_challenge=Hverifier-A&code_challenge_method=S256")
  /\ resume lists_x (held oth_x (fst pkA, PS "S256")) = Ok (held oth_x (fst pkA, PS "S256"))
  /\ recorded_i cf_all None (DFront pkA) lists_x oth_x = Ok pkA
  /\ recorded_i cf_all None (DPushed (PbPlain pkA) pkB) lists_x oth_x = Ok pkA
  (* the default method post_authn_parse filled in travels through the page as well *)
  /\ recorded_i cf_all None (DFront (Some (PS "verifier-A"), None)) lists_x oth_x = Ok (Some (PS "verifier-A"), Some (PS "plain"))
  /\ flow_i HBx cf_all None (DFront pkA) lists_x oth_x (Some (PS "verifier-A")) None = Tokens
  /\ flow_i HBx cf_all None (DFront pkA) lists_x oth_x (Some (PS "verifier-B")) None = TkRefused 4
  /\ flow_i HBx cf_all None (DFront pkA) lists_x oth_x None None = TkRefused 3
  /\ flow_i HBx cf_all None (DValue pkA pkB) lists_x oth_x (Some (PS "verifier-B")) None = TkRefused 4
  /\ flow_i HBx cf_all None (DFront pk0) lists_x oth_x None None = AzRefused 1
  (* a page written from the declared parameters only: the code is redeemed without any verifier *)
  /\ token_leg_q HBx (qpair (declared_only (PS "client_id" :: PS "redirect_uri" :: PS "state" :: lists_x)
                                          (held oth_x (fst pkA, PS "S256")))) None None = Ok tt.
Proof. repeat split; vm_compute; reflexivity. Qed.

(* ================================================================ extension parameters; whether the PKCE hooks RUN
   The add-on is two post-parse hooks run by Endpoint.do_post_parse_request (Model/Pkce.v: post_parse, authn_hook,
   token_hook).  A request is a list of members (rparams): the PKCE parameters and, next to them, arbitrary extension
   parameters ax (authorization request, whatever transport delivered it) and tx (token request) - `error`,
   `error_description`, `response_args`, `authenticated`, `__verified_request`, `return_uri`, names of the keys of the
   hook results ... ; the only condition: they are not themselves named like the PKCE parameters of that leg.
   The rule: forall extras, flow (rq + extras) = flow rq. *)

(* the hook loop applies the first hook to every request, whatever its members *)
Theorem C15_hooks_run_on_every_request : forall h hs r, post_parse (h :: hs) (PReq r) = post_parse hs (h r).
Proof. exact post_parse_runs. Qed.
Print Assumptions C15_hooks_run_on_every_request.

(* hooks registered before the PKCE hook that leave the request alone do not keep it from running *)
Theorem C15_hooks_run_after_transparent_hooks : forall pre hs r,
  (forall h, In h pre -> h r = PReq r) -> post_parse (pre ++ hs)%list (PReq r) = post_parse hs (PReq r).
Proof. exact post_parse_transparent. Qed.
Print Assumptions C15_hooks_run_after_transparent_hooks.

(* the authorization hook on a whole request is post_authn_parse on the two parameters it reads by name *)
Theorem C15_authz_hook_reads_pair_only : forall cf ce r,
  authz_leg_x cf ce r = authn_leg cf ce (sget k_cc r) (sget k_ccm r).
Proof. exact authz_leg_x_reads. Qed.
Print Assumptions C15_authz_hook_reads_pair_only.

(* what the grant records does not depend on the extension parameters of the authorization request (every transport) *)
Theorem C15_extras_recorded_irrelevant : forall cf ce d ax,
  assoc k_cc ax = None -> assoc k_ccm ax = None ->
  authz_leg_x cf ce (ax ++ pk_members (assembled d))%list = recorded_d cf ce d.
Proof. exact authz_extras_irrelevant. Qed.
Print Assumptions C15_extras_recorded_irrelevant.

(* THE statement: the verdict of a flow is the verdict of the same flow without the extension parameters, both legs,
   every transport *)
Theorem C15_extras_irrelevant : forall HB cf ce d ax tx cv t,
  assoc k_cc ax = None -> assoc k_ccm ax = None -> assoc k_cv tx = None -> assoc k_ccm tx = None ->
  flow_x HB cf ce d ax tx cv t = flow_d HB cf ce d cv t.
Proof. exact flow_x_extras_irrelevant. Qed.
Print Assumptions C15_extras_irrelevant.

Theorem C15_extras_any_two_agree : forall HB cf ce d ax tx ax' tx' cv t,
  assoc k_cc ax = None -> assoc k_ccm ax = None -> assoc k_cv tx = None -> assoc k_ccm tx = None ->
  assoc k_cc ax' = None -> assoc k_ccm ax' = None -> assoc k_cv tx' = None -> assoc k_ccm tx' = None ->
  flow_x HB cf ce d ax tx cv t = flow_x HB cf ce d ax' tx' cv t.
Proof. exact flow_x_any_extras. Qed.
Print Assumptions C15_extras_any_two_agree.

(* essential: no code without a challenge, whatever else the request carries *)
Theorem C15_extras_essential : forall HB cf ce d ax tx cv t,
  assoc k_cc ax = None -> assoc k_ccm ax = None -> assoc k_cv tx = None -> assoc k_ccm tx = None ->
  essential_eff (pc_essential cf) ce = true -> fst (assembled d) = None ->
  flow_x HB cf ce d ax tx cv t = AzRefused 1.
Proof. exact flow_x_essential. Qed.
Print Assumptions C15_extras_essential.

(* through the log-in page: the extension parameters travel in the page's query like every other parameter *)
Theorem C15_extras_resumed_irrelevant : forall HB cf ce d lists others ax tx cv t,
  resumable lists others -> resumable lists (others ++ ax)%list ->
  (forall st, recorded_d cf ce d = Ok st -> to_query (held others st) <> None) ->
  (forall st, recorded_d cf ce d = Ok st -> to_query (held (others ++ ax)%list st) <> None) ->
  assoc k_cv tx = None -> assoc k_ccm tx = None ->
  flow_ix HB cf ce d lists others ax tx cv t = flow_i HB cf ce d lists others cv t.
Proof. exact flow_ix_extras_irrelevant. Qed.
Print Assumptions C15_extras_resumed_irrelevant.

(* why "the loop looks at the class, not at the members" matters: a loop that stops as soon as the message HAS a member
   called `error` (post_parse_m) never runs the hooks on such a request - a code without a challenge under essential
   PKCE, tokens without a verifier *)
Fixpoint post_parse_m (hs : list phook) (m : pmsg) : pmsg :=
  match hs with
  | [] => m
  | h :: t => match m with
              | PReq r => if has_key (PS "error") r then m else post_parse_m t (h r)
              | _ => m
              end
  end.
Definition ext_x : rparams :=
  [(PS "error", PvS (PS "x")); (PS "error_description", PvS (PS "Missing required code_challenge"));
   (PS "response_args", PvS (PS "{}")); (PS "authenticated", PvS (PS "true")); (PS "__verified_request", PvS (PS "1"))].
Example C15_nonvacuous_extras :
  assoc k_cc ext_x = None /\ assoc k_ccm ext_x = None /\ assoc k_cv ext_x = None
  /\ flow_x HBx cf_all None (DFront pkA) ext_x ext_x (Some (PS "verifier-A")) None = Tokens
  /\ flow_x HBx cf_all None (DFront pkA) ext_x ext_x (Some (PS "verifier-B")) None = TkRefused 4
  /\ flow_x HBx cf_all None (DValue pkA pkB) ext_x ext_x None None = TkRefused 3
  /\ flow_x HBx cf_all None (DFront pk0) ext_x ext_x None None = AzRefused 1
  /\ flow_x HBx cf_all None (DPushed (PbPlain (fst pkA, Some (PS "S1"))) pkB) ext_x [] None None = AzRefused 2
  (* the member-sensitive loop: neither hook runs *)
  /\ post_parse_m [authn_hook cf_all None] (PReq (ext_x ++ pk_members pk0)%list) = PReq (ext_x ++ pk_members pk0)%list
  /\ post_parse [authn_hook cf_all None] (PReq (ext_x ++ pk_members pk0)%list) = PErr 1
  /\ post_parse_m [token_hook HBx (fst pkA, PS "S256")] (PReq (ext_x ++ tk_members None None)%list) = PReq (ext_x ++ tk_members None None)%list
  /\ post_parse [token_hook HBx (fst pkA, PS "S256")] (PReq (ext_x ++ tk_members None None)%list) = PErr 3.
Proof. repeat split; vm_compute; reflexivity. Qed.

(* Tie to the source: Gen/Src_pkce.v is the CURRENT idpyoidc.server.oauth2.add_on.pkce.verify_code_challenge, translated
   by harness/py2v.py on every run (CC_METHOD = the regenerated table server_cc_methods over the abstract hash HB). *)
From Verif Require Lib.PyOps Gen.Src_pkce Proofs.Src_refine_pkce.
Theorem C15_verify_code_challenge_is_source : forall HB v c m clock,
  Src_pkce.verify_code_challenge_src (Src_refine_pkce.cc_method_env HB) (VStr v) (VStr c) (VStr m) clock
  = match assoc m server_cc_methods with
    | None => Err KeyError
    | Some k => bind (tr HB k v) (fun t => Ok (VBool (str_eqb t c)))
    end.
Proof. exact Src_refine_pkce.verify_code_challenge_refines. Qed.
Print Assumptions C15_verify_code_challenge_is_source.
(* ... and the model's token leg decides by exactly that value *)
Theorem C15_token_leg_is_source : forall HB c m v tccm clock,
  v <> [] ->
  token_leg HB (Some c, m) (Some v) tccm
  = bind (Src_pkce.verify_code_challenge_src (Src_refine_pkce.cc_method_env HB) (VStr v) (VStr c) (VStr m) clock)
         (fun b => if py_truthy b then Ok tt else Err (Refused 4)).
Proof. exact Src_refine_pkce.token_leg_is_source. Qed.
Print Assumptions C15_token_leg_is_source.

(* --- round 11 --- *)
(* HISTORIES OF THE RELYING PARTY'S STORE (Model/PkceRp.v): the authorization request may be built several times under one
   state value (regenerated log-in URL, retry, caller-supplied fixed state), by an OAuth2 relying party (the record is
   updated) or an OIDC one (the record is reset first), interleaved with requests under other states and with responses
   being stored.  From any store, after any earlier history: the token request for s carries the verifier drawn by the
   LATEST request built under s ... *)
From Verif Require Model.PkceRp Proofs.PkceRp_proofs.
Import PkceRp.
Theorem C15_rp_latest_begin_sent : forall HB st0 before after oidc s m v iss others c m',
  rp_make HB m v = Ok (c, m') -> assoc kv_verifier others = None -> Forall (PkceRp_proofs.quiet s) after ->
  rp_sent (rp_run HB st0 (before ++ RpBegin oidc s m v iss others :: after)) s = Ok (Some v).
Proof. exact PkceRp_proofs.latest_begin_sent. Qed.
Print Assumptions C15_rp_latest_begin_sent.

(* ... hence this library's provider accepts the pair of the latest request (the challenge it was sent, the verifier the
   token request carries), for both client types and every history *)
Theorem C15_rp_latest_pair_accepted : forall HB, (forall n x, HB n x <> []) ->
  forall cf ce tccm st0 before after oidc s m v iss others c m',
  rp_make HB m v = Ok (c, m') -> v <> [] -> In m' (pc_methods cf) ->
  assoc kv_verifier others = None -> Forall (PkceRp_proofs.quiet s) after ->
  flow HB cf ce (Some c) (Some m')
       (rp_token_verifier (rp_run HB st0 (before ++ RpBegin oidc s m v iss others :: after)) s) tccm = Tokens.
Proof. exact PkceRp_proofs.latest_pair_accepted. Qed.
Print Assumptions C15_rp_latest_pair_accepted.

(* ... and the source's verify_code_challenge (translated on every run) answers True on that pair *)
Theorem C15_rp_latest_pair_verify_code_challenge : forall HB st0 before after oidc s m v iss others c m' clock,
  rp_make HB m v = Ok (c, m') -> assoc kv_verifier others = None -> Forall (PkceRp_proofs.quiet s) after ->
  exists v', rp_token_verifier (rp_run HB st0 (before ++ RpBegin oidc s m v iss others :: after)) s = Some v'
    /\ Src_pkce.verify_code_challenge_src (Src_refine_pkce.cc_method_env HB) (VStr v') (VStr c) (VStr m') clock
       = Ok (VBool true).
Proof. exact PkceRp_proofs.latest_pair_verify_code_challenge. Qed.
Print Assumptions C15_rp_latest_pair_verify_code_challenge.

(* the code of an EARLIER request under the same state is decided on the verifier of the latest one (C15_tokens_iff then
   says when: only if that verifier happens to transform to the earlier challenge) *)
Theorem C15_rp_earlier_code_decided_on_latest : forall HB cf ce tccm st0 before after oidc s m v iss others c m' c1 m1,
  rp_make HB m v = Ok (c, m') -> assoc kv_verifier others = None -> Forall (PkceRp_proofs.quiet s) after ->
  flow HB cf ce c1 m1 (rp_token_verifier (rp_run HB st0 (before ++ RpBegin oidc s m v iss others :: after)) s) tccm
  = flow HB cf ce c1 m1 (Some v) tccm.
Proof. exact PkceRp_proofs.earlier_code_decided_on_latest_verifier. Qed.
Print Assumptions C15_rp_earlier_code_decided_on_latest.

(* non-vacuity, and why the ORDER of the writes matters: two requests under state "S" by an OAuth2 and by an OIDC relying
   party, the other state "T" in between, the first response stored: the second verifier is sent and redeems the second
   code, not the first; a store that keeps the first code_verifier of a record (first_kept_update) sends the stale one,
   which this library's provider refuses *)
Definition h2 (oidc : bool) : list rp_op :=
  [RpBegin oidc (PS "S") None (PS "verifier-one") (PS "https://op") [(PS "state", PS "S"); (PS "nonce", PS "n1")];
   RpBegin oidc (PS "T") None (PS "verifier-T") (PS "https://op") [(PS "state", PS "T")];
   RpStore (PS "S") [(PS "code", PS "c1"); (PS "state", PS "S")];
   RpBegin oidc (PS "S") None (PS "verifier-two") (PS "https://op") [(PS "state", PS "S"); (PS "nonce", PS "n2")];
   RpStore (PS "S") [(PS "code", PS "c2"); (PS "state", PS "S")]].
Example C15_nonvacuous_rp_history :
  (forall oidc, rp_sent (rp_run HBx [] (h2 oidc)) (PS "S") = Ok (Some (PS "verifier-two")))
  /\ (forall oidc, rp_sent (rp_run HBx [] (h2 oidc)) (PS "T") = Ok (Some (PS "verifier-T")))
  /\ (forall oidc, flow HBx cf_all None (Some (HBx 256 (PS "verifier-two"))) (Some (PS "S256"))
                     (rp_token_verifier (rp_run HBx [] (h2 oidc)) (PS "S")) None = Tokens)
  /\ (forall oidc, flow HBx cf_all None (Some (HBx 256 (PS "verifier-one"))) (Some (PS "S256"))
                     (rp_token_verifier (rp_run HBx [] (h2 oidc)) (PS "S")) None = TkRefused 4)
  (* the OAuth2 record keeps the first nonce (the guard of Current.update), the OIDC record was reset *)
  /\ option_map (assoc kv_nonce) (assoc (PS "S") (rp_run HBx [] (h2 false))) = Some (Some (PS "n1"))
  /\ option_map (assoc kv_nonce) (assoc (PS "S") (rp_run HBx [] (h2 true))) = Some (Some (PS "n2"))
  (* first-write-wins for code_verifier: the stale verifier, refused for the code of the latest request *)
  /\ (let st1 := rp_run HBx [] [RpBegin false (PS "S") None (PS "verifier-one") (PS "https://op") []] in
      let st2 := PkceRp_proofs.first_kept_update st1 (PS "S") [(kv_verifier, PS "verifier-two"); (kv_method, PS "S256")] in
      rp_token_verifier st2 (PS "S") = Some (PS "verifier-one")
      /\ flow HBx cf_all None (Some (HBx 256 (PS "verifier-two"))) (Some (PS "S256")) (rp_token_verifier st2 (PS "S")) None
         = TkRefused 4).
Proof. repeat split; try (intros [|]); vm_compute; reflexivity. Qed.
(* --- end round 11 --- *)
