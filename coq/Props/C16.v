(* Props/C16.v — placeholder while the correspondence is being established; replaced by the theorems. *)
From Verif Require Import Lib.Base Lib.PyStr Lib.Crypto Model.Jar Model.JarCheck.
