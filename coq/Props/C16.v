(* Props/C16.v — property C16: request objects and pushed requests are authenticated before they take
   effect.  Only statements, each closed by `exact <lemma>`, with Print Assumptions, and non-vacuity examples.

   Vocabulary (Model/Jar.v): `run g d (init t0) ops` is the list of (state after, result) of the operations
   OAuthz (authorization endpoint parse_request: by value / by request_uri served from the documents d /
   redeeming a pushed request), OPush (PAR parse+process) and OTick, for EVERY operation list ops.
   `Acc r` = the request came back accepted; `r_vr r = Some v` = a verified request object v is attached, i.e.
   object parameters took effect; v_key v = the key number under which its signature verified.
   cfg_wf g = true is the boolean guard the harness evaluates on every observed configuration (last hook of
   the authorization endpoint is _post_parse_request; no client with an empty id). *)
From Coq Require Import String.
From Verif Require Import Lib.Base.
From Verif Require Import Lib.PyStr.
From Verif Require Import Lib.Crypto.
From Verif Require Import Model.Jar.
From Verif Require Import Model.JarCheck.
From Verif Require Import Proofs.Jar_proofs.

(* C16_authenticated — uniformly over the three transports and over all histories: whenever object parameters
   take effect, the request is attributed to a registered client c, the object names nobody but c (client_id,
   iss), its algorithm is permitted for c (registered request_object_signing_alg, else the provider's set), it
   is either unsigned (then "none" is what is permitted) or its signature verified under a key the key jar
   holds for c (or a symmetric key of the provider itself), and its parameters are the effective ones. *)
Theorem C16_authenticated : forall g d t0 ops, cfg_wf g = true ->
  Forall (fun sr => forall r via v, snd sr = RAuthz (Acc r) via -> r_vr r = Some v -> authenticated g r v)
         (run g d (init t0) ops).
Proof. exact authenticated_all. Qed.
Print Assumptions C16_authenticated.

(* registered alg <> none  =>  the accepted object is signed with exactly the registered algorithm *)
Theorem C16_registered_alg_enforced : forall g r v, authenticated g r v ->
  forall c ci s, assoc k_client_id (r_params r) = Some (PS_ c) -> find_client (clients g) c = Some ci ->
    c_reg ci = RStr s -> s <> s_none -> v_alg v = s /\ exists n, v_key v = Some n.
Proof. exact authenticated_not_unsigned. Qed.
Print Assumptions C16_registered_alg_enforced.

(* C16_override — object parameters override same-named outer ones (all three transports, all histories) *)
Theorem C16_override : forall g d t0 ops, cfg_wf g = true ->
  Forall (fun sr => forall r via v, snd sr = RAuthz (Acc r) via -> r_vr r = Some v ->
            forall k x, assoc k (v_claims v) = Some x -> assoc k (r_params r) = Some x)
         (run g d (init t0) ops).
Proof. exact override_all. Qed.
Print Assumptions C16_override.

(* ... and in the strict merge (by value, and what the PAR endpoint stores) nothing but the object survives *)
Theorem C16_override_strict : forall g p w r v,
  merge_obj true g p w = Acc r -> r_vr r = Some v ->
  forall k, has_key k (r_params r) = true -> has_key k (v_claims v) = true.
Proof. exact merge_strict. Qed.
Print Assumptions C16_override_strict.

(* by value (no request_uri in the query): the effective parameters are exactly the object's, plus the
   redirect_uri the endpoint resolves; nothing the query alone carried survives *)
Theorem C16_override_by_value : forall g d st outer w st' r via v,
  authz_parse g d st outer w = (st', Acc r, via) -> assoc k_request_uri outer = None -> r_vr r = Some v ->
  via = None /\ forall k, has_key k (r_params r) = true -> has_key k (v_claims v) = true \/ k = k_redirect_uri.
Proof. exact value_strict. Qed.
Print Assumptions C16_override_by_value.

(* C16_cross_client — an accepted object never names another client than the one the request is attributed to,
   and is never keyed by anything but that client's keys: objects naming / signed by another client are refused *)
Theorem C16_cross_client : forall g d t0 ops, cfg_wf g = true ->
  Forall (fun sr => forall r via v c, snd sr = RAuthz (Acc r) via -> r_vr r = Some v ->
            assoc k_client_id (r_params r) = Some (PS_ c) ->
            (forall x, assoc k_client_id (v_claims v) = Some x -> x = PS_ c) /\
            (forall x, assoc k_iss (v_claims v) = Some x -> x = PS_ c) /\
            (forall n, v_key v = Some n -> exists kt, alg_kind (v_alg v) = AlgK kt /\ key_for g c kt n))
         (run g d (init t0) ops).
Proof. exact cross_client_all. Qed.
Print Assumptions C16_cross_client.

(* C16_par_once — over all orders of push / redeem / replay / tick (fresh request_uri values): no request_uri
   redeems an accepted authorization request twice *)
Theorem C16_par_once : forall g d t0 ops, NoDup (pushed_urns ops) -> NoDup (redeemed (run g d (init t0) ops)).
Proof. exact par_once. Qed.
Print Assumptions C16_par_once.

(* C16_par_lifetime — a redeemed request_uri u was issued by an earlier push (u, pushed at t, lifetime l) and is
   redeemed while  t <= now <= t + l;  every history entry is a push that stored a request and announced l *)
Theorem C16_par_lifetime : forall g d t0 ops, Forall tick_ok ops ->
  Forall (fun x => forall r u, snd (fst x) = RAuthz (Acc r) (Some u) ->
            exists t l, In (u, t, l) (snd x) /\ (t <= now (fst (fst x)))%Z /\ (now (fst (fst x)) <= t + l)%Z)
         (run_h g d (init t0) [] ops).
Proof. exact par_lifetime. Qed.
Print Assumptions C16_par_lifetime.

Theorem C16_par_history_meaning : forall g st o res h x,
  In x (hist_after g st o res h) -> In x h \/
  exists pusher body w u r p, o = OPush pusher body w u /\ res = RPush (Acc r) p /\
     ((exists e, p = PUrn e /\ x = (u, now st, e)) \/ (exists t, p = PStoredExc t /\ x = (u, now st, ttl g))).
Proof. exact hist_after_spec. Qed.
Print Assumptions C16_par_history_meaning.

(* C16_par_own_uri — a pushed request comes back only through the request_uri it is stored under, exactly as
   stored, not before/after its lifetime, and the entry is gone afterwards *)
Theorem C16_par_own_uri : forall g d st r cid st' o u,
  do_request_uri g d st r cid = (st', o, Some u) ->
  exists e, In (u, e) (par_db st) /\ (now st <= e_exp e)%Z /\ o = Acc (e_req e)
            /\ assoc k_request_uri (r_params r) = Some (PS_ u)
            /\ (NoDup (db_keys st) -> ~ In u (db_keys st')).
Proof. exact dru_via. Qed.
Print Assumptions C16_par_own_uri.

(* C16_par_exact_spelling — the store is keyed by the exact string that was issued: an authorization request whose
   request_uri is not, character for character, the request_uri of a stored pushed request (another letter case of
   scheme / NID / hex digits, surrounding whitespace, a fragment or query, percent-escapes, ...) leaves the store
   as it is and redeems nothing (via = None: no stored request was handed out) *)
Theorem C16_par_exact_spelling : forall g d st outer w st' o via,
  authz_parse g d st outer w = (st', o, via) ->
  (forall ru, assoc k_request_uri outer = Some (PS_ ru) -> ~ In ru (db_keys st)) ->
  st' = st /\ via = None.
Proof. exact authz_unknown_spelling. Qed.
Print Assumptions C16_par_exact_spelling.

(* C16_par_redemptions_bounded — over every history, whatever request_uri strings the authorization requests carry:
   each successful redemption presented a request_uri that was issued to a push, and there are at most as many
   successful redemptions as pushes *)
Theorem C16_par_redemptions_bounded : forall g d t0 ops, NoDup (pushed_urns ops) ->
  (forall u, In u (redeemed (run g d (init t0) ops)) -> In u (pushed_urns ops)) /\
  (List.length (redeemed (run g d (init t0) ops)) <= List.length (pushed_urns ops))%nat.
Proof. exact par_count. Qed.
Print Assumptions C16_par_redemptions_bounded.

(* C16_par_one_push_one_redemption — one push, any number of authorization requests before and after it with
   arbitrary request_uri strings: at most one of them redeems it, and that one presented the issued string *)
Theorem C16_par_one_push_one_redemption : forall g d t0 pre post pusher body w u,
  pushed_urns pre = [] -> pushed_urns post = [] ->
  (List.length (redeemed (run g d (init t0) (pre ++ OPush pusher body w u :: post))) <= 1)%nat /\
  (forall x, In x (redeemed (run g d (init t0) (pre ++ OPush pusher body w u :: post))) -> x = u).
Proof. exact par_one_push. Qed.
Print Assumptions C16_par_one_push_one_redemption.

(* C16_unforgeable — symbolic (Dolev-Yao): if key k0 is never published, an object accepted under k0 carries the
   signature term Sig k0 (alg, claims), and whoever can derive that term found it inside something an honest
   party published: only objects the key holder signed, with exactly this algorithm and these claims, verify *)
Theorem C16_unforgeable : forall (K : term -> Prop) (k0 : nat), (forall t, K t -> ~ sub (Key k0) t) ->
  forall g fb w v, from_jwt g fb w = FOk v -> v_key v = Some k0 ->
    wobj_sig_term w = Some (sig_term k0 (v_alg v) (v_claims v)) /\
    (derivable K (sig_term k0 (v_alg v) (v_claims v)) ->
     exists t0, K t0 /\ sub (sig_term k0 (v_alg v) (v_claims v)) t0).
Proof. exact unforgeable. Qed.
Print Assumptions C16_unforgeable.

(* ---------------------------------------------------------------- the encrypted wrapper (a JWE around the object)
   WEnc h i = a compact JWE with header h around the plaintext i (a JWS | claims as bare JSON | anything else);
   open_wrapper w = what the provider holds after decryption: the JWS inside, bare JSON claims as the UNSIGNED object
   `WObj "none" claims None`, WBad when the wrapper does not open or holds neither.  C16_authenticated,
   C16_registered_alg_enforced, C16_override, C16_cross_client above range over ALL operations, wrapped objects
   included (by value, behind a request_uri, pushed).  The statements below say that encryption adds no authority. *)

(* verification sees only the content of the wrapper *)
Theorem C16_wrapper_opened : forall g fb w, from_jwt g fb w = from_jwt g fb (open_wrapper w).
Proof. exact from_jwt_open. Qed.
Print Assumptions C16_wrapper_opened.

(* pushed: pushing a wrapped object answers and stores exactly what pushing its content does *)
Theorem C16_wrapper_pushed : forall g d st pusher body w urn,
  step g d st (OPush pusher body (Some w) urn) = step g d st (OPush pusher body (Some (open_wrapper w)) urn).
Proof. exact push_open. Qed.
Print Assumptions C16_wrapper_pushed.

(* by value: the authorization endpoint answers a wrapped object exactly as it answers its content, when RequestParam
   is not among the usable client-authentication methods, or the wrapper opens onto JSON claims nobody signed
   (whatever its cty header), or it opens onto a JWS and says cty "JWT" (opens_on_claims).  What is left out: a
   wrapper without cty "JWT" around a JWS, which RequestParam reads as raw text and gives up on - there the wrapper
   carries less authority than the bare JWS would (no `authenticated` mark), never more. *)
Theorem C16_wrapper_by_value : forall g d st outer w,
  (~ In MReqParam (methods g) \/ opens_on_claims w) ->
  authz_parse g d st outer (Some w) = authz_parse g d st outer (Some (open_wrapper w)).
Proof. exact authz_open. Qed.
Print Assumptions C16_wrapper_by_value.

(* ... in particular claims nobody signed inside a wrapper that opens are answered exactly as the unsigned object with
   those claims, whatever the client-authentication methods (RequestParam included) and the cty header *)
Theorem C16_wrapper_unsigned_by_value : forall g d st outer h c,
  j_state h = JOpens ->
  authz_parse g d st outer (Some (WEnc h (IJson c))) = authz_parse g d st outer (Some (WObj s_none c None)).
Proof. exact authz_open_json. Qed.
Print Assumptions C16_wrapper_unsigned_by_value.

(* the request_param method never takes the client's identity from claims nobody signed: on JSON inside a wrapper
   it gives up (verify_client goes on with the next method), and an identity it does answer is the iss of claims - the
   content of the wrapper when there is one - whose signature verified under a key the key jar holds for that iss *)
Theorem C16_request_param_unsigned : forall g h c, request_param g (WEnc h (IJson c)) = RpContinue.
Proof. exact request_param_unsigned. Qed.
Print Assumptions C16_request_param_unsigned.

Theorem C16_request_param_signed : forall g w i,
  request_param g w = RpIdent i ->
  exists alg claims sg k cands n,
    open_wrapper w = WObj alg claims sg /\ alg_kind alg = AlgK k /\
    lookup_keys g (iss_for claims None) k (kid_of sg) = Some cands /\
    try_verify cands alg claims sg = VOk n /\ assoc k_iss claims = Some (PS_ i).
Proof. exact request_param_ident_signed. Qed.
Print Assumptions C16_request_param_signed.

(* by request_uri: a wrapped document never takes effect (the only accepted outcome for that uri is a pushed request
   stored under it) *)
Theorem C16_wrapper_by_uri : forall g d st r cid st' r' via ru h i,
  do_request_uri g d st r cid = (st', Acc r', via) ->
  assoc k_request_uri (r_params r) = Some (PS_ ru) -> ru <> [] -> assoc ru d = Some (WEnc h i) ->
  via = Some ru /\ exists e, In (ru, e) (par_db st) /\ r' = e_req e.
Proof. exact wrapped_doc_no_effect. Qed.
Print Assumptions C16_wrapper_by_uri.

(* C16's soundness over wrapped objects, whatever the client-authentication methods and the cty header: after any
   history, a by-value object whose parameters take effect was verified as the CONTENT of its wrapper and is
   authenticated for the client the request is attributed to *)
Theorem C16_wrapped_authenticated : forall g d t0 pre outer w st' r via v,
  cfg_wf g = true ->
  authz_parse g d (state_after g d t0 pre) outer (Some w) = (st', Acc r, via) ->
  assoc k_request_uri outer = None -> r_vr r = Some v ->
  from_jwt g None (open_wrapper w) = FOk v /\ authenticated g r v.
Proof. exact value_wrapped_sound. Qed.
Print Assumptions C16_wrapped_authenticated.

(* claims nobody signed inside a wrapper take effect only as an unsigned object: only where "none" is permitted for
   the client the request is attributed to - where an unsigned plain object is accepted too; never for a client that
   registered a signing algorithm other than "none" *)
Theorem C16_wrapped_unsigned : forall g d t0 pre outer h c st' r via v,
  cfg_wf g = true ->
  authz_parse g d (state_after g d t0 pre) outer (Some (WEnc h (IJson c))) = (st', Acc r, via) ->
  assoc k_request_uri outer = None -> r_vr r = Some v ->
  v_alg v = s_none /\ v_key v = None /\ v_claims v = c /\
  exists cid ci, assoc k_client_id (r_params r) = Some (PS_ cid) /\ find_client (clients g) cid = Some ci /\
                 allowed g ci s_none = true.
Proof. exact wrapped_unsigned. Qed.
Print Assumptions C16_wrapped_unsigned.

Theorem C16_wrapped_unsigned_registered : forall g d t0 pre outer h c st' r via v,
  cfg_wf g = true ->
  authz_parse g d (state_after g d t0 pre) outer (Some (WEnc h (IJson c))) = (st', Acc r, via) ->
  assoc k_request_uri outer = None -> r_vr r = Some v ->
  forall cid ci s, assoc k_client_id (r_params r) = Some (PS_ cid) -> find_client (clients g) cid = Some ci ->
    c_reg ci = RStr s -> s = s_none.
Proof. exact wrapped_unsigned_registered. Qed.
Print Assumptions C16_wrapped_unsigned_registered.

(* ---------------------------------------------------------------- the registration in force
   `register g rq` = the dynamic registration of a client that asks for request_object_signing_alg = rq_alg rq at the
   provider g (Registration.filter_client_request / match_claim / do_client_registration): RegStored g' ci = accepted,
   g' the provider afterwards, ci the record stored - which is also what the registration response echoes and the
   read endpoint returns (the harness compares all three with c_reg ci on every registration).  The provider's own
   signing keys do not occur in `register`: request objects are verified with the client's keys. *)

(* C16_registered_exact - the client asked for an algorithm the provider advertises: that algorithm is what is
   registered, and the set permitted for the client is exactly the singleton it asked for *)
Theorem C16_registered_exact : forall g rq g' ci a,
  register g rq = RegStored g' ci -> rq_alg rq = Some a -> In a (prov_algs g) ->
  find_client (clients g') (c_id ci) = Some ci /\ c_reg ci = RStr a /\ forall x, allowed g' ci x = true <-> x = a.
Proof. exact register_permitted_exact. Qed.
Print Assumptions C16_registered_exact.

(* ... hence over every history on the provider as it is afterwards, by value / by request_uri / pushed: an object whose
   parameters take effect for that client has the algorithm it asked for and (unless that is "none") verified under a
   key the key jar holds for the client *)
Theorem C16_registered_only_requested : forall g rq g' ci a d t0 ops,
  cfg_wf g = true -> register g rq = RegStored g' ci -> rq_alg rq = Some a -> In a (prov_algs g) ->
  Forall (fun sr => forall r via v, snd sr = RAuthz (Acc r) via -> r_vr r = Some v ->
            assoc k_client_id (r_params r) = Some (PS_ (c_id ci)) ->
            v_alg v = a /\
            (a <> s_none -> exists n kt, v_key v = Some n /\ alg_kind a = AlgK kt /\ key_for g' (c_id ci) kt n))
         (run g' d (init t0) ops).
Proof. exact registered_only_requested. Qed.
Print Assumptions C16_registered_only_requested.

(* C16_registered_dropped - nothing asked for, or a value the provider does not advertise: nothing is registered (the
   response says so) and the property's fallback applies: the provider's supported set, no more, no less *)
Theorem C16_registered_dropped : forall g rq g' ci,
  register g rq = RegStored g' ci ->
  (rq_alg rq = None \/ exists a, rq_alg rq = Some a /\ ~ In a (prov_algs g)) ->
  c_reg ci = RAbsent /\ forall x, allowed g' ci x = true <-> In x (prov_algs g).
Proof. exact register_dropped. Qed.
Print Assumptions C16_registered_dropped.

(* one client's registration changes neither the provider's settings nor what is permitted for any other client *)
Theorem C16_registration_frame : forall g rq g' ci,
  register g rq = RegStored g' ci ->
  prov_algs g' = prov_algs g /\ jar g' = jar g /\ hooks g' = hooks g /\ methods g' = methods g /\
  (forall c, c <> c_id ci -> find_client (clients g') c = find_client (clients g) c) /\
  (forall cj x, allowed g' cj x = allowed g cj x).
Proof. exact register_frame. Qed.
Print Assumptions C16_registration_frame.

(* the guard the harness evaluates survives a registration (so every theorem above applies to g') *)
Theorem C16_registration_wf : forall g rq g' ci, cfg_wf g = true -> register g rq = RegStored g' ci -> cfg_wf g' = true.
Proof. exact register_wf. Qed.
Print Assumptions C16_registration_wf.

(* a refused registration registers nothing: for an id the client database does not hold, no object ever takes effect *)
Theorem C16_unregistered_no_effect : forall g d t0 ops c, cfg_wf g = true -> find_client (clients g) c = None ->
  Forall (fun sr => forall r via v, snd sr = RAuthz (Acc r) via -> r_vr r = Some v ->
            assoc k_client_id (r_params r) <> Some (PS_ c))
         (run g d (init t0) ops).
Proof. exact unregistered_no_effect. Qed.
Print Assumptions C16_unregistered_no_effect.

(* ---------------------------------------------------------------- non-vacuity: accepting and refusing runs *)
Example C16_accepts_genuine :
  cfg_wf (ex_cfg false (RStr s_rs256)) = true /\ cfg_wf (ex_cfg true RAbsent) = true /\
  (* by value, RS256 registered and used *)
  took_effect (outcome_of (authz_parse (ex_cfg false (RStr s_rs256)) [] (init 0) ex_by_value
                                       (Some (wgen s_rs256 (ex_claims s_c1 s_r1) 0)))) = true /\
  (* by request_uri *)
  took_effect (outcome_of (authz_parse (ex_cfg true RAbsent) [(s_doc0, wgen s_es256 (ex_claims s_c1 s_r1) 1)] (init 0)
                                       (ex_by_uri s_doc0) None)) = true /\
  (* pushed at 0 with ttl 10, redeemed at 10 through its own uri; the replay is refused *)
  List.map (fun x => (took_effect (fst x), refused (fst x), snd x))
    (authz_results (run (ex_cfg true RAbsent) [] (init 0)
       [OPush s_c1 ex_by_value (Some (wgen s_hs256 (ex_claims s_c1 s_r1) 2)) ex_urn; OTick 10;
        OAuthz (ex_by_uri ex_urn) None; OAuthz (ex_by_uri ex_urn) None]))
  = [(true, false, Some ex_urn); (false, true, None)].
Proof. vm_compute. repeat split; reflexivity. Qed.

Example C16_refuses :
  (* unsigned although RS256 is registered *)
  refused (outcome_of (authz_parse (ex_cfg false (RStr s_rs256)) [] (init 0) ex_by_value
                                   (Some (WObj s_none (ex_claims s_c1 s_r1) None)))) = true /\
  (* signed by client_2's key in client_1's name *)
  refused (outcome_of (authz_parse (ex_cfg false RAbsent) [] (init 0) ex_by_value
                                   (Some (wgen s_rs256 (ex_claims s_c1 s_r1) 3)))) = true /\
  (* genuinely client_1's, but naming client_2 inside *)
  refused (outcome_of (authz_parse (ex_cfg false RAbsent) [] (init 0) ex_by_value
                                   (Some (wgen s_rs256 (ex_claims s_c2 s_r2) 0)))) = true /\
  (* pushed at 0 with ttl 10, presented at 11 *)
  List.map (fun x => (took_effect (fst x), refused (fst x)))
    (authz_results (run (ex_cfg false RAbsent) [] (init 0)
       [OPush s_c1 ex_by_value (Some (wgen s_hs256 (ex_claims s_c1 s_r1) 2)) ex_urn; OTick 11;
        OAuthz (ex_by_uri ex_urn) None]))
  = [(false, true)].
Proof. vm_compute. repeat split; reflexivity. Qed.

(* pushed once under ex_urn_a: every other spelling is refused and redeems nothing, before and after the one
   redemption through the issued string; the hypotheses of C16_par_one_push_one_redemption hold of this history *)
Example C16_spellings :
  let ops := OPush s_c1 ex_by_value (Some (wgen s_hs256 (ex_claims s_c1 s_r1) 2)) ex_urn_a
             :: (List.map (fun s => OAuthz (ex_by_uri s) None) ex_spellings
                 ++ [OAuthz (ex_by_uri ex_urn_a) None]
                 ++ List.map (fun s => OAuthz (ex_by_uri s) None) ex_spellings)%list in
  List.map (fun x => (took_effect (fst x), refused (fst x), snd x)) (authz_results (run (ex_cfg true RAbsent) [] (init 0) ops))
  = (List.repeat (false, true, None) 9 ++ [(true, false, Some ex_urn_a)] ++ List.repeat (false, true, None) 9)%list
  /\ redeemed (run (ex_cfg true RAbsent) [] (init 0) ops) = [ex_urn_a]
  /\ pushed_urns (List.tl ops) = [].
Proof. vm_compute. repeat split; reflexivity. Qed.

(* wrapped objects: the genuine JWS inside a JWE is accepted and overrides (by value; pushed and redeemed), with and
   without RequestParam among the methods, with and without cty; JSON claims nobody signed are accepted where "none"
   is the registered algorithm *)
Example C16_wrapped_accepts :
  let gen := wgen s_rs256 (ex_claims s_c1 s_r1) 0 in
  took_effect (outcome_of (authz_parse (ex_cfg false (RStr s_rs256)) [] (init 0) ex_by_value (Some (wenc ex_hdr gen)))) = true /\
  took_effect (outcome_of (authz_parse (ex_cfg true (RStr s_rs256)) [] (init 0) ex_by_value
                                       (Some (wenc (jhdr s_ecdh_es s_a128gcm true JOpens) gen)))) = true /\
  took_effect (outcome_of (authz_parse (ex_cfg_m false (RStr s_rs256) [MPublic]) [] (init 0) ex_by_value
                                       (Some (wenc ex_hdr gen)))) = true /\
  took_effect (outcome_of (authz_parse (ex_cfg false (RStr s_none)) [] (init 0) ex_by_value
                                       (Some (wencj ex_hdr (ex_claims s_c1 s_r1))))) = true /\
  List.map (fun x => (took_effect (fst x), refused (fst x), snd x))
    (authz_results (run (ex_cfg true (RStr s_rs256)) [] (init 0)
       [OPush s_c1 ex_by_value (Some (wenc ex_hdr gen)) ex_urn; OAuthz (ex_by_uri ex_urn) None]))
  = [(true, false, Some ex_urn)] /\
  opens_on_claims (wenc (jhdr s_ecdh_es s_a128gcm true JOpens) gen) /\
  opens_on_claims (wencj ex_hdr (ex_claims s_c1 s_r1)).
Proof. vm_compute. repeat split; reflexivity. Qed.

(* ... and refused: claims nobody signed / an alg=none JWS inside the wrapper although RS256 is registered (by value,
   pushed, with and without RequestParam), another client's signature, a tampered JWS, a wrapper that does not open,
   a wrapped document behind a request_uri *)
Example C16_wrapped_refuses :
  let gen := wgen s_rs256 (ex_claims s_c1 s_r1) 0 in
  let g := ex_cfg false (RStr s_rs256) in
  List.map (fun w => refused (outcome_of (authz_parse g [] (init 0) ex_by_value (Some w))))
    [wencj ex_hdr (ex_claims s_c1 s_r1);
     wencj (jhdr s_rsa_oaep s_a256gcm true JOpens) (ex_claims s_c1 s_r1);
     wenc ex_hdr (WObj s_none (ex_claims s_c1 s_r1) None);
     wenc ex_hdr (wgen s_rs256 (ex_claims s_c1 s_r1) 3);
     wenc ex_hdr (wsig s_rs256 (ex_claims s_c2 s_r2) 0 s_rs256 (ex_claims s_c1 s_r1));
     wenc (jhdr s_rsa_oaep s_a256gcm false JNoKey) gen;
     wenc (jhdr s_rsa_oaep s_a256gcm false JDamaged) gen;
     WEnc ex_hdr IOther]
  = List.repeat true 8 /\
  refused (outcome_of (authz_parse (ex_cfg_m true (RStr s_rs256) [MPublic]) [] (init 0) ex_by_value
                                   (Some (wencj ex_hdr (ex_claims s_c1 s_r1))))) = true /\
  (* pushed: refused at the PAR endpoint, nothing is stored *)
  (match step g [] (init 0) (OPush s_c1 ex_by_value (Some (wencj ex_hdr (ex_claims s_c1 s_r1))) ex_urn) with
   | (st, RPush o PNone) => refused o && Nat.eqb (List.length (par_db st)) 0
   | _ => false
   end) = true /\
  (* behind a request_uri *)
  refused (outcome_of (authz_parse (ex_cfg true RAbsent) [(s_doc0, wenc ex_hdr (wgen s_es256 (ex_claims s_c1 s_r1) 1))] (init 0)
                                   (ex_by_uri s_doc0) None)) = true.
Proof. vm_compute. repeat split; reflexivity. Qed.

(* client_d registers ES384 at a provider that advertises it (and owns no P-384 key itself): ES384 is registered, only
   the ES384 object takes effect; at a provider that does not advertise ES384 nothing is registered and the provider's
   set applies (RS256 and HS256 objects take effect, ES384 and unsigned ones do not); a client that does not say gets
   the provider's set *)
Example C16_registration_examples :
  ex_after_registration [s_rs256; s_es256; s_es384; s_hs256] (Some s_es384) = Some (RStr s_es384, [true; false; false; false]) /\
  ex_after_registration [s_rs256; s_es256; s_hs256] (Some s_es384) = Some (RAbsent, [false; true; true; false]) /\
  ex_after_registration [s_rs256; s_es256; s_es384; s_hs256] None = Some (RAbsent, [true; true; true; false]) /\
  ex_after_registration [s_rs256; s_none] (Some s_none) = Some (RStr s_none, [false; false; false; true]) /\
  cfg_wf (ex_cfg_r [s_rs256]) = true /\
  register (ex_cfg_r [s_rs256]) {| rq_alg := Some s_rs256; rq_ok := false; rq_rest := ex_client s_cd s_rd RAbsent |} = RegRefused.
Proof. vm_compute. repeat split; reflexivity. Qed.

(* --- round 11 --- *)
(* ---------------------------------------------------------------- registration HISTORIES under one client id
   (Model/JarReg.v).  `reregister g s` = one registration under an id that may be in use already
   (Registration.client_registration_setup: the record of the id is replaced, the key jar entry of the id is deleted and
   re-filled with the keys THIS request brings - none, when it has neither jwks nor jwks_uri - plus the secret just
   issued; a refused registration leaves both as they were).  `after g h` = the provider after the history h,
   `latest h cid` = the registration in force for cid: the last accepted one under that id.  rs_mat s = the key numbers
   registration s brings, material = those plus the number of the secret issued for it. *)
From Verif Require Import Model.JarReg.
From Verif Require Import Proofs.JarReg_proofs.

(* the key jar entry and the record of an id are those of the registration in force, whatever came before *)
Theorem C16_history_key_jar : forall h g cid,
  assoc cid (jar (after g h)) =
  match latest h cid with Some s => Some (material (rs_mat s)) | None => assoc cid (jar g) end.
Proof. exact history_jar. Qed.
Print Assumptions C16_history_key_jar.

Theorem C16_history_record : forall h g cid,
  find_client (clients (after g h)) cid =
  match latest h cid with
  | Some s => Some (with_reg (rq_rest (rs_rq s)) (negotiate g (rq_alg (rs_rq s))))
  | None => find_client (clients g) cid
  end.
Proof. exact history_client. Qed.
Print Assumptions C16_history_record.

(* C16_history_latest_material - after ANY registration history, over every later sequence of authorization / PAR
   operations and all three transports: an object whose parameters take effect for cid verified under material of the
   latest accepted registration under cid (or a symmetric key of the provider itself) *)
Theorem C16_history_latest_material : forall g h d t0 ops cid s, cfg_wf g = true -> latest h cid = Some s ->
  Forall (fun sr => forall r via v n, snd sr = RAuthz (Acc r) via -> r_vr r = Some v ->
            assoc k_client_id (r_params r) = Some (PS_ cid) -> v_key v = Some n ->
            exists kt, alg_kind (v_alg v) = AlgK kt /\
                       (In (kt, n) (material (rs_mat s)) \/ (kt = KOct /\ In n (own_keys (jar g) KOct))))
         (run (after g h) d (init t0) ops).
Proof. exact history_latest_material. Qed.
Print Assumptions C16_history_latest_material.

(* C16_history_superseded_refused - material the registration in force does not bring (the replaced secret, keys of a
   replaced jwks / jwks_uri document, keys a later jwks no longer lists) never makes an object take effect for cid *)
Theorem C16_history_superseded_refused : forall g h d t0 ops cid s n, cfg_wf g = true -> latest h cid = Some s ->
  ~ In n (List.map snd (material (rs_mat s))) -> ~ In n (own_keys (jar g) KOct) ->
  Forall (fun sr => forall r via v, snd sr = RAuthz (Acc r) via -> r_vr r = Some v ->
            assoc k_client_id (r_params r) = Some (PS_ cid) -> v_key v <> Some n)
         (run (after g h) d (init t0) ops).
Proof. exact history_superseded_refused. Qed.
Print Assumptions C16_history_superseded_refused.

(* the permitted algorithm is the one of the registration in force as well *)
Theorem C16_history_alg_in_force : forall g h d t0 ops cid s, cfg_wf g = true -> latest h cid = Some s ->
  Forall (fun sr => forall r via v, snd sr = RAuthz (Acc r) via -> r_vr r = Some v ->
            assoc k_client_id (r_params r) = Some (PS_ cid) ->
            match negotiate g (rq_alg (rs_rq s)) with
            | RStr a => v_alg v = a
            | RAbsent => In (v_alg v) (prov_algs g)
            | RList l => In (v_alg v) l
            end)
         (run (after g h) d (init t0) ops).
Proof. exact history_alg_in_force. Qed.
Print Assumptions C16_history_alg_in_force.

(* the provider's own keys and the guard of the theorems above are untouched by any history *)
Theorem C16_history_own_keys : forall h g k, own_keys (jar (after g h)) k = own_keys (jar g) k.
Proof. exact history_own_keys. Qed.
Print Assumptions C16_history_own_keys.

Theorem C16_history_wf : forall h g, cfg_wf g = true -> cfg_wf (after g h) = true.
Proof. exact history_wf. Qed.
Print Assumptions C16_history_wf.

(* non-vacuity: ex_hist = register {RSA 12, EC 13} (secret 14, asks RS256); again without key material (secret 20);
   a refused registration bringing RSA 24; again with RSA 18 (secret 26).  After each prefix only the material of the
   registration in force makes an object take effect; what was replaced is refused, what a refused registration
   brought never counts, and the RS256 the first registration asked for is gone with its record *)
Example C16_history_examples :
  let g0 := ex_cfg true RAbsent in
  let eff h := List.map (fun ak => ex_effect (after g0 (firstn h ex_hist)) (fst ak) (snd ak))
                 [(s_rs256, 12%nat); (s_es256, 13%nat); (s_hs256, 14%nat); (s_hs256, 20%nat); (s_rs256, 24%nat);
                  (s_rs256, 18%nat); (s_hs256, 26%nat)] in
  cfg_wf g0 = true /\
  eff 0%nat = [false; false; false; false; false; false; false] /\
  eff 1%nat = [true; false; false; false; false; false; false] /\
  eff 2%nat = [false; false; false; true; false; false; false] /\
  eff 3%nat = [false; false; false; true; false; false; false] /\
  eff 4%nat = [false; false; false; false; false; true; true] /\
  List.map (fun s => m_secret (rs_mat s)) (match latest ex_hist s_cd with Some s => [s] | None => [] end) = [26%nat] /\
  assoc s_cd (jar (after g0 ex_hist)) = Some [(KRsa, 18%nat); (KOct, 26%nat)].
Proof. vm_compute. repeat split; reflexivity. Qed.
(* --- end round 11 --- *)
