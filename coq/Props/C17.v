(* Props/C17.v — property C17: cookies issued by the provider are tamper-evident and round-trip exactly.
   Only statements, each closed by `exact <lemma>`, with Print Assumptions.

   Modes: signed (sign_key), signed+encrypted (sign_key, enc_key), encrypted (enc_key), encrypter (Fernet).
   btxt (the text of a cryptographic blob) is arbitrary in every theorem.  Guards:
     nonempty_content v typ   value and type not both empty (then make_cookie_content emits the empty
                              deletion cookie, by design);
     typ_ok typ               the type contains no "::" and does not start with ':' (parse_cookie splits at
                              the LAST "::"; the value is unrestricted: '|', ':', "::" all allowed);
     no_c bar (timestamp)     the clear-text timestamp contains no '|';
     no_c bar r               the base64 text of the AES-GCM iv contains no '|' (true of base64);
     last_is space typ = false   encrypter mode only: the Fernet wrapper strips trailing spaces. *)
From Coq Require Import String.
From Verif Require Import Lib.Base Lib.PyStr Lib.Crypto Model.Lv Proofs.Lv_proofs Model.Cookie Proofs.Cookie_proofs.
Open Scope string_scope.
Open Scope N_scope.

(* ---------------------------------------------------------------- round trips *)
Theorem C17_roundtrip_signed : forall btxt k v typ ts now r,
  nonempty_content v typ = true -> typ_ok typ = true -> no_c bar (eff_ts ts now) = true ->
  let h := mk_handler (Some k) None None in
  parse_cookie btxt h (make_cookie h v typ ts now r) = Ok (v, typ, eff_ts ts now).
Proof. exact roundtrip_signed. Qed.
Print Assumptions C17_roundtrip_signed.

Theorem C17_roundtrip_signed_encrypted : forall btxt ks ke v typ ts now r,
  nonempty_content v typ = true -> typ_ok typ = true -> no_c bar (eff_ts ts now) = true -> no_c bar r = true ->
  let h := mk_handler (Some ks) (Some ke) None in
  parse_cookie btxt h (make_cookie h v typ ts now r) = Ok (v, typ, eff_ts ts now).
Proof. exact roundtrip_signed_encrypted. Qed.
Print Assumptions C17_roundtrip_signed_encrypted.

Theorem C17_roundtrip_encrypted : forall btxt ke v typ ts now r,
  nonempty_content v typ = true -> typ_ok typ = true -> no_c bar (eff_ts ts now) = true -> no_c bar r = true ->
  let h := mk_handler None (Some ke) None in
  parse_cookie btxt h (make_cookie h v typ ts now r) = Ok (v, typ, eff_ts ts now).
Proof. exact roundtrip_encrypted. Qed.
Print Assumptions C17_roundtrip_encrypted.

Theorem C17_roundtrip_encrypter : forall btxt kc v typ ts now r,
  nonempty_content v typ = true -> typ_ok typ = true -> no_c bar (eff_ts ts now) = true ->
  last_is space typ = false ->
  let h := mk_handler None None (Some kc) in
  parse_cookie btxt h (make_cookie h v typ ts now r) = Ok (v, typ, eff_ts ts now).
Proof. exact roundtrip_encrypter. Qed.
Print Assumptions C17_roundtrip_encrypter.

(* Full statement (no guard on the type) is false of the faithful model — and of the code:
     Theorem C17_roundtrip_full : forall h v typ ts, parse (make h v typ ts) = Ok (v, typ, ts).
   Witnesses that each guard is necessary (replayed on the real CookieHandler by the driver): *)
Definition nob : term -> pystr := fun _ => [].
Definition hS := mk_handler (Some 1%nat) None None.
Definition hSE := mk_handler (Some 1%nat) (Some 2%nat) None.
Definition hC := mk_handler None None (Some 3%nat).

(* a type that starts with ':' moves a colon into the value *)
Example C17_roundtrip_refuted_type_colon :
  parse_cookie nob hS (make_cookie hS (PS "a") (PS ":b") (PS "17") 0 (PS "iv")) = Ok (PS "a:", PS "b", PS "17")
  /\ parse_cookie nob hSE (make_cookie hSE (PS "a") (PS ":b") (PS "17") 0 (PS "iv")) = Ok (PS "a:", PS "b", PS "17")
  /\ parse_cookie nob hC (make_cookie hC (PS "a") (PS ":b") (PS "17") 0 (PS "iv")) = Ok (PS "a:", PS "b", PS "17").
Proof. repeat split; vm_compute; reflexivity. Qed.
(* a type that contains "::" is cut at its last "::" *)
Example C17_roundtrip_refuted_type_dcolon :
  parse_cookie nob hS (make_cookie hS (PS "a") (PS "x::y") (PS "17") 0 (PS "iv")) = Ok (PS "a::x", PS "y", PS "17").
Proof. vm_compute. reflexivity. Qed.
(* a '|' in the clear-text timestamp *)
Example C17_roundtrip_refuted_timestamp_bar :
  is_ok (parse_cookie nob hS (make_cookie hS (PS "a") (PS "b") (PS "1|7") 0 (PS "iv"))) = false
  /\ is_ok (parse_cookie nob hSE (make_cookie hSE (PS "a") (PS "b") (PS "1|7") 0 (PS "iv"))) = false
  /\ is_ok (parse_cookie nob hC (make_cookie hC (PS "a") (PS "b") (PS "1|7") 0 (PS "iv"))) = false.
Proof. repeat split; vm_compute; reflexivity. Qed.
(* encrypter mode: trailing spaces of the type are lost *)
Example C17_roundtrip_refuted_encrypter_space :
  parse_cookie nob hC (make_cookie hC (PS "a") (PS "b ") (PS "17") 0 (PS "iv")) = Ok (PS "a", PS "b", PS "17").
Proof. vm_compute. reflexivity. Qed.
(* empty value and type: the deletion cookie parses to nothing *)
Example C17_roundtrip_refuted_empty :
  make_cookie hS [] [] (PS "17") 0 (PS "iv") = [] /\ is_ok (parse_cookie nob hS []) = false.
Proof. split; vm_compute; reflexivity. Qed.

(* non-vacuity of the round trips: separators inside the VALUE are fine in every mode *)
Example C17_roundtrip_nonvacuous :
  parse_cookie nob hS (make_cookie hS (PS "{""state"": ""a|b::c:""}|") (PS "sso") [] 1700000000 (PS "iv"))
    = Ok (PS "{""state"": ""a|b::c:""}|", PS "sso", PS "1700000000")
  /\ parse_cookie nob hSE (make_cookie hSE (PS "a|b::c:") [] (PS "17") 0 (PS "aXY=")) = Ok (PS "a|b::c:", [], PS "17")
  /\ parse_cookie nob hC (make_cookie hC (PS "a|b::c: ") [] (PS "17") 0 (PS "tok")) = Ok (PS "a|b::c: ", [], PS "17").
Proof. repeat split; vm_compute; reflexivity. Qed.

(* ... and so is content a decoding layer would rewrite (percent escapes of '/', ' ', '|', '%', "::", plus signs,
   entities, octal escapes) in value and type: the theorems above quantify over all strings, no character is
   special to the format except '|' in the timestamp and "::" / a leading ':' in the type *)
Example C17_roundtrip_nonvacuous_escapes :
  let v := PS "{""return_to"": ""https://rp.example.org/cb?next=%2Fhome&x=a%20b+c"", ""note"": ""100%7Csure|15%25::%3A%3A&#124;\174""}" in
  let t := PS "s%20so+%7C" in
  nonempty_content v t = true /\ typ_ok t = true /\ last_is space t = false
  /\ parse_cookie nob hS (make_cookie hS v t (PS "17") 0 (PS "iv")) = Ok (v, t, PS "17")
  /\ parse_cookie nob hSE (make_cookie hSE v t (PS "17") 0 (PS "aXY=")) = Ok (v, t, PS "17")
  /\ parse_cookie nob (mk_handler None (Some 2%nat) None) (make_cookie (mk_handler None (Some 2%nat) None) v t (PS "17") 0 (PS "aXY=")) = Ok (v, t, PS "17")
  /\ parse_cookie nob hC (make_cookie hC v t (PS "17") 0 (PS "tok")) = Ok (v, t, PS "17").
Proof. repeat split; vm_compute; reflexivity. Qed.

(* ---------------------------------------------------------------- tamper evidence
   G: the cookies the provider issued.  knowledge h G: the cryptographic values inside them plus every key
   that is not one of the handler's.  wire_derivable K w: w consists of arbitrary characters and of blobs
   the adversary can deduce from K (Dolev-Yao: pairing, projection, encryption/decryption and MACs with
   known keys).  Every such cookie value that parses carries the payload and timestamp of a genuine
   cookie — whatever re-ordering, re-splitting, truncation or substitution of parts produced it. *)
Theorem C17_tamper_evident_signed : forall btxt G ks w v typ ts,
  let h := mk_handler (Some ks) None None in
  wire_derivable (knowledge h G) w -> parse_cookie btxt h w = Ok (v, typ, ts) ->
  exists g, In g G /\ rsplit1 colon (g_payload g) = Some (v, typ) /\ g_ts g = ts.
Proof. exact tamper_signed. Qed.
Print Assumptions C17_tamper_evident_signed.

Theorem C17_tamper_evident_signed_encrypted : forall btxt G ks ke w v typ ts,
  let h := mk_handler (Some ks) (Some ke) None in
  wire_derivable (knowledge h G) w -> parse_cookie btxt h w = Ok (v, typ, ts) ->
  exists g, In g G /\ rsplit1 colon (g_payload g) = Some (v, typ) /\ g_ts g = ts.
Proof. exact tamper_signed_encrypted. Qed.
Print Assumptions C17_tamper_evident_signed_encrypted.

Theorem C17_tamper_evident_encrypted : forall btxt G ke w v typ ts,
  let h := mk_handler None (Some ke) None in
  wire_derivable (knowledge h G) w -> parse_cookie btxt h w = Ok (v, typ, ts) ->
  exists g, In g G /\ rsplit1 colon (g_payload g) = Some (v, typ) /\ g_ts g = ts.
Proof. exact tamper_encrypted. Qed.
Print Assumptions C17_tamper_evident_encrypted.

Theorem C17_tamper_evident_encrypter : forall btxt G kc,
  (forall g, In g G -> last_is space (g_typ g) = false) ->
  forall w v typ ts,
  let h := mk_handler None None (Some kc) in
  wire_derivable (knowledge h G) w -> parse_cookie btxt h w = Ok (v, typ, ts) ->
  exists g, In g G /\ rsplit1 colon (g_payload g) = Some (v, typ) /\ g_ts g = ts.
Proof. exact tamper_encrypter. Qed.
Print Assumptions C17_tamper_evident_encrypter.

(* with genuine types inside the round-trip guard, "the payload of a genuine cookie" is exactly its content *)
Theorem C17_genuine_content : forall G v typ ts,
  (forall g, In g G -> typ_ok (g_typ g) = true) ->
  (exists g, In g G /\ rsplit1 colon (g_payload g) = Some (v, typ) /\ g_ts g = ts) ->
  exists g, In g G /\ g_value g = v /\ g_typ g = typ /\ g_ts g = ts.
Proof. exact genuine_content. Qed.
Print Assumptions C17_genuine_content.

(* non-vacuity: the hypotheses are met by an accepting run (a genuine cookie is derivable and parses), and the
   classic boundary shift of the pre-fix format is rejected by the model *)
Definition g0 := mk_gen (PS "value") (PS "sso") (PS "1700000000") (PS "iv").
Example C17_tamper_nonvacuous :
  wire_derivable (knowledge hS [g0]) (g_wire hS g0)
  /\ parse_cookie nob hS (g_wire hS g0) = Ok (PS "value", PS "sso", PS "1700000000")
  /\ is_ok (parse_cookie nob hS (chs (PS "700000000|value::sso1|") ++ [Bl (mac_of 1 (PS "value::sso") (PS "1700000000"))])) = false.
Proof.
  split; [|split; vm_compute; reflexivity].
  intros t Ht. apply d_init. left. exists g0. split; [now left|].
  unfold g_wire, sign_enc_payload in *. cbn in *.
  repeat match goal with H : _ \/ _ |- _ => destruct H as [H|H]; try discriminate H end; try contradiction.
  inversion Ht. now left.
Qed.

(* ---------------------------------------------------------------- several cookies in one parse_cookie call
   parse_cookies btxt declen h name cs models CookieHandler.parse_cookie(name, cookies) for a LIST of cookie dicts
   (option name, value).  contribution btxt h name c = [e] if c carries the requested name and parse_cookie
   accepts c's value ALONE with content e, [] otherwise.  So: every returned entry is the content of the
   cookie standing at its position, forged cookies contribute nothing, and nothing a cookie's verification
   leaves behind reaches the next one — for every mixture and every order of genuine and forged cookies. *)
Theorem C17_list_compositional : forall btxt declen h name cs out,
  parse_cookies btxt declen h name cs = Ok (Some out) -> out = flat_map (contribution btxt h name) cs.
Proof. exact list_compositional. Qed.
Print Assumptions C17_list_compositional.

(* the call raises only if a cookie of the requested name raises on its own (then nothing is returned at all) *)
Theorem C17_list_raises : forall btxt declen h name cs e,
  parse_cookies btxt declen h name cs = Err e ->
  exists c, In c cs /\ name_is name c = true /\ parse_turn btxt declen h (snd c) = Err e.
Proof. exact list_raises. Qed.
Print Assumptions C17_list_raises.

(* ... and otherwise returns exactly the contributions *)
Theorem C17_list_total : forall btxt declen h name cs,
  cs <> [] ->
  (forall c, In c cs -> name_is name c = true -> exists x, parse_turn btxt declen h (snd c) = Ok x) ->
  parse_cookies btxt declen h name cs = Ok (Some (flat_map (contribution btxt h name) cs)).
Proof. exact list_total. Qed.
Print Assumptions C17_list_total.

(* re-ordering the cookies re-orders the entries and does nothing else *)
Theorem C17_list_order : forall btxt declen h name cs cs' out,
  Permutation.Permutation cs cs' -> parse_cookies btxt declen h name cs = Ok (Some out) ->
  exists out', parse_cookies btxt declen h name cs' = Ok (Some out') /\ Permutation.Permutation out out'.
Proof. exact list_order. Qed.
Print Assumptions C17_list_order.

(* round trip of a whole cookie jar: cookies that parse back alone (C17_roundtrip_<mode>) come back together,
   in order, each with its own content *)
Theorem C17_list_roundtrip : forall btxt declen h name (gs : list (wire * content)),
  gs <> [] -> (forall g, In g gs -> parse_cookie btxt h (fst g) = Ok (snd g)) ->
  parse_cookies btxt declen h name (List.map (fun g => (Some name, fst g)) gs) = Ok (Some (List.map snd gs)).
Proof. exact list_roundtrip. Qed.
Print Assumptions C17_list_roundtrip.

(* tamper evidence for the list: whatever cookie values the adversary assembles and in whatever order it
   presents them, every returned entry carries the content of a cookie the provider issued *)
Theorem C17_list_tamper_evident_signed : forall btxt declen G ks name cs out,
  let h := mk_handler (Some ks) None None in
  (forall c, In c cs -> wire_derivable (knowledge h G) (snd c)) ->
  parse_cookies btxt declen h name cs = Ok (Some out) -> Forall (genuine_entry G) out.
Proof. exact list_tamper_signed. Qed.
Print Assumptions C17_list_tamper_evident_signed.

Theorem C17_list_tamper_evident_signed_encrypted : forall btxt declen G ks ke name cs out,
  let h := mk_handler (Some ks) (Some ke) None in
  (forall c, In c cs -> wire_derivable (knowledge h G) (snd c)) ->
  parse_cookies btxt declen h name cs = Ok (Some out) -> Forall (genuine_entry G) out.
Proof. exact list_tamper_signed_encrypted. Qed.
Print Assumptions C17_list_tamper_evident_signed_encrypted.

Theorem C17_list_tamper_evident_encrypted : forall btxt declen G ke name cs out,
  let h := mk_handler None (Some ke) None in
  (forall c, In c cs -> wire_derivable (knowledge h G) (snd c)) ->
  parse_cookies btxt declen h name cs = Ok (Some out) -> Forall (genuine_entry G) out.
Proof. exact list_tamper_encrypted. Qed.
Print Assumptions C17_list_tamper_evident_encrypted.

Theorem C17_list_tamper_evident_encrypter : forall btxt declen G kc name cs out,
  (forall g, In g G -> last_is space (g_typ g) = false) ->
  let h := mk_handler None None (Some kc) in
  (forall c, In c cs -> wire_derivable (knowledge h G) (snd c)) ->
  parse_cookies btxt declen h name cs = Ok (Some out) -> Forall (genuine_entry G) out.
Proof. exact list_tamper_encrypter. Qed.
Print Assumptions C17_list_tamper_evident_encrypter.

(* non-vacuity: a jar with two genuine cookies, a forged one between / before / after them, a cookie of another
   name and a dict without a name.  Signed-only: a wrong MAC raises -> the whole call is refused in every order.
   Signed+encrypted: a wrong tag is dropped -> exactly the two genuine contents, in the order presented. *)
Definition dl (s : pystr) : option nat := if str_eqb s (PS "aXY=") then Some 12%nat else None.
Example C17_list_nonvacuous :
  let n := PS "oidc_op" in
  let a := make_cookie hS (PS "alice") (PS "sso") (PS "17") 0 (PS "iv") in
  let b := make_cookie hS (PS "bob") [] (PS "18") 0 (PS "iv") in
  let f := (chs (PS "18|mallory::sso|") ++ [Bl (mac_of 1 (PS "bob::") (PS "18"))])%list in
  let ca := (PS "alice", PS "sso", PS "17") in let cb := (PS "bob", @nil N, PS "18") in
  parse_cookies nob dl hS n [(Some n, a); (Some (PS "other"), f); (None, f); (Some n, b)] = Ok (Some [ca; cb])
  /\ parse_cookies nob dl hS n [(Some n, b); (Some n, a)] = Ok (Some [cb; ca])
  /\ is_ok (parse_cookies nob dl hS n [(Some n, a); (Some n, f)]) = false
  /\ is_ok (parse_cookies nob dl hS n [(Some n, f); (Some n, a)]) = false
  /\ is_ok (parse_cookies nob dl hS n [(Some n, a); (Some n, f); (Some n, b)]) = false
  /\ parse_cookies nob dl hS n [] = Ok None
  /\ parse_cookies nob dl hS n [(Some (PS "other"), a)] = Ok (Some []).
Proof. repeat split; vm_compute; reflexivity. Qed.

Example C17_list_nonvacuous_dropped :
  let n := PS "oidc_op" in
  let ct v t ts := AEnc 2 (PS "aXY=") (Pair (Atom (lv_pack [payload_of v t; ts])) (mac_of 1 (payload_of v t) ts)) in
  let a := make_cookie hSE (PS "alice") (PS "sso") (PS "17") 0 (PS "aXY=") in
  let b := make_cookie hSE (PS "bob") [] (PS "18") 0 (PS "aXY=") in
  (* bob's ciphertext under alice's tag *)
  let f := (chs (PS "18|aXY=|") ++ [Bl (ct (PS "bob") [] (PS "18")); Ch bar; Bl (Mac 2 (ct (PS "alice") (PS "sso") (PS "17")))])%list in
  let ca := (PS "alice", PS "sso", PS "17") in let cb := (PS "bob", @nil N, PS "18") in
  parse_cookies nob dl hSE n [(Some n, a); (Some n, f); (Some n, b)] = Ok (Some [ca; cb])
  /\ parse_cookies nob dl hSE n [(Some n, f); (Some n, b); (Some n, a)] = Ok (Some [cb; ca])
  /\ parse_cookies nob dl hSE n [(Some n, b); (Some n, a); (Some n, f); (Some n, f)] = Ok (Some [cb; ca])
  /\ parse_cookies nob dl hSE n [(Some n, f)] = Ok (Some [])
  (* an iv part that is no base64 raises before the tag is looked at: the whole call is refused *)
  /\ is_ok (parse_cookies nob dl hSE n [(Some n, a); (Some n, (chs (PS "18|!|") ++ [Bl (ct (PS "bob") [] (PS "18")); Ch bar; Bl (Mac 2 (ct (PS "bob") [] (PS "18")))])%list)]) = false.
Proof. repeat split; vm_compute; reflexivity. Qed.

(* ---------------------------------------------------------------- idpyoidc.client.cookie (relying-party helper)
   Full statement — accepted => (load, timestamp) of an issued cookie — is FALSE of the faithful model and of
   the code (known finding client-cookie-boundary-shift): the MAC input is load ‖ timestamp without framing.
     Theorem C17_client_tamper_evident : ... client_parse btxt k w = Ok (load, ts) -> In (load, ts) G.      *)
Theorem C17_client_roundtrip : forall btxt k load ts,
  no_c bar load = true -> no_c bar ts = true -> client_parse btxt k (client_make k load ts) = Ok (load, ts).
Proof. exact client_roundtrip. Qed.
Print Assumptions C17_client_roundtrip.

(* what does hold: the concatenation is authenticated *)
Theorem C17_client_tamper_partial : forall btxt k (G : list (pystr * pystr)) w load ts,
  wire_derivable (fun t => (exists g, In g G /\ t = client_mac k (fst g) (snd g)) \/ (exists k', t = Key k' /\ k' <> k)) w ->
  client_parse btxt k w = Ok (load, ts) ->
  exists g, In g G /\ (fst g ++ snd g)%list = (load ++ ts)%list.
Proof. exact client_tamper_partial. Qed.
Print Assumptions C17_client_tamper_partial.

(* the witness replayed on the real code on every run: the only blob of the forged cookie is the genuine MAC *)
Example C17_client_tamper_refuted :
  let genuine := client_make 1 (PS "value::sso") (PS "1700000000") in
  let forged := (chs (PS "value::sso1|700000000|") ++ [Bl (client_mac 1 (PS "value::sso") (PS "1700000000"))])%list in
  client_parse nob 1 genuine = Ok (PS "value::sso", PS "1700000000")
  /\ blobs forged = blobs genuine
  /\ client_parse nob 1 forged = Ok (PS "value::sso1", PS "700000000").
Proof. repeat split; vm_compute; reflexivity. Qed.

(* ---------------------------------------------------------------- whose keys: cookies of ANOTHER handler
   "Any cookie string not produced with this provider's keys is rejected": the theorems above give the adversary
   every key that is not one of the handler's.  Hence the cookies of a second handler (another provider / tenant in
   the same process, the same provider rebuilt without its key file) are refused, in every mode on both sides,
   as soon as the two handlers share no key ... *)
Theorem C17_foreign_keys_refused : forall btxt h1 h2 g,
  four_modes h2 -> keys_disjoint h1 h2 -> is_ok (parse_cookie btxt h2 (g_wire h1 g)) = false.
Proof. exact foreign_refused. Qed.
Print Assumptions C17_foreign_keys_refused.

(* ... and they are no help in forging either: parts of any number of foreign cookies F mixed with parts of the
   handler's own cookies G2 and with anything computable from keys it does not own *)
Theorem C17_foreign_cookies_no_help : forall btxt h2 G2 F w v typ ts,
  four_modes h2 -> (forall g, In g G2 -> last_is space (g_typ g) = false) ->
  (forall f, In f F -> keys_disjoint (fst f) h2) ->
  wire_derivable (with_foreign h2 G2 F) w -> parse_cookie btxt h2 w = Ok (v, typ, ts) ->
  exists g, In g G2 /\ rsplit1 colon (g_payload g) = Some (v, typ) /\ g_ts g = ts.
Proof. exact foreign_mix. Qed.
Print Assumptions C17_foreign_cookies_no_help.

(* Key SOURCES.  hspec says for each key slot whether the deployment gave the key (KGiven k) or the library
   generates it (KGen: keys/key_defs without a key file, default_crypt_config(), init_encrypter's fallbacks).
   construct sup s n builds the handler when n draws have been made from the process's random source (sup d = the
   key material of draw d) and returns the number of draws made afterwards.  The FRESHNESS ASSUMPTION is stated as
   the hypothesis `draws_distinct sup` (two different draws never yield the same key material); that the real
   library draws anew for every handler it builds — which is what makes this hypothesis about the code — is
   checked on every run by the driver (chk_fresh: the key material of independently built real handlers shows
   exactly the equalities of build_all under a supply of distinct draws).
   Two handlers with generated keys, the second built after the first with anything drawing in between: *)
Theorem C17_generated_keys_fresh : forall sup s1 s2 n n2,
  draws_distinct sup -> all_gen s1 -> all_gen s2 -> (snd (construct sup s1 n) <= n2)%nat ->
  let h1 := fst (construct sup s1 n) in let h2 := fst (construct sup s2 n2) in
  keys_disjoint h1 h2 /\ keys_disjoint h2 h1.
Proof. exact generated_disjoint. Qed.
Print Assumptions C17_generated_keys_fresh.

Theorem C17_independent_handlers_refuse : forall btxt sup s1 s2 n n2 g,
  draws_distinct sup -> all_gen s1 -> all_gen s2 -> (snd (construct sup s1 n) <= n2)%nat ->
  let h1 := fst (construct sup s1 n) in let h2 := fst (construct sup s2 n2) in
  (four_modes h2 -> is_ok (parse_cookie btxt h2 (g_wire h1 g)) = false) /\
  (four_modes h1 -> is_ok (parse_cookie btxt h1 (g_wire h2 g)) = false).
Proof. exact independent_refuse. Qed.
Print Assumptions C17_independent_handlers_refuse.

(* the same for any two handlers of a process history (what the driver's correspondence evaluates) *)
Theorem C17_history_independent : forall sup pre s1 mid s2 post n,
  draws_distinct sup -> all_gen s1 -> all_gen s2 ->
  let n1 := next pre n in
  let n2 := next mid (n1 + ndraws s1) in
  let h1 := fst (construct sup s1 n1) in
  let h2 := fst (construct sup s2 n2) in
  build_all sup (pre ++ BHandler s1 :: mid ++ BHandler s2 :: post) n
    = (build_all sup pre n ++ h1 :: build_all sup mid (n1 + ndraws s1) ++ h2 :: build_all sup post (n2 + ndraws s2))%list
  /\ keys_disjoint h1 h2 /\ keys_disjoint h2 h1.
Proof. exact history_independent. Qed.
Print Assumptions C17_history_independent.

(* positive control: handlers given the same keys are the same handler whenever they are built (so the round-trip
   theorems apply across them: a provider restarted WITH its key file keeps accepting its cookies) *)
Theorem C17_given_keys_shared : forall sup s n n',
  all_given s -> fst (construct sup s n) = fst (construct sup s n').
Proof. exact given_same. Qed.
Print Assumptions C17_given_keys_shared.

(* non-vacuity: a history with two encrypter handlers (generated keys), something else drawing in between, a
   key_defs handler (two generated keys) and two handlers given key 5; sup0 is a supply of distinct draws *)
Definition sC := mk_hspec None None (Some KGen).
Definition sSE := mk_hspec (Some KGen) (Some KGen) None.
Definition sG5 := mk_hspec None None (Some (KGiven 5%nat)).
Definition hist0 := [BHandler sC; BOther 3%nat; BHandler sC; BHandler sSE; BHandler sG5; BOther 1%nat; BHandler sG5].
Definition accepts (hs : list handler) (i j : nat) : bool :=
  is_ok (parse_cookie nob (nth j hs no_handler) (make_cookie (nth i hs no_handler) (PS "alice") (PS "sso") (PS "17") 0 (PS "iv"))).
Example C17_history_nonvacuous :
  draws_distinct sup0 /\ all_gen sC /\ all_gen sSE /\ all_given sG5
  /\ List.map hkeys (build_all sup0 hist0 0)
     = [[None; None; Some 1000%nat]; [None; None; Some 1004%nat]; [Some 1005%nat; Some 1006%nat; None];
        [None; None; Some 5%nat]; [None; None; Some 5%nat]]
  /\ List.map (fun i => List.map (accepts (build_all sup0 hist0 0) i) [0; 1; 2; 3; 4]%nat) [0; 1; 2; 3; 4]%nat
     = [[true; false; false; false; false]; [false; true; false; false; false]; [false; false; true; false; false];
        [false; false; false; true; true]; [false; false; false; true; true]].
Proof.
  split; [intros d d' H; unfold sup0; lia|].
  split; [unfold all_gen, is_gen; cbn; repeat split; auto; fail|].
  split; [unfold all_gen, is_gen; cbn; repeat split; auto; fail|].
  split; [unfold all_given, is_given; cbn; repeat split; eauto; fail|].
  split; vm_compute; reflexivity.
Qed.

(* the hypothesis `draws_distinct` is necessary: with a supply that hands out the same key material twice (a key
   generated once per process and reused for every handler) the second handler accepts the first one's cookie *)
Example C17_freshness_hypothesis_necessary :
  let stale := fun _ : nat => 7%nat in
  ~ draws_distinct stale
  /\ List.map (fun i => List.map (accepts (build_all stale [BHandler sC; BOther 3%nat; BHandler sC] 0) i) [0; 1]%nat) [0; 1]%nat
     = [[true; true]; [true; true]].
Proof.
  intro stale. split; [intro H; apply (H 0%nat 1%nat); [discriminate|reflexivity]|vm_compute; reflexivity].
Qed.

(* TIE BY TRANSLATION: util.lv_unpack as it reads in /repo/src NOW (coq/Gen/Src_lv.v, regenerated by harness/py2v.py on
   every run: the `while txt:` loop as recursion on explicit fuel, `l, v = txt.split(":", 1)`, int(l), v[:n], v[n:])
   (CookieHandler._ver_dec_content: the decrypted / signed cookie payload goes through it).
   For every text of at most 4300 characters and every fuel above its length the translated function computes the
   model's lv_unpack - same list, same ValueError, Unmodelled exactly where the model is (a non-ASCII non-blank
   character in a length prefix) - and the loop never runs out of fuel.  The bound is CPython's default limit on the
   digits of an int() literal (run-time configurable, so not modelled: PyOps.py_int_of); beyond it the translation is
   either outside that fragment or again the model (second theorem), and on everything lv_pack wrote - whatever the
   length - it returns the packed list (third theorem; the side condition holds for every string a process can hold). *)
From Verif Require Lib.PyOps Gen.Src_lv Proofs.Src_refine_lv.
Theorem C17_lv_unpack_is_source : forall fuel txt clock,
  (length txt < fuel)%nat -> (length txt <= PyOps.int_max_str_digits)%nat ->
  Src_lv.lv_unpack_src fuel (VStr txt) clock = Src_refine_lv.inj_strs (lv_unpack txt) /\ lv_unpack txt <> Err OutOfFuel.
Proof. exact Src_refine_lv.lv_unpack_refines. Qed.
Print Assumptions C17_lv_unpack_is_source.
Theorem C17_lv_unpack_is_source_any_length : forall fuel txt clock,
  (length txt < fuel)%nat ->
  Src_lv.lv_unpack_src fuel (VStr txt) clock = Unmodelled
  \/ Src_lv.lv_unpack_src fuel (VStr txt) clock = Src_refine_lv.inj_strs (lv_unpack txt).
Proof. exact Src_refine_lv.lv_unpack_refines_partial. Qed.
Print Assumptions C17_lv_unpack_is_source_any_length.
Theorem C17_lv_source_roundtrip : forall l fuel clock,
  (length (lv_pack l) < fuel)%nat ->
  List.Forall (fun a => length (str_of_nat (length a)) <= PyOps.int_max_str_digits)%nat l ->
  Src_lv.lv_unpack_src fuel (VStr (lv_pack l)) clock = Ok (VList (List.map VStr l)) /\ lv_unpack (lv_pack l) = Ok l.
Proof. exact Src_refine_lv.lv_unpack_src_roundtrip. Qed.
Print Assumptions C17_lv_source_roundtrip.
