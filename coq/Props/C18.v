(* Props/C18.v — property C18: subject identifiers follow the client's registered subject type, are stable
   across logins, and (with the built-in hashed functions) do not show the local user identifier.
   Statements only; proofs in Proofs/Sub_proofs.v.  Model/Sub.v is tied to the real provider by
   harness/drv_C18.py (subjects observed in ID Token, userinfo, JWT access token and introspection of real
   flows are compared with the model, the hash being instantiated by hashlib's digests).
   That the four publication sites all read grant.sub (consistency) is decided on the real endpoints by the
   driver's oracle; in the model there is only one value per grant. *)
From Coq Require Import String NArith List Permutation.
From Verif Require Import Lib.Base Lib.PyStr Model.Sub Proofs.Sub_proofs.
From Verif Require Gen.Src_sub Proofs.Src_refine.
Import ListNotations.
Open Scope string_scope.

(* H: SHA-256 hexdigest, idealised as collision free; host_of: urlparse(..).hostname — both environment functions. *)
Theorem C18_stable : forall (H : pystr -> pystr) (host_of : pystr -> pystr) r redirect uid salt n1 n2,
  subtype_of r <> Ephemeral ->
  grant_sub H host_of r redirect uid salt n1 = grant_sub H host_of r redirect uid salt n2.
Proof. exact stable. Qed.
Print Assumptions C18_stable.

Theorem C18_public_equal_across_clients : forall (H : pystr -> pystr) (host_of : pystr -> pystr) r1 r2 rd1 rd2 uid salt n1 n2,
  subtype_of r1 = Public -> subtype_of r2 = Public ->
  grant_sub H host_of r1 rd1 uid salt n1 = grant_sub H host_of r2 rd2 uid salt n2.
Proof. exact public_across_clients. Qed.
Print Assumptions C18_public_equal_across_clients.

Theorem C18_pairwise_iff_same_sector : forall (H : pystr -> pystr) (host_of : pystr -> pystr),
  (forall a b, H a = H b -> a = b) ->
  forall r1 r2 rd1 rd2 uid salt n1 n2,
  subtype_of r1 = Pairwise -> subtype_of r2 = Pairwise ->
  (grant_sub H host_of r1 rd1 uid salt n1 = grant_sub H host_of r2 rd2 uid salt n2
   <-> host_of (sector_source r1 rd1) = host_of (sector_source r2 rd2)).
Proof. exact pairwise_iff_sector. Qed.
Print Assumptions C18_pairwise_iff_same_sector.

Theorem C18_ephemeral_differs_per_grant : forall (H : pystr -> pystr) (host_of : pystr -> pystr) r1 r2 rd1 rd2 uid1 uid2 salt n1 n2,
  subtype_of r1 = Ephemeral -> subtype_of r2 = Ephemeral -> n1 <> n2 ->
  grant_sub H host_of r1 rd1 uid1 salt n1 <> grant_sub H host_of r2 rd2 uid2 salt n2.
Proof. exact ephemeral_distinct. Qed.
Print Assumptions C18_ephemeral_differs_per_grant.

Theorem C18_type_from_registration : forall r,
  subtype_of r = match r_subject_type r with
                 | None | Some [] => Public
                 | Some t => if str_eqb t (PS "public") then Public else if str_eqb t (PS "pairwise") then Pairwise
                             else if str_eqb t (PS "ephemeral") then Ephemeral else UnknownType
                 end.
Proof. exact subtype_from_registration. Qed.
Print Assumptions C18_type_from_registration.

(* OPAQUE (partial: literal containment of a user id made only of hex digits can happen by chance and is not
   excluded by any hash; every user id with at least one non-hex character provably does not occur) *)
Theorem C18_opaque_partial : forall uid bs,
  Forall (fun b => (b < 256)%N) bs -> forallb is_hex uid = false -> contains uid (hex_of_bytes bs) = false.
Proof. exact opaque. Qed.
Print Assumptions C18_opaque_partial.

(* DYNAMICALLY REGISTERED CLIENTS: the record the registration endpoint stores (registered_record; compared with the
   real client database after real registrations by the driver) makes the sector the host of the
   sector_identifier_uri the client asked for: same host, same sub; other host, other sub; never the public sub. *)
Theorem C18_registered_pairwise_iff_same_sector : forall (H : pystr -> pystr) (host_of : pystr -> pystr),
  (forall a b, H a = H b -> a = b) ->
  forall u1 u2 rd1 rd2 uid salt n1 n2, u1 <> [] -> u2 <> [] ->
  (grant_sub H host_of (registered_record (Some (PS "pairwise")) (Some u1)) rd1 uid salt n1
   = grant_sub H host_of (registered_record (Some (PS "pairwise")) (Some u2)) rd2 uid salt n2
   <-> host_of u1 = host_of u2).
Proof. exact registered_pairwise_iff. Qed.
Print Assumptions C18_registered_pairwise_iff_same_sector.
Theorem C18_registered_pairwise_is_not_public : forall (H : pystr -> pystr) (host_of : pystr -> pystr),
  (forall a b, H a = H b -> a = b) ->
  forall u rd rd' r' uid salt n n', u <> [] -> host_of u <> [] -> subtype_of r' = Public ->
  grant_sub H host_of (registered_record (Some (PS "pairwise")) (Some u)) rd uid salt n <> grant_sub H host_of r' rd' uid salt n'.
Proof. exact registered_pairwise_not_public. Qed.
Print Assumptions C18_registered_pairwise_is_not_public.

(* CONFIGURED SUBJECT MINTERS (session_params.sub_func = {type: {"class" / "function": ...}}; Model/Sub.v load_sub_func is the
   loop of EndpointContext.do_sub_func, fill_default the completion in SessionManager.__init__; the driver compares the model
   with real providers configured with one, two or three subject types in every order - library classes PublicID / PairWiseID,
   the library's functions, plain functions with their own salts - at the level of the grants and of the table itself). *)
Theorem C18_table_serves_each_type_with_its_own_minter : forall conf k,
  assoc k (minter_table conf) = match configured conf k with Some m => Some m | None => default_minter k end.
Proof. exact table_lookup. Qed.
Print Assumptions C18_table_serves_each_type_with_its_own_minter.

Theorem C18_configured_minter_serves_its_type : forall (H : pystr -> pystr) (host_of : pystr -> pystr) conf r rd uid salt n m,
  configured conf (type_key_of r) = Some m ->
  grant_sub_conf H host_of conf r rd uid salt n = mint H m uid salt (host_of (sector_source r rd)) n.
Proof. exact configured_serves. Qed.
Print Assumptions C18_configured_minter_serves_its_type.

Theorem C18_unconfigured_type_gets_builtin : forall (H : pystr -> pystr) (host_of : pystr -> pystr) conf r rd uid salt n,
  configured conf (type_key_of r) = None ->
  grant_sub_conf H host_of conf r rd uid salt n = grant_sub H host_of r rd uid salt n.
Proof. exact unconfigured_default. Qed.
Print Assumptions C18_unconfigured_type_gets_builtin.

Theorem C18_configuration_order_irrelevant : forall (H : pystr -> pystr) (host_of : pystr -> pystr) conf conf' r rd uid salt n,
  NoDup (map fst conf) -> Permutation conf conf' ->
  grant_sub_conf H host_of conf r rd uid salt n = grant_sub_conf H host_of conf' r rd uid salt n.
Proof. exact order_independent. Qed.
Print Assumptions C18_configuration_order_irrelevant.

Theorem C18_configured_public_equal_across_clients : forall (H : pystr -> pystr) (host_of : pystr -> pystr) conf p own r1 r2 rd1 rd2 uid salt n1 n2,
  configured conf (PS "public") = Some (MHash p false own) ->
  type_key_of r1 = PS "public" -> type_key_of r2 = PS "public" ->
  grant_sub_conf H host_of conf r1 rd1 uid salt n1 = grant_sub_conf H host_of conf r2 rd2 uid salt n2.
Proof. exact conf_public_across_clients. Qed.
Print Assumptions C18_configured_public_equal_across_clients.

Theorem C18_configured_pairwise_iff_same_sector : forall (H : pystr -> pystr) (host_of : pystr -> pystr),
  (forall a b, H a = H b -> a = b) ->
  forall conf p own r1 r2 rd1 rd2 uid salt n1 n2,
  configured conf (PS "pairwise") = Some (MHash p true own) ->
  type_key_of r1 = PS "pairwise" -> type_key_of r2 = PS "pairwise" ->
  (grant_sub_conf H host_of conf r1 rd1 uid salt n1 = grant_sub_conf H host_of conf r2 rd2 uid salt n2
   <-> host_of (sector_source r1 rd1) = host_of (sector_source r2 rd2)).
Proof. exact conf_pairwise_iff_sector. Qed.
Print Assumptions C18_configured_pairwise_iff_same_sector.

Theorem C18_configured_hash_separates_users : forall (H : pystr -> pystr) (host_of : pystr -> pystr),
  (forall a b, H a = H b -> a = b) ->
  forall conf p us own r rd u1 u2 salt n1 n2,
  configured conf (type_key_of r) = Some (MHash p us own) -> u1 <> u2 ->
  grant_sub_conf H host_of conf r rd u1 salt n1 <> grant_sub_conf H host_of conf r rd u2 salt n2.
Proof. exact conf_distinct_users. Qed.
Print Assumptions C18_configured_hash_separates_users.

Theorem C18_configured_stable : forall (H : pystr -> pystr) (host_of : pystr -> pystr) conf r rd uid salt n1 n2,
  assoc (type_key_of r) (minter_table conf) <> Some MFresh ->
  grant_sub_conf H host_of conf r rd uid salt n1 = grant_sub_conf H host_of conf r rd uid salt n2.
Proof. exact conf_stable. Qed.
Print Assumptions C18_configured_stable.

(* non-vacuity of the configured part: the documented configuration in both orders, a skipped entry, an unknown key *)
Example C18_configured_nonvacuous :
  let c1 := [(PS "public", EMinter (cls_PublicID (PS "s1"))); (PS "pairwise", EMinter (cls_PairWiseID (PS "s2")))] in
  let c2 := [(PS "pairwise", EMinter (cls_PairWiseID (PS "s2"))); (PS "ephemeral", ESkipped); (PS "public", EMinter (cls_PublicID (PS "s1")))] in
  assoc (PS "public") (minter_table c1) = Some (cls_PublicID (PS "s1")) /\ assoc (PS "public") (minter_table c2) = Some (cls_PublicID (PS "s1")) /\
  assoc (PS "pairwise") (minter_table c1) = Some (cls_PairWiseID (PS "s2")) /\ assoc (PS "pairwise") (minter_table c2) = Some (cls_PairWiseID (PS "s2")) /\
  assoc (PS "ephemeral") (minter_table c2) = Some MFresh /\ assoc (PS "other") (minter_table c2) = None /\
  map fst (minter_table c1) = [PS "public"; PS "pairwise"; PS "ephemeral"] /\
  map fst (minter_table c2) = [PS "pairwise"; PS "public"; PS "ephemeral"].
Proof. vm_compute. repeat split; reflexivity. Qed.

(* non-vacuity *)
Example C18_nonvacuous :
  let r1 := mkCreg (Some (PS "pairwise")) None (Some (PS "https://a.example.org/s")) in
  let r2 := mkCreg (Some (PS "pairwise")) (Some (PS "https://b.example.org/")) None in
  let r3 := mkCreg None None None in
  subtype_of r1 = Pairwise /\ subtype_of r3 = Public /\
  sector_source r1 (PS "https://rp/cb") = PS "https://a.example.org/s" /\ sector_source r2 (PS "https://rp/cb") = PS "https://b.example.org/" /\
  sector_source r3 (PS "https://rp/cb") = PS "https://rp/cb" /\
  forallb is_hex (PS "diana") = false.
Proof. vm_compute. repeat split; reflexivity. Qed.

(* NOTHING A REQUEST SAYS ENTERS THE SUB.  Model/Sub.v grant_sub_rq / grant_sub_conf_rq take the assembled authorization request
   - redirect_uri plus every other member by name, EXTENSION parameters included (sector_identifier_uri, subject_type, sub_type,
   salt, sub, user_id, claims ...) - as an explicit argument and follow Authorization._subject_args and SessionManager.create_grant
   (which, since /repo c7c9b10, no longer falls back on the request's sector_identifier_uri member when the registration yields no
   sector host).  The driver sends such requests (front channel, request object, pushed request, with a session cookie; and the
   like at the token endpoint) at public / pairwise / ephemeral clients - also clients whose registered sector has no host - of
   providers with built-in and configured minters and compares model and provider on them.
   The sub is the registration's sub (grant_sub / grant_sub_conf, about which the theorems above speak) for every content of the
   request, unconditionally. *)
Theorem C18_request_sub_is_registration_sub : forall (H : pystr -> pystr) (host_of : pystr -> pystr) conf r rq uid salt n,
  grant_sub_conf_rq H host_of conf r rq uid salt n = grant_sub_conf H host_of conf r (rq_redirect rq) uid salt n.
Proof. exact request_sub_conf_is_registration_sub. Qed.
Print Assumptions C18_request_sub_is_registration_sub.

Theorem C18_request_sub_is_registration_sub_builtin : forall (H : pystr -> pystr) (host_of : pystr -> pystr) r rq uid salt n,
  grant_sub_rq H host_of r rq uid salt n = grant_sub H host_of r (rq_redirect rq) uid salt n.
Proof. exact request_sub_is_registration_sub. Qed.
Print Assumptions C18_request_sub_is_registration_sub_builtin.

Theorem C18_request_members_irrelevant : forall (H : pystr -> pystr) (host_of : pystr -> pystr) conf r rd ms ms' uid salt n,
  grant_sub_conf_rq H host_of conf r (mkAreq rd ms) uid salt n = grant_sub_conf_rq H host_of conf r (mkAreq rd ms') uid salt n.
Proof. exact request_members_irrelevant. Qed.
Print Assumptions C18_request_members_irrelevant.

(* a client that registered a sector of its own (with or without a host): every request at all (not even its redirect_uri plays a part) *)
Theorem C18_request_irrelevant : forall (H : pystr -> pystr) (host_of : pystr -> pystr) conf r uid salt n,
  has_sector r = true ->
  forall rq rq', grant_sub_conf_rq H host_of conf r rq uid salt n = grant_sub_conf_rq H host_of conf r rq' uid salt n.
Proof. exact request_irrelevant_registered_sector. Qed.
Print Assumptions C18_request_irrelevant.

Theorem C18_request_irrelevant_builtin : forall (H : pystr -> pystr) (host_of : pystr -> pystr) r uid salt n,
  has_sector r = true ->
  forall rq rq', grant_sub_rq H host_of r rq uid salt n = grant_sub_rq H host_of r rq' uid salt n.
Proof. exact request_irrelevant_builtin. Qed.
Print Assumptions C18_request_irrelevant_builtin.

(* a client without a registered sector: the host of the (registered) redirect_uri the request uses is all that counts *)
Theorem C18_request_irrelevant_same_redirect_host : forall (H : pystr -> pystr) (host_of : pystr -> pystr) conf r rq rq' uid salt n,
  host_of (sector_source r (rq_redirect rq)) = host_of (sector_source r (rq_redirect rq')) ->
  grant_sub_conf_rq H host_of conf r rq uid salt n = grant_sub_conf_rq H host_of conf r rq' uid salt n.
Proof. exact request_irrelevant_same_host. Qed.
Print Assumptions C18_request_irrelevant_same_redirect_host.

(* minters that do not look at the sector: also across redirect hosts *)
Theorem C18_request_irrelevant_public : forall (H : pystr -> pystr) (host_of : pystr -> pystr) r uid salt n,
  subtype_of r = Public -> forall rq rq', grant_sub_rq H host_of r rq uid salt n = grant_sub_rq H host_of r rq' uid salt n.
Proof. exact request_irrelevant_public. Qed.
Print Assumptions C18_request_irrelevant_public.

Theorem C18_request_irrelevant_ephemeral : forall (H : pystr -> pystr) (host_of : pystr -> pystr) r uid salt n,
  subtype_of r = Ephemeral -> forall rq rq', grant_sub_rq H host_of r rq uid salt n = grant_sub_rq H host_of r rq' uid salt n.
Proof. exact request_irrelevant_ephemeral. Qed.
Print Assumptions C18_request_irrelevant_ephemeral.

Theorem C18_request_irrelevant_sector_blind_minter : forall (H : pystr -> pystr) (host_of : pystr -> pystr) conf r uid salt n m,
  assoc (type_key_of r) (minter_table conf) = Some m ->
  (match m with MHash _ us _ => us = false | MFresh => True end) ->
  forall rq rq', grant_sub_conf_rq H host_of conf r rq uid salt n = grant_sub_conf_rq H host_of conf r rq' uid salt n.
Proof. exact request_irrelevant_sector_blind. Qed.
Print Assumptions C18_request_irrelevant_sector_blind_minter.

(* no request moves a client into another client's sector *)
Theorem C18_request_pairwise_iff_registered_sector : forall (H : pystr -> pystr) (host_of : pystr -> pystr),
  (forall a b, H a = H b -> a = b) ->
  forall r1 r2 rq1 rq2 uid salt n1 n2,
  subtype_of r1 = Pairwise -> subtype_of r2 = Pairwise ->
  (grant_sub_rq H host_of r1 rq1 uid salt n1 = grant_sub_rq H host_of r2 rq2 uid salt n2
   <-> subject_sector host_of r1 rq1 = subject_sector host_of r2 rq2).
Proof. exact request_pairwise_iff_registered_sector. Qed.
Print Assumptions C18_request_pairwise_iff_registered_sector.

(* non-vacuity of the request part: a request naming another sector / subject type gets the registration's sector - at a client with
   a registered sector, at one without (redirect host), and at one whose registered sector has NO host (a bare host name as
   sector_id, for which urlparse finds no hostname): the empty sector, with and without the request's member *)
Example C18_request_nonvacuous :
  let host_of := fun x => if str_eqb x (PS "https://a.example.org/s") then PS "a.example.org"
                          else if str_eqb x (PS "https://rp.example.com/cb") then PS "rp.example.com" else [] in
  let r1 := mkCreg (Some (PS "pairwise")) None (Some (PS "https://a.example.org/s")) in
  let r2 := mkCreg (Some (PS "pairwise")) None None in
  let r3 := mkCreg (Some (PS "pairwise")) (Some (PS "a.example.org")) None in
  let rq := mkAreq (PS "https://rp.example.com/cb") [(PS "sector_identifier_uri", PS "b.example.org"); (PS "subject_type", PS "public")] in
  has_sector r1 = true /\ has_sector r2 = false /\ has_sector r3 = true /\
  grant_sector host_of r1 rq = PS "a.example.org" /\ grant_sector host_of r2 rq = PS "rp.example.com" /\
  grant_sector host_of r3 (plain_request (PS "https://rp.example.com/cb")) = [] /\
  grant_sector host_of r3 rq = [].
Proof. vm_compute. repeat split; reflexivity. Qed.

(* THE SALT SOURCE OVER THE LIFE OF A DEPLOYMENT (PublicID / PairWiseID with `salt` or with `filename`: Model/Sub.v salt_of is
   PairWiseID.__init__ with its READ and CREATE branches, start_up the construction of the configured entries in dict order; the
   driver builds two or three provider instances one after another from the same configuration - salt given, salt file existing
   with all sorts of content, salt file missing at first start, one file shared by two entries - and compares files and subs of
   every instance with the model and the subs across the instances with each other). *)
Theorem C18_salt_file_round_trip : forall s, ~ In 13%N s -> read_text (write_text s) = s.
Proof. exact salt_file_round_trip. Qed.
Print Assumptions C18_salt_file_round_trip.

Theorem C18_salt_file_create_then_read : forall f fs rnd rnd',
  assoc f fs = None -> ~ In 13%N rnd ->
  exists fs1, salt_of (SrcFile f) fs rnd = InitOk rnd fs1 /\ salt_of (SrcFile f) fs1 rnd' = InitOk rnd fs1.
Proof. exact create_then_read. Qed.
Print Assumptions C18_salt_file_create_then_read.

Theorem C18_existing_salt_file_read_alike : forall f raw fs fs2 rnd rnd',
  assoc f fs = Some (FFile raw) -> fs_le fs fs2 ->
  salt_of (SrcFile f) fs rnd = InitOk (read_text raw) fs /\ salt_of (SrcFile f) fs2 rnd' = InitOk (read_text raw) fs2.
Proof. exact existing_file_same_salt. Qed.
Print Assumptions C18_existing_salt_file_read_alike.

Theorem C18_same_configuration_same_minters_on_every_instance : forall d rnd fs conf fs',
  persistent d = true -> (forall n, ~ In 13%N (rnd n)) ->
  start_up d 0 rnd fs = Some (conf, fs') ->
  forall fs2 rnd', fs_le fs' fs2 -> start_up d 0 rnd' fs2 = Some (conf, fs2).
Proof. exact restart_same_configuration. Qed.
Print Assumptions C18_same_configuration_same_minters_on_every_instance.

Theorem C18_same_configuration_same_subs_on_every_instance : forall (H : pystr -> pystr) (host_of : pystr -> pystr) d rnd fs conf fs',
  persistent d = true -> (forall n, ~ In 13%N (rnd n)) ->
  start_up d 0 rnd fs = Some (conf, fs') ->
  forall fs2 rnd', fs_le fs' fs2 ->
  exists conf2, start_up d 0 rnd' fs2 = Some (conf2, fs2) /\
    forall r rd uid salt n, grant_sub_conf H host_of conf2 r rd uid salt n = grant_sub_conf H host_of conf r rd uid salt n.
Proof. exact restart_same_subs. Qed.
Print Assumptions C18_same_configuration_same_subs_on_every_instance.

(* non-vacuity of the life cycle: two entries sharing one missing file (the first creates it, the second reads it in the same
   start-up), a second start with another draw, a hand-made file ending in CRLF, something that is not a file; and what the
   round trip excludes: a salt stored with one character more is another salt *)
Example C18_lifecycle_nonvacuous :
  let d := [(PS "public", DClass false [] (PS "p.salt")); (PS "pairwise", DClass true [] (PS "p.salt")); (PS "ephemeral", DPlain ESkipped)] in
  let c := [(PS "public", EMinter (cls_PublicID (PS "draw-1"))); (PS "pairwise", EMinter (cls_PairWiseID (PS "draw-1"))); (PS "ephemeral", ESkipped)] in
  let fs1 := [(PS "p.salt", FFile (PS "draw-1"))] in
  persistent d = true /\
  start_up d 0 (fun _ => PS "draw-1") [] = Some (c, fs1) /\ start_up d 0 (fun _ => PS "draw-2") fs1 = Some (c, fs1) /\
  salt_of (SrcFile (PS "q")) [(PS "q", FFile (PS "abc" ++ [13; 10]%N))] (PS "x") = InitOk (PS "abc" ++ [10]%N) [(PS "q", FFile (PS "abc" ++ [13; 10]%N))] /\
  salt_of (SrcFile (PS "q")) [(PS "q", FOther)] (PS "x") = InitConfigurationError /\
  source_of (PS "given") (PS "q") = SrcExplicit (PS "given") /\
  read_text (PS "draw-1" ++ [10]%N) <> PS "draw-1".
Proof. vm_compute. repeat split; try reflexivity. discriminate. Qed.

(* TIE BY TRANSLATION: public_id / pairwise_id as they read in /repo/src NOW (coq/Gen/Src_sub.v) hash exactly the
   strings the model hashes (uid ++ salt, uid ++ sector ++ salt), with SHA-256. *)
Theorem C18_sub_functions_are_source : forall H uid salt sector clock,
  (exists d, sub_of (H (PS "sha256")) Public uid salt sector 0 = SHash d /\ Src_sub.public_id_src H (VStr uid) (VStr salt) clock = Ok (VStr d)) /\
  (exists d, sub_of (H (PS "sha256")) Pairwise uid salt sector 0 = SHash d /\ Src_sub.pairwise_id_src H (VStr uid) (VStr sector) (VStr salt) clock = Ok (VStr d)).
Proof. exact Src_refine.sub_of_is_source. Qed.
Print Assumptions C18_sub_functions_are_source.
