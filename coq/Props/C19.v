(* Props/C19.v — property C19: dynamic registration admits only well-formed clients and isolates them.
   Only statements, each closed by `exact <lemma>`, with Print Assumptions, and non-vacuity Examples.
   The model (Model/Registration.v, Model/RegUri.v) follows the repaired tree: e6bdbb0, 4dbb6c1, 41e49ce,
   ca294e9, 26376a3. *)
From Coq Require Import String.
From Verif Require Import Lib.Base.
From Verif Require Import Lib.PyStr.
From Verif Require Import Lib.Urlenc.
From Verif Require Import Model.RegUri.
From Verif Require Import Model.Registration.
From Verif Require Import Proofs.Registration_proofs.
Open Scope N_scope.

(* ---- 1. redirect URIs ------------------------------------------------------------------------- *)
(* The decision table over the finite abstraction (application type x must_https x scheme class x host
   class x fragment? x query?): an accepting verdict obeys the rule of the property text (no fragment;
   web + implicit/hybrid => https; native => custom scheme or http loopback; custom scheme => native; a
   scheme is present).  Decided by kernel evaluation of the whole table (table_ok) and lifted. *)
Theorem C19_decision_table : forall t mh ih a,
  (t = Web -> ih = true -> mh = true) -> (forall n, decide t mh a <> VReject n) -> rule_ok t ih a = true.
Proof. exact decide_sound. Qed.
Print Assumptions C19_decision_table.

(* The concrete function on URI strings factors through the abstraction. *)
Theorem C19_decision_factors : forall ct mh uri,
  verify_one ct mh uri =
  (p <- urlsplit uri ;;
   match decide (app_of ct) mh (classify p) with
   | VReject n => Err (Refused n) | VCustom => do_split uri | VSplit => do_split uri end).
Proof. exact verify_one_factors. Qed.
Print Assumptions C19_decision_factors.

(* A client is stored  =>  every redirect URI it asked for parses and obeys the rule for the
   application type and response types that are stored with it; one stored entry per requested URI. *)
Theorem C19_redirect_rule : forall c st o st' cid resp,
  assoc K_redirect_uris (c_support c) = None ->        (* redirect_uris is not a negotiated claim *)
  NoDup (List.map fst (r_req o)) ->                     (* the request is a dict: unique keys *)
  register c st o = (st', OAccepted cid resp) ->
  exists cinfo uris stored,
    assoc cid (s_cdb st') = Some cinfo
    /\ req_strs K_redirect_uris (r_req o) = Some uris
    /\ assoc K_redirect_uris cinfo = Some (VList stored) /\ List.length stored = List.length uris
    /\ Forall (fun u => exists p, urlsplit u = Ok p /\
                 rule_ok (app_of (client_type cinfo))
                         (uses_implicit_or_hybrid (match req_strs K_response_types cinfo with Some ss => ss | None => [] end))
                         (classify p) = true) uris.
Proof. exact redirect_rule_stored. Qed.
Print Assumptions C19_redirect_rule.

(* Negotiated metadata (algorithms, subject type, auth method, response / grant types, ...) that is
   stored lies within what the provider supports. *)
Theorem C19_metadata_within_support : forall c st o st' cid resp k sup v,
  NoDup (List.map fst (r_req o)) ->
  register c st o = (st', OAccepted cid resp) ->
  assoc k (c_support c) = Some sup ->
  str_in k reserved_keys = false -> str_in k ignore_keys = false -> str_in k touched = false ->
  forall cinfo, assoc cid (s_cdb st') = Some cinfo -> assoc k cinfo = Some v -> within_support v sup.
Proof. exact stored_within_support. Qed.
Print Assumptions C19_metadata_within_support.

(* ---- 1b. RESTRICTED provider lists: all three views --------------------------------------------- *)
(* The provider's lists are the configuration (c_support c : parameter -> list); nothing is assumed about them
   (any subset of the defaults, encryption on or off, a single signing algorithm, ...).  A parameter is
   `negotiable` when the provider neither assigns it itself nor rewrites it as a URI - every parameter that has
   a *_supported list is one.  record_within c cinfo: cinfo is a dictionary and every negotiable parameter in it
   that has a provider-side list is a member (listy: a sub-list) of that list. *)

(* view 1, the client database: an accepted registration stores a record within the lists.  This includes the two
   signing algorithms that do_client_registration may remove after the filter (C19_metadata_within_support
   leaves them out). *)
Theorem C19_stored_within_lists : forall c st o st' cid resp,
  NoDup (List.map fst (r_req o)) ->
  register c st o = (st', OAccepted cid resp) ->
  exists cinfo, assoc cid (s_cdb st') = Some cinfo /\ response_args c cinfo = Ok resp /\ record_within c cinfo.
Proof. exact stored_record_within. Qed.
Print Assumptions C19_stored_within_lists.

(* view 2, the registration response *)
Theorem C19_echoed_within_lists : forall c st o st' cid resp k sup v,
  NoDup (List.map fst (r_req o)) ->
  register c st o = (st', OAccepted cid resp) ->
  assoc k (c_support c) = Some sup -> negotiable k = true -> assoc k resp = Some v -> within_support v sup.
Proof. exact echoed_within_support. Qed.
Print Assumptions C19_echoed_within_lists.

(* view 3, the read endpoint, on any state whose record for that client lies within the lists *)
Theorem C19_read_within_lists : forall c st hdr q now st' cid resp k sup v,
  assoc K_auth_method (c_support c) = None ->
  (forall cinfo, assoc cid (s_cdb st) = Some cinfo -> record_within c cinfo) ->
  read c st hdr q now = (st', RAnswer cid resp) ->
  assoc k (c_support c) = Some sup -> negotiable k = true -> assoc k resp = Some v -> within_support v sup.
Proof. exact read_within_support. Qed.
Print Assumptions C19_read_within_lists.

(* No history of registrations and reads, with any requests (inside / outside the lists, alg without enc, enc
   without alg, half-supported pairs) and any supply, brings a value outside the lists into the client database,
   and whatever the read endpoint answers afterwards lies within them. *)
Theorem C19_history_within_lists : forall c ops st st' outs,
  assoc K_auth_method (c_support c) = None -> Forall op_wf ops -> cdb_within c st ->
  run c st ops = (st', outs) -> cdb_within c st'.
Proof. intros c ops. exact (history_within c ops). Qed.
Print Assumptions C19_history_within_lists.

Theorem C19_history_read_within_lists : forall c ops st st' outs hdr q now s2 cid resp k sup v,
  assoc K_auth_method (c_support c) = None -> Forall op_wf ops -> cdb_within c st ->
  run c st ops = (st', outs) ->
  read c st' hdr q now = (s2, RAnswer cid resp) ->
  assoc k (c_support c) = Some sup -> negotiable k = true -> assoc k resp = Some v -> within_support v sup.
Proof. exact history_read_within. Qed.
Print Assumptions C19_history_read_within_lists.

(* alg without enc: RegistrationRequest.verify() completes the request with the specification default
   A128CBC-HS256, and the filter then judges it like a requested value - it is stored only if the provider lists it *)
Theorem C19_default_enc_only_if_listed : forall c st o st' cid resp k sup,
  NoDup (List.map fst (r_req o)) ->
  register c st o = (st', OAccepted cid resp) ->
  In k enc_keys -> assoc k (c_support c) = Some sup ->
  forall cinfo, assoc cid (s_cdb st') = Some cinfo -> assoc k cinfo = Some (VStr S_default_enc) -> In S_default_enc sup.
Proof. exact default_enc_only_if_listed. Qed.
Print Assumptions C19_default_enc_only_if_listed.

(* ---- 2. a refusal stores nothing --------------------------------------------------------------- *)
(* Any answer other than 201 (parse refusal, error message, exception) leaves cdb, the registration
   tokens and the key-jar owners exactly as they were, provided the token draw is fresh and no client-id
   draw names a key owner that is not a client. *)
Theorem C19_reject_stores_nothing : forall c st o st' x,
  register c st o = (st', x) ->
  (forall cid r, x <> OAccepted cid r) ->
  assoc (r_rat o) (s_rat st) = None ->
  (forall i, In i (r_ids o) -> str_in i (s_owners st) = true -> has_key i (s_cdb st) = true) ->
  st' = st.
Proof. exact register_reject_unchanged. Qed.
Print Assumptions C19_reject_stores_nothing.

(* ---- 3. identifiers, secret, token ------------------------------------------------------------- *)
(* Over any history, from any state, with ANY supply of random draws: the client ids assigned are
   pairwise distinct and none was in use before. *)
Theorem C19_unique_fresh : forall c ops st st' outs,
  run c st ops = (st', outs) ->
  NoDup (assigned ops outs) /\ (forall i, In i (assigned ops outs) -> has_key i (s_cdb st) = false).
Proof. intros c ops. exact (unique_fresh_ids c ops). Qed.
Print Assumptions C19_unique_fresh.

(* The stored secret and registration token are the provider's draws (never a value of the request),
   the id was not in use, and the token is recorded for exactly this client. *)
Theorem C19_provider_assigned : forall c st o st' cid resp,
  register c st o = (st', OAccepted cid resp) ->
  exists cinfo,
    assoc cid (s_cdb st') = Some cinfo /\ response_args c cinfo = Ok resp
    /\ has_key cid (s_cdb st) = false /\ In cid (r_ids o)
    /\ assoc K_client_id cinfo = Some (VStr cid)
    /\ assoc K_client_secret cinfo = Some (VStr (r_secret o))
    /\ (forall path, c_read c = Some path ->
          assoc K_rat cinfo = Some (VStr (r_rat o)) /\ assoc (r_rat o) (s_rat st') = Some cid).
Proof. exact register_accept_stored. Qed.
Print Assumptions C19_provider_assigned.

(* ---- 4. echo ------------------------------------------------------------------------------------ *)
(* The 201 response is exactly the stored record restricted to the response schema with its URIs
   recombined (comb_uri); the read endpoint returns the same function of the stored record. *)
Theorem C19_echo : forall c st o st' cid resp,
  register c st o = (st', OAccepted cid resp) ->
  exists cinfo, assoc cid (s_cdb st') = Some cinfo /\ response_args c cinfo = Ok resp.
Proof. exact echo_registration. Qed.
Print Assumptions C19_echo.

Theorem C19_read_echo : forall c st hdr q now st' cid resp,
  str_in K_auth_method (c_resp_keys c) = false ->
  read c st hdr q now = (st', RAnswer cid resp) ->
  exists cinfo, assoc cid (s_cdb st) = Some cinfo /\ response_args c cinfo = Ok resp.
Proof. exact echo_read. Qed.
Print Assumptions C19_read_echo.

(* ---- 5. read isolation ---------------------------------------------------------------------------- *)
(* One request: the read endpoint answers for client cid only to "Bearer t" where t is recorded for
   cid, and only when the query names cid. *)
Theorem C19_read_needs_own_token : forall c st hdr q now st' cid resp,
  read c st hdr q now = (st', RAnswer cid resp) ->
  q = Some cid
  /\ (exists h, hdr = Some h /\ starts_with S_Bearer_sp h = true /\ assoc (skipn 7 h) (s_rat st) = Some cid)
  /\ (exists cinfo, assoc cid (s_cdb st) = Some cinfo /\ valid_client_secret cinfo now = true
                    /\ assoc cid (s_cdb st') = Some (set_auth_method cinfo)
                    /\ response_args c (set_auth_method cinfo) = Ok resp).
Proof. exact read_answer_inv. Qed.
Print Assumptions C19_read_needs_own_token.

(* Over any history with a fresh token supply: the token issued to client a still belongs to a at
   the end, and presenting it yields an answer only for a — every pairing (token of a, client b <> a)
   is refused. *)
Theorem C19_read_isolation : forall c ops st st' outs,
  run c st ops = (st', outs) ->
  (exists path, c_read c = Some path) ->
  NoDup (rat_draws ops) ->
  forall t a, In (t, a) (issued ops outs) ->
    assoc t (s_rat st') = Some a
    /\ forall q now s2 cid resp,
         read c st' (Some (S_Bearer_sp ++ t)) q now = (s2, RAnswer cid resp) -> cid = a /\ q = Some a.
Proof. exact read_isolation. Qed.
Print Assumptions C19_read_isolation.

Theorem C19_read_cross_refused : forall c ops st st' outs t a b now,
  run c st ops = (st', outs) -> (exists path, c_read c = Some path) -> NoDup (rat_draws ops) ->
  In (t, a) (issued ops outs) -> b <> a ->
  forall s2 x, read c st' (Some (S_Bearer_sp ++ t)) (Some b) now = (s2, x) -> forall cid resp, x <> RAnswer cid resp.
Proof. exact read_cross_refused. Qed.
Print Assumptions C19_read_cross_refused.

(* ---- non-vacuity ------------------------------------------------------------------------------------ *)
Definition ex_cfg : cfg :=
  mkCfg [(K_response_types, [PS "code"; PS "id_token"]); (K_subject_type, [PS "public"; PS "pairwise"])]
        [K_response_types; K_redirect_uris]
        [K_client_id; K_client_secret; K_rat; K_rcu; K_issued_at; K_secret_expires; K_redirect_uris; K_response_types;
         K_application_type; K_subject_type]
        [] (Some (PS "https://op.example/registration_api")) (Some 3600%Z).
Definition ex_st0 : state := mkSt [(PS "static", [(K_client_id, VStr (PS "static"))])] [] [PS "static"].
Definition ex_req (uri : string) (at_ : string) (rt : string) : dict :=
  [(K_application_type, VStr (PS at_)); (K_response_types, VList [VStr (PS rt)]); (K_redirect_uris, VList [VStr (PS uri)])].
(* client A: first id draw collides with an existing id; client B native with a custom scheme *)
Definition ex_opA := OpReg (mkReg (ex_req "https://a.example.com/cb?x=1" "web" "id_token") [PS "static"; PS "idA"] (PS "s1") (PS "tokA") (PS "secA") true 100%Z).
Definition ex_opB := OpReg (mkReg (ex_req "com.example.app:/cb" "native" "code") [PS "idB"] (PS "s2") (PS "tokB") (PS "secB") true 101%Z).
(* refused: web + implicit with http; native without any scheme; fragment *)
Definition ex_bad1 := OpReg (mkReg (ex_req "http://a.example.com/cb" "web" "id_token") [PS "idC"] (PS "s3") (PS "tokC") (PS "secC") true 102%Z).
Definition ex_bad2 := OpReg (mkReg (ex_req "cb" "native" "code") [PS "idD"] (PS "s4") (PS "tokD") (PS "secD") true 103%Z).
Definition ex_bad3 := OpReg (mkReg (ex_req "https://a.example.com/cb#f" "web" "code") [PS "idE"] (PS "s5") (PS "tokE") (PS "secE") true 104%Z).
Definition ex_ops := [ex_opA; ex_bad1; ex_opB; ex_bad2; ex_bad3].

Example C19_nonvacuous_history :
  assigned ex_ops (snd (run ex_cfg ex_st0 ex_ops)) = [PS "idA"; PS "idB"]
  /\ issued ex_ops (snd (run ex_cfg ex_st0 ex_ops)) = [(PS "tokA", PS "idA"); (PS "tokB", PS "idB")]
  /\ List.map fst (s_cdb (fst (run ex_cfg ex_st0 ex_ops))) = [PS "static"; PS "idA"; PS "idB"]
  /\ NoDup (rat_draws ex_ops).
Proof.
  split; [vm_compute; reflexivity|]. split; [vm_compute; reflexivity|]. split; [vm_compute; reflexivity|].
  vm_compute. repeat constructor; cbn; intuition discriminate.
Qed.

(* own token answers; the other client's token, a bogus token and no credential are refused *)
Example C19_nonvacuous_read :
  let st := fst (run ex_cfg ex_st0 ex_ops) in
  (exists s r, read ex_cfg st (Some (PS "Bearer tokA")) (Some (PS "idA")) 200%Z = (s, RAnswer (PS "idA") r)
               /\ assoc K_redirect_uris r = Some (VList [VStr (PS "https://a.example.com/cb?x=1")]))
  /\ snd (read ex_cfg st (Some (PS "Bearer tokB")) (Some (PS "idA")) 200%Z) = RUnknownClient
  /\ snd (read ex_cfg st (Some (PS "Bearer nope")) (Some (PS "idA")) 200%Z) = RUnknownToken
  /\ snd (read ex_cfg st None (Some (PS "idA")) 200%Z) = RUnauthorized
  /\ snd (read ex_cfg st (Some (PS "Bearer tokA")) (Some (PS "idA")) 99999%Z) = RInvalidClient.
Proof.
  cbv zeta. split; [|repeat split; vm_compute; reflexivity].
  eexists. eexists. split; [vm_compute; reflexivity|vm_compute; reflexivity].
Qed.

(* the refusals of the history leave the state untouched (hypotheses of C19_reject_stores_nothing hold) *)
Example C19_nonvacuous_reject :
  let st := fst (run ex_cfg ex_st0 [ex_opA]) in
  fst (step ex_cfg st ex_bad1) = st /\ snd (step ex_cfg st ex_bad1) = OutReg (ORefused E_invalid_redirect_uri)
  /\ assoc (PS "tokC") (s_rat st) = None.
Proof. cbv zeta. repeat split; vm_compute; reflexivity. Qed.

(* ---- non-vacuity, restricted lists: ID Token encryption on with GCM-only enc values and two alg values, a single
   ID Token signing algorithm, response types code / id_token ---- *)
Definition K_idt_enc_alg := PS "id_token_encrypted_response_alg".
Definition K_idt_enc_enc := PS "id_token_encrypted_response_enc".
Definition rx_cfg : cfg :=
  mkCfg [(K_response_types, [PS "code"; PS "id_token"]);
         (K_idt_enc_alg, [PS "RSA-OAEP"; PS "ECDH-ES"]);
         (K_idt_enc_enc, [PS "A128GCM"; PS "A256GCM"]);
         (K_idt_sig, [PS "ES256"])]
        [K_response_types; K_redirect_uris]
        [K_client_id; K_client_secret; K_rat; K_rcu; K_issued_at; K_secret_expires; K_redirect_uris; K_response_types;
         K_application_type; K_idt_enc_alg; K_idt_enc_enc; K_idt_sig]
        [PS "ES256"] (Some (PS "https://op.example/registration_api")) (Some 3600%Z).
Definition rx_st0 : state := mkSt [] [] [].
Definition rx_req (extra : dict) : dict :=
  [(K_application_type, VStr (PS "web")); (K_response_types, VList [VStr (PS "code")]);
   (K_redirect_uris, VList [VStr (PS "https://a.example.com/cb")])] ++ extra.
Definition rx_reg (extra : dict) : state * outcome :=
  register rx_cfg rx_st0 (mkReg (rx_req extra) [PS "idX"] (PS "s") (PS "tokX") (PS "secX") true 100%Z).
Definition rx_stored (extra : dict) (k : pystr) : option pyval :=
  match assoc (PS "idX") (s_cdb (fst (rx_reg extra))) with Some ci => assoc k ci | None => Some VNone end.
Definition rx_echoed (extra : dict) (k : pystr) : option pyval :=
  match snd (rx_reg extra) with OAccepted _ r => assoc k r | _ => Some VNone end.

Example C19_nonvacuous_restricted :
  (* alg only: the default enc is filled in, judged (not listed here) and dropped; the alg stays *)
  rx_stored [(K_idt_enc_alg, VStr (PS "RSA-OAEP"))] K_idt_enc_alg = Some (VStr (PS "RSA-OAEP"))
  /\ rx_stored [(K_idt_enc_alg, VStr (PS "RSA-OAEP"))] K_idt_enc_enc = None
  /\ rx_echoed [(K_idt_enc_alg, VStr (PS "RSA-OAEP"))] K_idt_enc_enc = None
  (* supported alg + unsupported enc; supported pair; unsupported alg + supported enc *)
  /\ rx_stored [(K_idt_enc_alg, VStr (PS "ECDH-ES")); (K_idt_enc_enc, VStr (PS "A192GCM"))] K_idt_enc_enc = None
  /\ rx_stored [(K_idt_enc_alg, VStr (PS "ECDH-ES")); (K_idt_enc_enc, VStr (PS "A256GCM"))] K_idt_enc_enc = Some (VStr (PS "A256GCM"))
  /\ rx_echoed [(K_idt_enc_alg, VStr (PS "ECDH-ES")); (K_idt_enc_enc, VStr (PS "A256GCM"))] K_idt_enc_enc = Some (VStr (PS "A256GCM"))
  /\ rx_stored [(K_idt_enc_alg, VStr (PS "RSA1_5")); (K_idt_enc_enc, VStr (PS "A128GCM"))] K_idt_enc_alg = None
  (* enc without alg is refused before anything is stored *)
  /\ rx_reg [(K_idt_enc_enc, VStr (PS "A128GCM"))] = (rx_st0, OParseRefused)
  (* a single signing algorithm *)
  /\ rx_stored [(K_idt_sig, VStr (PS "ES256"))] K_idt_sig = Some (VStr (PS "ES256"))
  /\ rx_stored [(K_idt_sig, VStr (PS "RS256"))] K_idt_sig = None
  /\ rx_stored [(K_idt_sig, VStr (PS "none"))] K_idt_sig = None
  (* response types: the supported part is kept, nothing supported = refusal *)
  /\ snd (register rx_cfg rx_st0 (mkReg [(K_response_types, VList [VStr (PS "id_token"); VStr (PS "token")]);
                                         (K_redirect_uris, VList [VStr (PS "https://a.example.com/cb")])]
                                        [PS "idX"] (PS "s") (PS "tokX") (PS "secX") true 100%Z))
     = OAccepted (PS "idX") [(K_client_id, VStr (PS "idX")); (K_rat, VStr (PS "tokX"));
                             (K_rcu, VStr (PS "https://op.example/registration_api?client_id=idX"));
                             (K_issued_at, VInt 100%Z); (K_client_secret, VStr (PS "secX")); (K_secret_expires, VInt 3700%Z);
                             (K_response_types, VList [VStr (PS "id_token")]);
                             (K_redirect_uris, VList [VStr (PS "https://a.example.com/cb")])]
  /\ snd (register rx_cfg rx_st0 (mkReg [(K_response_types, VList [VStr (PS "token")]);
                                         (K_redirect_uris, VList [VStr (PS "https://a.example.com/cb")])]
                                        [PS "idX"] (PS "s") (PS "tokX") (PS "secX") true 100%Z))
     = ORefused E_invalid_request
  (* the hypotheses of the history theorems are satisfiable *)
  /\ cdb_within rx_cfg rx_st0 /\ assoc K_auth_method (c_support rx_cfg) = None
  /\ negotiable K_idt_enc_enc = true /\ negotiable K_idt_sig = true /\ negotiable K_response_types = true.
Proof.
  repeat (split; [vm_compute; reflexivity|]).
  split; [apply cdb_within_empty|]. repeat split; vm_compute; reflexivity.
Qed.

(* Tie to the source: Gen/Src_reg.v is the CURRENT idpyoidc.server.oidc.registration.random_client_id, translated by
   harness/py2v.py on every run.  ids = successive results of rndstr(); reserved = cdb.keys().  The model's pick_id
   (on which id uniqueness rests) is what the source computes, including running out of supply. *)
From Verif Require Lib.PyOps Gen.Src_reg Proofs.Src_refine_reg.
Theorem C19_random_client_id_is_source : forall ids cdb len clock,
  Src_reg.random_client_id_src (List.map VStr ids) len (VList (List.map VStr (List.map fst cdb))) clock
  = match pick_id ids cdb with Ok k => Ok (VStr k) | Err e => Err e | Unmodelled => Unmodelled end.
Proof. exact Src_refine_reg.random_client_id_refines. Qed.
Print Assumptions C19_random_client_id_is_source.

(* TIE BY TRANSLATION: idpyoidc.util.split_uri as it reads in /repo/src NOW (coq/Gen/Src_uri.v, regenerated by
   harness/py2v.py on every run) computes the model's split_uri (the stored form of every registered URI).
   The three urllib.parse functions it calls are parameters of the translation, instantiated with the urllib model of
   Model/RegUri.v (validated against CPython on every run); the statement is about the glue: the fragment and the query
   are dropped from the base, the base is re-assembled from this URI's own scheme / netloc / path, the second component
   is parse_qs of this URI's own query, or None when there is none. *)
From Verif Require Lib.PyOps Gen.Src_uri Proofs.Src_refine_uri.
Theorem C19_split_uri_is_source : forall uri clock,
  Src_uri.split_uri_src Src_refine_uri.env_parse_qs Src_refine_uri.env_urlsplit Src_refine_uri.env_urlunsplit (VStr uri) clock
  = Src_refine_uri.lift_pv (RegUri.split_uri uri) Src_refine_uri.inject_split_uri.
Proof. exact Src_refine_uri.split_uri_refines. Qed.
Print Assumptions C19_split_uri_is_source.
