(* Props/C20.v — property C20: handling requests never alters static schemas, defaults or client
   configuration.  Only statements, each closed by `exact <lemma>`, with Print Assumptions.
   Partial: Python aliasing is proved for the transcribed flows; every other in-place write is the
   business of the deep snapshot diff of harness/drv_C20.py (a check, not a theorem). *)
From Coq Require Import List Arith Bool.
From Verif Require Import Lib.Heap Model.Alias Model.AliasFlows Proofs.Alias_proofs.
Import ListNotations.

(* Soundness of the ownership discipline: for EVERY instruction list accepted by the checker, EVERY
   initial heap (all static objects, whatever they reference) and register file, and EVERY execution
   (deepcopy being any allocation-only closed copy): each object that existed before the flow started is
   unchanged afterwards. *)
Theorem C20_no_static_write : forall (h0 : heap) (e0 : env) p s',
  check p = true -> run p (h0, e0, fun _ => false) s' ->
  forall l, h0 l <> None -> fst (fst s') l = h0 l.
Proof. exact no_static_write. Qed.
Print Assumptions C20_no_static_write.

(* the flows of the CURRENT code are accepted ... *)
Theorem C20_current_flows_checked : forallb check current_flows = true.
Proof. reflexivity. Qed.
Print Assumptions C20_current_flows_checked.

(* ... hence none of them writes into the schema tables, the module constants, the endpoint / authz /
   claims configuration or a client record *)
Theorem C20_current_flows_no_static_write : forall p, In p current_flows ->
  forall (h0 : heap) (e0 : env) s', run p (h0, e0, fun _ => false) s' ->
  forall l, h0 l <> None -> fst (fst s') l = h0 l.
Proof.
  intros p Hp h0 e0 s' Hr. apply (no_static_write h0 e0 p s'); [|exact Hr].
  pose proof C20_current_flows_checked as H. rewrite forallb_forall in H. now apply H.
Qed.
Print Assumptions C20_current_flows_no_static_write.

(* non-vacuity of the discipline: each pre-repair variant is rejected, at the aliasing write *)
Example C20_prefix_flows_rejected : forallb (fun p => negb (check p)) prefix_flows = true.
Proof. reflexivity. Qed.
Example C20_prefix_offending_writes :
  map (fun p => first_bad p (fun _ => S) false 0) prefix_flows
  = [Some 5; Some 4; Some 6; Some 6; Some 5; Some 6; Some 5; Some 4].
Proof. reflexivity. Qed.

(* the pre-repair usage-rules flow really does change a static object: an executed witness.
   Heap: cdb -> client record -> token_usage_rules -> rules of the code type. *)
Definition h_witness : heap := fun l =>
  match l with
  | 0 => Some [(k_client, Ref 10)]
  | 10 => Some [(k_tur, Ref 11)]
  | 11 => Some [(k_code, Ref 12)]
  | 12 => Some [(k_sm, Atom 0)]
  | _ => None
  end.
Example C20_prefix_usage_rules_writes_client_record :
  exists s', run flow_usage_rules_prefix (h_witness, (fun _ => None), fun _ => false) s'
             /\ fst (fst s') 12 <> h_witness 12.
Proof.
  eexists. split.
  - unfold flow_usage_rules_prefix.
    eapply r_cons; [apply s_root; [discriminate|reflexivity]|].
    eapply r_cons; [eapply (s_get 4 3 k_client _ _ _ 0); reflexivity|].
    eapply r_cons; [eapply (s_get 5 4 k_tur _ _ _ 10); reflexivity|].
    eapply r_cons; [eapply (s_get 7 5 k_code _ _ _ 11); reflexivity|].
    eapply r_cons; [eapply (s_setatom 7 k_max 1 _ _ _ 12); reflexivity|].
    apply r_nil.
  - cbn. discriminate.
Qed.

(* an accepted flow has executions (the theorem is not about the empty relation): find_token *)
Definition h_schema : heap := fun l => match l with 2 => Some [(k_scope, Atom 1)] | _ => None end.
Example C20_find_token_runs :
  exists s', run flow_find_token (h_schema, (fun _ => None), fun _ => false) s' /\ fst (fst s') 2 = h_schema 2.
Proof.
  eexists. split.
  - unfold flow_find_token.
    eapply r_cons; [eapply (s_new 0 _ _ _ 100); reflexivity|].
    eapply r_cons; [eapply (s_setatom 0 k_tok 5 _ _ _ 100); reflexivity|].
    eapply r_cons; [eapply (s_get 1 0 k_tok _ _ _ 100); reflexivity|].
    eapply r_cons; [eapply (s_del 0 k_tok _ _ _ 100); reflexivity|].
    eapply r_cons; [apply s_root; [discriminate|reflexivity]|].
    eapply r_cons; [eapply (s_new 3 _ _ _ 101); reflexivity|].
    eapply r_cons; [eapply (s_update 3 2 _ _ _ 101 _ 2); reflexivity|].
    eapply r_cons; [eapply (s_set 0 k_c_param 3 _ _ _ 100); reflexivity|].
    eapply r_cons; [eapply (s_setatom 3 k_tok 9 _ _ _ 101); reflexivity|].
    apply r_nil.
  - reflexivity.
Qed.

(* the discipline is conservative: the harmless code-order composite is rejected (covered by the probes
   and the snapshot diff instead) *)
Example C20_conservative : check flow_code_order_composite = false.
Proof. reflexivity. Qed.
