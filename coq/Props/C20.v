(* Props/C20.v — property C20: handling requests never alters static schemas, defaults or client
   configuration.  Only statements, each closed by `exact <lemma>` (or `vm_compute; reflexivity` for the
   finite obligations over tables), with Print Assumptions.
   Partial: Python aliasing is proved for the hand-transcribed flows (Model/AliasFlows.v) and for the flows that
   harness/py2alias.py regenerates from the CURRENT source of the listed functions on every run
   (Gen/AliasGen.v); every other in-place write is the business of the deep snapshot diff of
   harness/drv_C20.py (a check, not a theorem). *)
From Coq Require Import List Arith Bool String.
From Verif Require Import Lib.Heap Model.Alias Model.AliasFlows Model.AliasTie Gen.AliasGen Proofs.Alias_proofs.
Import ListNotations.

(* Soundness of the ownership discipline: for EVERY instruction list accepted by the checker, EVERY
   initial heap (all static objects, whatever they reference) and register file, and EVERY execution
   (deepcopy being any allocation-only closed copy): each object that existed before the flow started is
   unchanged afterwards. *)
Theorem C20_no_static_write : forall (h0 : heap) (e0 : env) p s',
  check p = true -> run p (h0, e0, fun _ => false) s' ->
  forall l, h0 l <> None -> fst (fst s') l = h0 l.
Proof. exact no_static_write. Qed.
Print Assumptions C20_no_static_write.

(* the flows of the CURRENT code are accepted ... *)
Theorem C20_current_flows_checked : forallb check current_flows = true.
Proof. reflexivity. Qed.
Print Assumptions C20_current_flows_checked.

(* ... hence none of them writes into the schema tables, the module constants, the endpoint / authz /
   claims configuration or a client record *)
Theorem C20_current_flows_no_static_write : forall p, In p current_flows ->
  forall (h0 : heap) (e0 : env) s', run p (h0, e0, fun _ => false) s' ->
  forall l, h0 l <> None -> fst (fst s') l = h0 l.
Proof.
  intros p Hp h0 e0 s' Hr. apply (no_static_write h0 e0 p s'); [|exact Hr].
  pose proof C20_current_flows_checked as H. rewrite forallb_forall in H. now apply H.
Qed.
Print Assumptions C20_current_flows_no_static_write.

(* ================= the flows regenerated from the source on this run (Gen/AliasGen.v) =================
   harness/py2alias.py re-reads the current source of every function in its TARGETS list and emits one
   instruction list per control-flow path.  The obligations below are re-checked against what the code says now. *)

(* every listed function was translated: nothing fell outside the translator's subset, no callee outside the
   curated table was handed a possibly shared object, no function disappeared *)
Theorem C20_generated_translation_complete : gen_refused = [].
Proof. vm_compute; reflexivity. Qed.
Print Assumptions C20_generated_translation_complete.

(* every path of every translated function is accepted by the ownership checker *)
Theorem C20_generated_flows_checked : forallb g_checked generated_flows = true.
Proof. vm_compute; reflexivity. Qed.
Print Assumptions C20_generated_flows_checked.

(* ... hence no execution of any generated flow, from any heap and register file, writes an object that existed
   before the flow started (a stored client record, provider_info, endpoint kwargs, a class-level table, a module
   constant, a mutable default argument) *)
Theorem C20_generated_flows_no_static_write : forall g, In g generated_flows ->
  forall (h0 : heap) (e0 : env) s', run (g_flow g) (h0, e0, fun _ => false) s' ->
  forall l, h0 l <> None -> fst (fst s') l = h0 l.
Proof. exact (checked_flows_no_static_write generated_flows C20_generated_flows_checked). Qed.
Print Assumptions C20_generated_flows_no_static_write.

(* the return contracts that translated callers assume of translated callees hold on the callees' own paths:
   "returns a new object" (typed F) and, where promised, "that reaches no shared object" (the flow ends untainted);
   e.g. AuthzHandling.usage_rules, whose result becomes grant.usage_rules and is written by set_defaults *)
Theorem C20_generated_return_contracts : forallb g_contract_ok generated_flows = true.
Proof. vm_compute; reflexivity. Qed.
Print Assumptions C20_generated_return_contracts.

(* the generated flows of the hand-transcribed functions agree with the transcriptions in what matters: the
   discipline types what the function returns the same way in both (new object / possibly shared) ... *)
Theorem C20_generated_returns_agree_with_transcribed : forallb (ret_ok generated_flows) ret_rows = true.
Proof. vm_compute; reflexivity. Qed.
Print Assumptions C20_generated_returns_agree_with_transcribed.

(* ... and the locals that the driver probes on the real objects (rows whose local was renamed say nothing) ... *)
Theorem C20_generated_agree_with_transcribed : forallb (agree_ok generated_flows) agree_rows = true.
Proof. vm_compute; reflexivity. Qed.
Print Assumptions C20_generated_agree_with_transcribed.

(* ... and they load the static roots the transcriptions load *)
Definition gen_root_rows : list (string * loc) :=
  [ ("find_token", GR_class_c_param); ("find_token_info", GR_class_c_param);
    ("AuthzHandling.usage_rules", GR_grant_config); ("AuthzHandling.usage_rules", GR_cdb);
    ("Authorization._enforce_resource_indicators_policy", GR_endpoint);
    ("ClaimsInterface._client_claims", GR_cdb); ("ClaimsInterface._client_claims", GR_claims_kwargs);
    ("UserInfo.process_request", GR_ep_config); ("UserInfo.process_request", GR_cdb);
    ("TokenRevocation.process_request", GR_cdb); ("TokenRevocation.process_request", GR_endpoint);
    ("Endpoint.do_response", GR_const_OAUTH2_NOCACHE_HEADERS);
    ("Grant.__init__", GR_const_TOKEN_MAP);
    ("AuthzHandling.__call__", GR_grant_config);
    ("Session.do_back_channel_logout", GR_client_record); ("Session.do_back_channel_logout", GR_provider_info);
    ("ProviderConfiguration.process_request", GR_provider_info) ].
Theorem C20_generated_roots : forallb (root_ok generated_flows) gen_root_rows = true.
Proof. vm_compute; reflexivity. Qed.
Print Assumptions C20_generated_roots.

(* the regenerated part is not empty *)
Example C20_generated_nonempty :
  (Nat.leb 30 gen_functions && Nat.leb 100 (List.length generated_flows) && Nat.leb 300 (n_writes generated_flows))%bool = true.
Proof. vm_compute; reflexivity. Qed.

(* non-vacuity of the discipline: each pre-repair variant is rejected, at the aliasing write *)
Example C20_prefix_flows_rejected : forallb (fun p => negb (check p)) prefix_flows = true.
Proof. reflexivity. Qed.
Example C20_prefix_offending_writes :
  map (fun p => first_bad p (fun _ => S) false 0) prefix_flows
  = [Some 5; Some 4; Some 6; Some 6; Some 5; Some 6; Some 5; Some 4].
Proof. reflexivity. Qed.

(* the pre-repair usage-rules flow really does change a static object: an executed witness.
   Heap: cdb -> client record -> token_usage_rules -> rules of the code type. *)
Definition h_witness : heap := fun l =>
  match l with
  | 0 => Some [(k_client, Ref 10)]
  | 10 => Some [(k_tur, Ref 11)]
  | 11 => Some [(k_code, Ref 12)]
  | 12 => Some [(k_sm, Atom 0)]
  | _ => None
  end.
Example C20_prefix_usage_rules_writes_client_record :
  exists s', run flow_usage_rules_prefix (h_witness, (fun _ => None), fun _ => false) s'
             /\ fst (fst s') 12 <> h_witness 12.
Proof.
  eexists. split.
  - unfold flow_usage_rules_prefix.
    eapply r_cons; [apply s_root; [discriminate|reflexivity]|].
    eapply r_cons; [eapply (s_get 4 3 k_client _ _ _ 0); reflexivity|].
    eapply r_cons; [eapply (s_get 5 4 k_tur _ _ _ 10); reflexivity|].
    eapply r_cons; [eapply (s_get 7 5 k_code _ _ _ 11); reflexivity|].
    eapply r_cons; [eapply (s_setatom 7 k_max 1 _ _ _ 12); reflexivity|].
    apply r_nil.
  - cbn. discriminate.
Qed.

(* an accepted flow has executions (the theorem is not about the empty relation): find_token *)
Definition h_schema : heap := fun l => match l with 2 => Some [(k_scope, Atom 1)] | _ => None end.
Example C20_find_token_runs :
  exists s', run flow_find_token (h_schema, (fun _ => None), fun _ => false) s' /\ fst (fst s') 2 = h_schema 2.
Proof.
  eexists. split.
  - unfold flow_find_token.
    eapply r_cons; [eapply (s_new 0 _ _ _ 100); reflexivity|].
    eapply r_cons; [eapply (s_setatom 0 k_tok 5 _ _ _ 100); reflexivity|].
    eapply r_cons; [eapply (s_get 1 0 k_tok _ _ _ 100); reflexivity|].
    eapply r_cons; [eapply (s_del 0 k_tok _ _ _ 100); reflexivity|].
    eapply r_cons; [apply s_root; [discriminate|reflexivity]|].
    eapply r_cons; [eapply (s_new 3 _ _ _ 101); reflexivity|].
    eapply r_cons; [eapply (s_update 3 2 _ _ _ 101 _ 2); reflexivity|].
    eapply r_cons; [eapply (s_set 0 k_c_param 3 _ _ _ 100); reflexivity|].
    eapply r_cons; [eapply (s_setatom 3 k_tok 9 _ _ _ 101); reflexivity|].
    apply r_nil.
  - reflexivity.
Qed.

(* the discipline is conservative: the harmless code-order composite is rejected (covered by the probes
   and the snapshot diff instead) *)
Example C20_conservative : check flow_code_order_composite = false.
Proof. reflexivity. Qed.

(* --- round 11 --- *)
(* HISTORIES and ORDER.  One long-lived process serves request after request; each flow starts from the heap its
   predecessors left, with any register file.  (Model/AliasHist.v, Proofs/AliasHist_proofs.v) *)
From Verif Require Import Model.AliasHist Proofs.AliasHist_proofs.

(* after ANY history of accepted flows, every object that existed when the process started serving - schema tables,
   constants, endpoint / handler objects with all their attributes, client records - is what it was *)
Theorem C20_history_no_static_write : forall ps h0 h',
  all_checked ps -> run_hist ps h0 h' -> static_part h0 h'.
Proof. exact hist_no_static_write. Qed.
Print Assumptions C20_history_no_static_write.

(* ORDER INDEPENDENCE: two histories of accepted flows - other clients, other order, other length - leave the same
   static objects for the next request *)
Theorem C20_history_order_independent : forall ps1 ps2 h0 h1 h2,
  all_checked ps1 -> all_checked ps2 -> run_hist ps1 h0 h1 -> run_hist ps2 h0 h2 ->
  forall l, h0 l <> None -> h1 l = h2 l.
Proof. exact hist_order_independent. Qed.
Print Assumptions C20_history_order_independent.

(* ... instantiated with the flows regenerated from the current source: any sequence of paths of the translated
   functions (token handlers included), in any order *)
Theorem C20_generated_history_no_static_write : forall ps h0 h',
  from_flows generated_flows ps -> run_hist ps h0 h' -> static_part h0 h'.
Proof. exact (generated_hist_no_static_write generated_flows C20_generated_flows_checked). Qed.
Print Assumptions C20_generated_history_no_static_write.

Theorem C20_generated_order_independent : forall ps1 ps2 h0 h1 h2,
  from_flows generated_flows ps1 -> from_flows generated_flows ps2 -> run_hist ps1 h0 h1 -> run_hist ps2 h0 h2 ->
  forall l, h0 l <> None -> h1 l = h2 l.
Proof. exact (generated_order_independent generated_flows C20_generated_flows_checked). Qed.
Print Assumptions C20_generated_order_independent.

(* the long-lived token handlers are among the translated functions: minting and reading a token with the JWT, the
   default and the ID Token handler, and the dispatcher; every path loads the handler object as a static root, so
   `self.<attr> = ...` in one of them is a write through a root and C20_generated_flows_checked stops compiling *)
Definition gen_handler_functions : list string :=
  [ "JWTToken.__call__"; "JWTToken.get_payload"; "JWTToken.info"; "JWTToken.is_expired"; "JWTToken.load_custom_claims";
    "DefaultToken.__call__"; "DefaultToken.split_token"; "DefaultToken.info"; "DefaultToken.is_expired";
    "IDToken.__call__"; "IDToken.sign_encrypt"; "IDToken.payload"; "IDToken.info" ]%string.
Theorem C20_generated_token_handlers_covered :
  (forallb (fun_covered generated_flows GR_token_handler_obj) gen_handler_functions
   && forallb (fun_covered generated_flows GR_token_handler) ["TokenHandler.get_handler"; "TokenHandler.info"]%string)%bool = true.
Proof. vm_compute; reflexivity. Qed.
Print Assumptions C20_generated_token_handlers_covered.

(* non-vacuity: a flow that keeps a helper object it made on a static root (the shape of a per-handler memo) is
   rejected whatever precedes the store, also when the stored value is immutable *)
Theorem C20_root_store_rejected : forall pre r x k y post,
  check (pre ++ ILoadRoot x r :: ISet x k y :: post) = false.
Proof. exact check_rejects_root_store. Qed.
Print Assumptions C20_root_store_rejected.
Theorem C20_root_store_atom_rejected : forall pre r x k a post,
  check (pre ++ ILoadRoot x r :: ISetAtom x k a :: post) = false.
Proof. exact check_rejects_root_store_atom. Qed.
Print Assumptions C20_root_store_atom_rejected.

(* a history has executions (the theorems are not about the empty relation) *)
Example C20_history_runs : exists h', run_hist [flow_find_token] h_schema h' /\ h' 2 = h_schema 2.
Proof.
  destruct C20_find_token_runs as [s1 [R1 E1]]. exists (fst (fst s1)).
  split; [eapply rh_cons; [exact R1 | apply rh_nil] | exact E1].
Qed.
(* --- end round 11 --- *)
