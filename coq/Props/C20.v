(* Props/C20.v — property C20: handling requests never alters static schemas, defaults or client
   configuration.  Only statements, each closed by `exact <lemma>` (or `vm_compute; reflexivity` for the
   finite obligations over tables), with Print Assumptions.
   Partial: Python aliasing is proved for the hand-transcribed flows (Model/AliasFlows.v) and for the flows that
   harness/py2alias.py regenerates from the CURRENT source of the listed functions on every run
   (Gen/AliasGen.v); every other in-place write is the business of the deep snapshot diff of
   harness/drv_C20.py (a check, not a theorem). *)
From Coq Require Import List Arith Bool String.
From Verif Require Import Lib.Heap Model.Alias Model.AliasFlows Model.AliasTie Gen.AliasGen Proofs.Alias_proofs.
Import ListNotations.

(* Soundness of the ownership discipline: for EVERY instruction list accepted by the checker, EVERY
   initial heap (all static objects, whatever they reference) and register file, and EVERY execution
   (deepcopy being any allocation-only closed copy): each object that existed before the flow started is
   unchanged afterwards. *)
Theorem C20_no_static_write : forall (h0 : heap) (e0 : env) p s',
  check p = true -> run p (h0, e0, fun _ => false) s' ->
  forall l, h0 l <> None -> fst (fst s') l = h0 l.
Proof. exact no_static_write. Qed.
Print Assumptions C20_no_static_write.

(* the flows of the CURRENT code are accepted ... *)
Theorem C20_current_flows_checked : forallb check current_flows = true.
Proof. reflexivity. Qed.
Print Assumptions C20_current_flows_checked.

(* ... hence none of them writes into the schema tables, the module constants, the endpoint / authz /
   claims configuration or a client record *)
Theorem C20_current_flows_no_static_write : forall p, In p current_flows ->
  forall (h0 : heap) (e0 : env) s', run p (h0, e0, fun _ => false) s' ->
  forall l, h0 l <> None -> fst (fst s') l = h0 l.
Proof.
  intros p Hp h0 e0 s' Hr. apply (no_static_write h0 e0 p s'); [|exact Hr].
  pose proof C20_current_flows_checked as H. rewrite forallb_forall in H. now apply H.
Qed.
Print Assumptions C20_current_flows_no_static_write.

(* ================= the flows regenerated from the source on this run (Gen/AliasGen.v) =================
   harness/py2alias.py re-reads the current source of every function in its TARGETS list and emits one
   instruction list per control-flow path.  The obligations below are re-checked against what the code says now. *)

(* every listed function was translated: nothing fell outside the translator's subset, no callee outside the
   curated table was handed a possibly shared object, no function disappeared *)
Theorem C20_generated_translation_complete : gen_refused = [].
Proof. vm_compute; reflexivity. Qed.
Print Assumptions C20_generated_translation_complete.

(* every path of every translated function is accepted by the ownership checker *)
Theorem C20_generated_flows_checked : forallb g_checked generated_flows = true.
Proof. vm_compute; reflexivity. Qed.
Print Assumptions C20_generated_flows_checked.

(* ... hence no execution of any generated flow, from any heap and register file, writes an object that existed
   before the flow started (a stored client record, provider_info, endpoint kwargs, a class-level table, a module
   constant, a mutable default argument) *)
Theorem C20_generated_flows_no_static_write : forall g, In g generated_flows ->
  forall (h0 : heap) (e0 : env) s', run (g_flow g) (h0, e0, fun _ => false) s' ->
  forall l, h0 l <> None -> fst (fst s') l = h0 l.
Proof. exact (checked_flows_no_static_write generated_flows C20_generated_flows_checked). Qed.
Print Assumptions C20_generated_flows_no_static_write.

(* the return contracts that translated callers assume of translated callees hold on the callees' own paths:
   "returns a new object" (typed F) and, where promised, "that reaches no shared object" (the flow ends untainted);
   e.g. AuthzHandling.usage_rules, whose result becomes grant.usage_rules and is written by set_defaults *)
Theorem C20_generated_return_contracts : forallb g_contract_ok generated_flows = true.
Proof. vm_compute; reflexivity. Qed.
Print Assumptions C20_generated_return_contracts.

(* the generated flows of the hand-transcribed functions agree with the transcriptions in what matters: the
   discipline types what the function returns the same way in both (new object / possibly shared) ... *)
Theorem C20_generated_returns_agree_with_transcribed : forallb (ret_ok generated_flows) ret_rows = true.
Proof. vm_compute; reflexivity. Qed.
Print Assumptions C20_generated_returns_agree_with_transcribed.

(* ... and the locals that the driver probes on the real objects (rows whose local was renamed say nothing) ... *)
Theorem C20_generated_agree_with_transcribed : forallb (agree_ok generated_flows) agree_rows = true.
Proof. vm_compute; reflexivity. Qed.
Print Assumptions C20_generated_agree_with_transcribed.

(* ... and they load the static roots the transcriptions load *)
Definition gen_root_rows : list (string * loc) :=
  [ ("find_token", GR_class_c_param); ("find_token_info", GR_class_c_param);
    ("AuthzHandling.usage_rules", GR_grant_config); ("AuthzHandling.usage_rules", GR_cdb);
    ("Authorization._enforce_resource_indicators_policy", GR_endpoint);
    ("ClaimsInterface._client_claims", GR_cdb); ("ClaimsInterface._client_claims", GR_claims_kwargs);
    ("UserInfo.process_request", GR_ep_config); ("UserInfo.process_request", GR_cdb);
    ("TokenRevocation.process_request", GR_cdb); ("TokenRevocation.process_request", GR_endpoint);
    ("Endpoint.do_response", GR_const_OAUTH2_NOCACHE_HEADERS);
    ("Grant.__init__", GR_const_TOKEN_MAP);
    ("AuthzHandling.__call__", GR_grant_config);
    ("Session.do_back_channel_logout", GR_client_record); ("Session.do_back_channel_logout", GR_provider_info);
    ("ProviderConfiguration.process_request", GR_provider_info) ].
Theorem C20_generated_roots : forallb (root_ok generated_flows) gen_root_rows = true.
Proof. vm_compute; reflexivity. Qed.
Print Assumptions C20_generated_roots.

(* the regenerated part is not empty *)
Example C20_generated_nonempty :
  (Nat.leb 30 gen_functions && Nat.leb 100 (List.length generated_flows) && Nat.leb 300 (n_writes generated_flows))%bool = true.
Proof. vm_compute; reflexivity. Qed.

(* non-vacuity of the discipline: each pre-repair variant is rejected, at the aliasing write *)
Example C20_prefix_flows_rejected : forallb (fun p => negb (check p)) prefix_flows = true.
Proof. reflexivity. Qed.
Example C20_prefix_offending_writes :
  map (fun p => first_bad p (fun _ => S) false 0) prefix_flows
  = [Some 5; Some 4; Some 6; Some 6; Some 5; Some 6; Some 5; Some 4].
Proof. reflexivity. Qed.

(* the pre-repair usage-rules flow really does change a static object: an executed witness.
   Heap: cdb -> client record -> token_usage_rules -> rules of the code type. *)
Definition h_witness : heap := fun l =>
  match l with
  | 0 => Some [(k_client, Ref 10)]
  | 10 => Some [(k_tur, Ref 11)]
  | 11 => Some [(k_code, Ref 12)]
  | 12 => Some [(k_sm, Atom 0)]
  | _ => None
  end.
Example C20_prefix_usage_rules_writes_client_record :
  exists s', run flow_usage_rules_prefix (h_witness, (fun _ => None), fun _ => false) s'
             /\ fst (fst s') 12 <> h_witness 12.
Proof.
  eexists. split.
  - unfold flow_usage_rules_prefix.
    eapply r_cons; [apply s_root; [discriminate|reflexivity]|].
    eapply r_cons; [eapply (s_get 4 3 k_client _ _ _ 0); reflexivity|].
    eapply r_cons; [eapply (s_get 5 4 k_tur _ _ _ 10); reflexivity|].
    eapply r_cons; [eapply (s_get 7 5 k_code _ _ _ 11); reflexivity|].
    eapply r_cons; [eapply (s_setatom 7 k_max 1 _ _ _ 12); reflexivity|].
    apply r_nil.
  - cbn. discriminate.
Qed.

(* an accepted flow has executions (the theorem is not about the empty relation): find_token *)
Definition h_schema : heap := fun l => match l with 2 => Some [(k_scope, Atom 1)] | _ => None end.
Example C20_find_token_runs :
  exists s', run flow_find_token (h_schema, (fun _ => None), fun _ => false) s' /\ fst (fst s') 2 = h_schema 2.
Proof.
  eexists. split.
  - unfold flow_find_token.
    eapply r_cons; [eapply (s_new 0 _ _ _ 100); reflexivity|].
    eapply r_cons; [eapply (s_setatom 0 k_tok 5 _ _ _ 100); reflexivity|].
    eapply r_cons; [eapply (s_get 1 0 k_tok _ _ _ 100); reflexivity|].
    eapply r_cons; [eapply (s_del 0 k_tok _ _ _ 100); reflexivity|].
    eapply r_cons; [apply s_root; [discriminate|reflexivity]|].
    eapply r_cons; [eapply (s_new 3 _ _ _ 101); reflexivity|].
    eapply r_cons; [eapply (s_update 3 2 _ _ _ 101 _ 2); reflexivity|].
    eapply r_cons; [eapply (s_set 0 k_c_param 3 _ _ _ 100); reflexivity|].
    eapply r_cons; [eapply (s_setatom 3 k_tok 9 _ _ _ 101); reflexivity|].
    apply r_nil.
  - reflexivity.
Qed.

(* the discipline is conservative: the harmless code-order composite is rejected (covered by the probes
   and the snapshot diff instead) *)
Example C20_conservative : check flow_code_order_composite = false.
Proof. reflexivity. Qed.
