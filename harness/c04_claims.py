"""C04 helper - ONE ACCEPTED STRING, TWO READERS: what a JWT-formatted access / refresh token says about itself.

A JWT-formatted token is resolved by the provider through the session id inside it (session manager, introspection) and by
everybody who validates the signature with the provider's public keys and reads the claims (a resource server: client_id,
sub, scope, aud, sid, token_class, iss).  Real providers with a JWT handler in the access and / or the refresh slot (OIDC and
plain OAuth2, public and pairwise subjects, one kwargs object shared by both JWT handlers) hand out tokens on every minting
path of the token endpoint:

  code         redemption of an authorization code
  refresh      refresh (also with a narrower scope)
  xsame        RFC 8693 token exchange asked for by the client the subject token belongs to (access / refresh token as subject,
               access / refresh token requested, down-scoped, audience- / resource-restricted)
  xother       the same asked for by ANOTHER client (the provider makes an exchange session for that client)
  chain        exchange of an exchanged token by a third client / by the same second client / back by the first client,
               refresh with a refresh token that was obtained by exchange
  cc           client_credentials (OAuth2 providers)

with several users and clients live at once.  For every token handed out the views are compared:

  handed    what the harness did: who authenticated at the token endpoint and received the token, which user logged in for
            the session at the root of the chain, which scope the token response stated, which audience was asked for
  provider  SessionManager.get_session_info_by_token(value, handler_key=class): user, client, grant (sub), token object
  introsp.  the introspection endpoint's answer to the client that received the token
  claims    the payload of the JWT, validated with the provider's public keys

Oracle (property text: an accepted token resolves to exactly the user, client and grant it was minted for): the provider
resolves the value to the handed user and client; the introspection answer names that client and the grant's sub; the `sid`
claim is a session id of that very (user, client, grant); every claim that names a party or a right - client_id, sub, scope,
aud - where stated, is that of this session (client handed to, the grant's sub, the scope the response stated, the audience on
record); iss is the provider, token_class the slot's class; no OTHER live session has the (client_id, sub) the claims state.
The same views are compared with Model/TokenClaims.v (chk_claims: grant_of path, payload_arguments, introspection_of)."""
import json

import srv
from engine import coq_str, coq_list, coq_opt

XG = "urn:ietf:params:oauth:grant-type:token-exchange"
TT = {"access_token": "urn:ietf:params:oauth:token-type:access_token", "refresh_token": "urn:ietf:params:oauth:token-type:refresh_token"}
CLIENTS = ["client_1", "client_2", "client_12"]       # "client_1" is a proper prefix of "client_12"
USERS = ["diana", "babs", "dian"]                     # "dian" of "diana"
IMPORTS = ["Lib.Base", "Lib.PyStr", "Lib.Crypto", "Model.Lv", "Model.TokenFmt", "Model.TokenClaims"]

AUTHZ = {"class": "idpyoidc.server.authz.AuthzHandling", "kwargs": {"grant_config": {"usage_rules": {
    "authorization_code": {"supports_minting": ["access_token", "refresh_token", "id_token"], "max_usage": 1, "expires_in": 300},
    "access_token": {"supports_minting": ["access_token", "refresh_token"], "expires_in": 600},
    "refresh_token": {"supports_minting": ["access_token", "refresh_token", "id_token"], "expires_in": 3600}},
    "expires_in": 43200}}}

# (oidc, jwt_access, jwt_refresh, alias_kwargs, clients with pairwise subjects)
WORLDS = [
    (True, True, False, False, ()),
    (True, True, True, True, ("client_2",)),
    (False, True, True, False, ()),
    (False, False, True, False, ("client_1", "client_12")),
    (True, True, True, False, ("client_1", "client_2", "client_12")),
    (False, True, False, False, ("client_2",)),
]

SCOPES = {
    "client_1": [["openid", "email", "offline_access"], ["openid", "profile", "email", "offline_access"]],
    "client_2": [["openid", "email", "address", "offline_access"], ["openid", "email", "offline_access", "phone"]],
    "client_12": [["openid", "email", "profile", "offline_access"], ["openid", "email", "offline_access"]],
}


class World:
    def __init__(self, ctx, spec):
        self.ctx, self.spec = ctx, spec
        oidc, jwt_access, jwt_refresh, alias, pairwise = spec
        self.oidc = oidc
        self.jwt = {"access_token": jwt_access, "refresh_token": jwt_refresh}
        over = {c: {} for c in CLIENTS}
        over["client_1"]["allowed_scopes"] = ["openid", "profile", "email", "offline_access"]
        over["client_2"]["allowed_scopes"] = ["openid", "email", "address", "offline_access", "phone"]
        for c in pairwise:
            over[c]["subject_type"] = "pairwise"
            over[c]["sector_identifier_uri"] = "https://%s.example.com/sector" % c
        self.server = srv.make_server(clients=CLIENTS, client_over=over, oidc=oidc, jwt_access=jwt_access, jwt_refresh=jwt_refresh,
                                      alias_kwargs=alias, authz=json.loads(json.dumps(AUTHZ)),
                                      endpoints={"introspection": {"enforce_audience_restriction": False}})
        self.clock = srv.Clock(1_700_000_000).install()
        self.context = self.server.context
        self.sm = self.context.session_manager
        self.ep = {k: self.server.get_endpoint(k) for k in ("authorization", "token", "introspection")}
        # what a resource server has: the provider's public keys
        from cryptojwt.key_jar import KeyJar
        self.rs_keyjar = KeyJar()
        self.rs_keyjar.import_jwks(self.server.keyjar.export_jwks(issuer_id=""), srv.ISSUER)
        self.handed = []      # every token handed out
        self.roots = []       # the sessions users logged in for
        self.n = 0

    def close(self):
        self.clock.uninstall()

    def secret(self, c):
        return self.context.cdb[c]["client_secret"]

    # ---- the token endpoint
    def _token(self, client, body):
        body = dict(body, client_id=client, client_secret=self.secret(client))
        ep = self.ep["token"]
        try:
            req = ep.parse_request(body)
            if "error" in req:
                return None, req.to_dict()
            resp = ep.process_request(req)
        except Exception as e:      # noqa: a refusal by exception is a refusal
            return None, {"error": "exception", "error_description": "%s: %s" % (type(e).__name__, e)}
        if not isinstance(resp, dict) or "response_args" not in resp:
            return None, (resp.to_dict() if hasattr(resp, "to_dict") else dict(resp))
        ra = resp["response_args"]
        return (ra.to_dict() if hasattr(ra, "to_dict") else dict(ra)), None

    @staticmethod
    def _scope_of(ra, default):
        sc = ra.get("scope")
        if sc is None:
            return list(default)
        return sc.split(" ") if isinstance(sc, str) else list(sc)

    def hand(self, value, cls, client, root, path, how, scope, resources, parent=None):
        t = {"n": len(self.handed), "value": value, "cls": cls, "client": client, "root": root, "path": path, "how": how,
             "scope": list(scope), "resources": sorted(resources or []), "parent": parent}
        self.handed.append(t)
        self.ctx.count("claims:minted:%s:%s" % (how.split("+")[0], cls))
        return t

    def login(self, user, client, scope):
        """authorization endpoint + code redemption: a session of (user, client)"""
        srv.set_user(self.server, user)
        self.n += 1
        req = {"client_id": client, "redirect_uri": "https://%s.example.com/cb" % client, "scope": " ".join(scope), "state": "st-%d" % self.n,
               "response_type": "code", "nonce": "nonce-%d" % self.n, "prompt": "consent"}
        ep = self.ep["authorization"]
        resp = ep.process_request(ep.parse_request(req))
        code = resp["response_args"]["code"]
        ra, err = self._token(client, {"grant_type": "authorization_code", "code": code, "redirect_uri": req["redirect_uri"]})
        if err:
            raise RuntimeError("code of (%s, %s) not redeemed: %r" % (user, client, err))
        root = {"k": len(self.roots), "user": user, "client": client, "scope": scope}
        self.roots.append(root)
        sc = self._scope_of(ra, scope)
        path = ("authz", root["k"])
        root["access"] = self.hand(ra["access_token"], "access_token", client, root, path, "code", sc, [])
        root["refresh"] = self.hand(ra["refresh_token"], "refresh_token", client, root, path, "code", sc, []) if "refresh_token" in ra else None
        return root

    def refresh(self, tok, scope=None):
        body = {"grant_type": "refresh_token", "refresh_token": tok["value"]}
        if scope:
            body["scope"] = " ".join(scope)
        ra, err = self._token(tok["client"], body)
        if err:
            self.ctx.count("claims:refused:refresh")
            return None, None
        sc = self._scope_of(ra, scope or tok["scope"])
        how = ("chain-refresh" if tok["path"][0] == "x" else "refresh") + ("+narrow" if scope else "")
        a = self.hand(ra["access_token"], "access_token", tok["client"], tok["root"], tok["path"], how, sc, [], tok["n"])
        r = self.hand(ra["refresh_token"], "refresh_token", tok["client"], tok["root"], tok["path"], how, sc, [], tok["n"]) if "refresh_token" in ra else None
        return a, r

    def exchange(self, tok, by, want="access_token", scope=None, audience=None, resource=None):
        body = {"grant_type": XG, "subject_token": tok["value"], "subject_token_type": TT[tok["cls"]], "requested_token_type": TT[want]}
        if scope:
            body["scope"] = " ".join(scope)
        if audience:
            body["audience"] = list(audience)
        if resource:
            body["resource"] = list(resource)
        ra, err = self._token(by, body)
        other = by != tok["client"]
        if err:
            self.ctx.count("claims:refused:%s:%s" % ("xother" if other else "xsame", err.get("error")))
            return None
        path = ("x", tok["path"], by) if other else tok["path"]
        kind = ("chain-" if tok["path"][0] == "x" else "") + ("xother" if other else "xsame")
        how = kind + ("+scope" if scope else "") + ("+aud" if audience else "") + ("+res" if resource else "") + ("+from-refresh" if tok["cls"] == "refresh_token" else "")
        # the library: a resource is only on record together with an audience (resources = audience, or both)
        res = (list(audience) + list(resource or [])) if audience else []
        return self.hand(ra["access_token"], want, by, tok["root"], path, how, self._scope_of(ra, scope or tok["scope"]), sorted(set(res)), tok["n"])

    def client_credentials(self, client):
        ra, err = self._token(client, {"grant_type": "client_credentials"})
        if err:
            self.ctx.count("claims:refused:cc")
            return None
        root = {"k": None, "user": None, "client": client, "scope": []}
        return self.hand(ra["access_token"], "access_token", client, root, ("cc", client), "cc", self._scope_of(ra, []), [])

    # ---- the views
    def provider_view(self, t):
        si = self.sm.get_session_info_by_token(t["value"], grant=True, handler_key=t["cls"])
        g = si["grant"]
        tok = g.get_token(t["value"])
        return {"user": si["user_id"], "client": si["client_id"], "grant_id": si["grant_id"], "sub": g.sub, "kind": type(g).__name__,
                "known": tok is not None, "active": bool(tok is not None and tok.is_active()),
                "scope": list(tok.scope or []) if tok is not None else None,
                "aud": sorted((tok.resources if tok is not None else None) or g.resources or [])}

    def introspection_view(self, t):
        ep = self.ep["introspection"]
        req = ep.parse_request({"token": t["value"], "client_id": t["client"], "client_secret": self.secret(t["client"])})
        resp = ep.process_request(req)
        ra = resp["response_args"]
        ra = ra.to_dict() if hasattr(ra, "to_dict") else dict(ra)
        if not ra.get("active"):
            return None
        sc = ra.get("scope")
        aud = ra.get("aud")
        return {"client": ra.get("client_id"), "sub": ra.get("sub"), "scope": (sc.split(" ") if isinstance(sc, str) else list(sc or [])),
                "aud": None if aud is None else sorted([aud] if isinstance(aud, str) else aud), "iss": ra.get("iss"), "token_class": ra.get("token_class")}

    def claims_view(self, t):
        """a resource server: signature with the provider's public keys, then the payload"""
        if not self.jwt[t["cls"]]:
            return None
        from cryptojwt.jwt import JWT
        payload = JWT(key_jar=self.rs_keyjar, allowed_sign_algs=["RS256", "ES256"]).unpack(t["value"])
        payload = payload.to_dict() if hasattr(payload, "to_dict") else dict(payload)
        sc = payload.get("scope")
        aud = payload.get("aud")
        try:
            branch = list(self.sm.decrypt_branch_id(payload["sid"]))
        except Exception as e:      # noqa
            branch = ["undecipherable: %s" % type(e).__name__]
        return {"client": payload.get("client_id"), "sub": payload.get("sub"),
                "scope": None if sc is None else (sc.split(" ") if isinstance(sc, str) else list(sc)),
                "aud": None if aud is None else sorted([aud] if isinstance(aud, str) else aud),
                "iss": payload.get("iss"), "token_class": payload.get("token_class"), "branch": branch}

    # ---- the model's description of a path
    def root_sub(self, root):
        """the subject of a session as the client that logged the user in was told (introspection of its first access token)"""
        if "sub" not in root:
            i = self.introspection_view(root["access"])
            root["sub"] = i["sub"] if i else ""
        return root["sub"]

    def coq_path(self, path):
        if path[0] == "authz":
            r = self.roots[path[1]]
            return "PAuthz %s %s %s" % (coq_str(r["user"]), coq_str(r["client"]), coq_str(self.root_sub(r)))
        if path[0] == "cc":
            return "PCc %s" % coq_str(path[1])
        return "PExchange (%s) %s" % (self.coq_path(path[1]), coq_str(path[2]))

    @staticmethod
    def path_text(path):
        if path[0] == "authz":
            return "authz#%d" % path[1]
        if path[0] == "cc":
            return "cc(%s)" % path[1]
        return "%s -> exchange by %s" % (World.path_text(path[1]), path[2])

    # ---- judge one handed-out token
    def examine(self, t, cases):
        ctx = self.ctx
        rec = {"kind": "claims", "world_index": self.index, "sessions": self.n_sessions, "world": list(self.spec[:4]) + [list(self.spec[4])], "how": t["how"], "class": t["cls"], "client": t["client"],
               "user": t["root"]["user"], "path": self.path_text(t["path"]), "scope": t["scope"], "resources": t["resources"],
               "jwt": self.jwt[t["cls"]], "token": t["n"]}
        try:
            p = self.provider_view(t)
        except Exception as e:      # noqa
            ctx.violation("genuine-refused", "a %s handed out by %s does not resolve at the provider: %s: %s" % (t["cls"], t["how"], type(e).__name__, e), rec)
            return
        i = self.introspection_view(t)
        try:
            c = self.claims_view(t)
        except Exception as e:      # noqa
            ctx.violation("claims-unreadable", "the JWT %s handed out by %s does not validate with the provider's public keys: %s: %s"
                          % (t["cls"], t["how"], type(e).__name__, e), rec)
            return
        rec.update({"provider": p, "introspection": i, "claims": c})
        ctx.case_seen(rec, nontrivial=True)
        ctx.count("claims:examined:%s:%s:%s" % (t["how"].split("+")[0], t["cls"], "jwt" if c is not None else "opaque"))
        who = "%s %s of (%s, %s) [%s]" % (t["how"], t["cls"], t["root"]["user"], t["client"], rec["path"])
        # the provider's own resolution
        exp_user = t["root"]["user"]
        if p["client"] != t["client"] or (exp_user is not None and p["user"] != exp_user) or not p["known"]:
            ctx.violation("resolves-elsewhere", "%s: the provider resolves the value to (%s, %s)%s" % (who, p["user"], p["client"], "" if p["known"] else ", a grant that does not hold it"), rec)
        if t["path"][0] != "cc" and p["sub"] != self.root_sub(t["root"]):
            ctx.violation("session-subject", "%s: the session the value resolves to has sub %r, the session at the root of the chain %r" % (who, p["sub"], self.root_sub(t["root"])), rec)
        # the introspection endpoint
        if i is None:
            if p["active"]:
                ctx.violation("introspection-party", "%s: an active token the provider resolves gets no active introspection answer for its own client" % who, rec)
        else:
            if i["client"] != t["client"] or i["sub"] != p["sub"]:
                ctx.violation("introspection-party", "%s: introspection states client %r sub %r, the session is (%s, sub %r)" % (who, i["client"], i["sub"], t["client"], p["sub"]), rec)
            if sorted(i["scope"]) != sorted(t["scope"]):
                ctx.violation("introspection-scope", "%s: introspection states scope %r, the token response stated %r" % (who, i["scope"], t["scope"]), rec)
        # the claims
        if c is not None:
            if c["iss"] != srv.ISSUER or c["token_class"] != t["cls"]:
                ctx.violation("claims-class", "%s: the claims state iss %r token_class %r" % (who, c["iss"], c["token_class"]), rec)
            if c["branch"] != [p["user"], p["client"], p["grant_id"]]:
                ctx.violation("claims-session", "%s: the sid claim is a session id of %r, the provider resolves the value to %r" % (who, c["branch"], [p["user"], p["client"], p["grant_id"]]), rec)
            if c["client"] is not None and (c["client"] != t["client"] or c["client"] != p["client"]):
                ctx.violation("claims-party", "%s: the provider (and introspection) resolve the value to client %r, the claims inside the accepted JWT say client_id %r"
                              % (who, p["client"], c["client"]), rec)
            if c["sub"] is not None and c["sub"] != p["sub"]:
                ctx.violation("claims-party", "%s: the session has sub %r, the claims inside the accepted JWT say sub %r" % (who, p["sub"], c["sub"]), rec)
            if c["client"] is not None and c["sub"] is not None:
                # with many sessions live: the pair the claims state is not the pair of ANOTHER live session
                for o in self.handed:
                    if o is t or o.get("pview") is None:
                        continue
                    if (o["pview"]["client"], o["pview"]["sub"]) == (c["client"], c["sub"]) and (o["pview"]["user"], o["pview"]["client"]) != (p["user"], p["client"]):
                        ctx.violation("claims-party", "%s: the claims (client_id %r, sub %r) are those of the live session (%s, %s)"
                                      % (who, c["client"], c["sub"], o["pview"]["user"], o["pview"]["client"]), rec)
                        break
            if c["scope"] is not None and (sorted(c["scope"]) != sorted(t["scope"]) or (p["scope"] is not None and sorted(c["scope"]) != sorted(p["scope"]))):
                ctx.violation("claims-scope", "%s: the claims state scope %r, the token response %r, the token on record %r" % (who, c["scope"], t["scope"], p["scope"]), rec)
            if c["aud"] is not None and c["aud"] != p["aud"]:
                ctx.violation("claims-audience", "%s: the claims state aud %r, the audience on record is %r" % (who, c["aud"], p["aud"]), rec)
        # the model on the same point
        strs = lambda l: coq_list([coq_str(x) for x in l], "pystr")
        oc = None
        if c is not None:
            oc = "(%s, %s, %s, %s)" % (coq_opt(c["client"], coq_str, "pystr"), coq_opt(c["sub"], coq_str, "pystr"), strs(c["scope"] or []),
                                       coq_opt(c["aud"], strs, "(list pystr)"))
        oi = None
        if i is not None:
            oi = "(%s, %s, %s, %s)" % (coq_str(i["client"] or ""), coq_str(i["sub"] or ""), strs(i["scope"]), coq_opt(i["aud"], strs, "(list pystr)"))
        term = "(%s, (%s, %s), (%s, %s), %s, %s)" % (self.coq_path(t["path"]), strs(t["scope"]), strs(t["resources"]), coq_str(p["user"]), coq_str(p["client"]),
                                                    coq_opt(oc, lambda x: x, "oclaims"), coq_opt(oi, lambda x: x, "ointro"))
        cases.append((term, rec))


def narrow(scope, rng):
    """a proper, non-empty subset of a granted scope that keeps offline_access out of the way"""
    pool = [s for s in scope if s not in ("offline_access",)]
    k = rng.randint(1, max(1, len(pool) - 1))
    return sorted(rng.sample(pool, k), key=scope.index)


def run_world(ctx, index, n_sessions):
    """the world WORLDS[index] with n_sessions logins; everything random is drawn from a generator of its own (seed, index):
    a replay runs the recorded world alone"""
    import random
    spec = WORLDS[index]
    rng = random.Random("%d:claims:%d" % (ctx.seed, index))
    w = World(ctx, spec)
    w.index, w.n_sessions = index, n_sessions
    cases = []
    try:
        pairs = [(u, c) for u in USERS for c in CLIENTS]
        rng.shuffle(pairs)
        # two users at one client and one user at two clients are always among the live sessions
        pairs = [("diana", "client_1"), ("babs", "client_1"), ("diana", "client_2")] + [p for p in pairs if p not in
                                                                                         (("diana", "client_1"), ("babs", "client_1"), ("diana", "client_2"))]
        for k, (user, client) in enumerate(pairs[:n_sessions]):
            w.login(user, client, SCOPES[client][k % 2])
        for root in list(w.roots):
            me = root["client"]
            others = [c for c in CLIENTS if c != me]
            rng.shuffle(others)
            at, rt = root["access"], root["refresh"]
            # refresh, plain and narrowed
            if rt is not None:
                a2, r2 = w.refresh(rt)
                w.refresh(r2 or rt, scope=narrow(rt["scope"], rng))
            # exchanges asked for by the owner and by another client: plain, down-scoped, audience / resource restricted,
            # a refresh token as subject, a refresh token requested
            auds = [["https://rs.example.org/api"], ["https://rs.example.org/api", "rs_b"], [others[0]]]
            for by in (me, others[0]):
                x = w.exchange(at, by)
                w.exchange(at, by, scope=narrow(at["scope"], rng))
                w.exchange(at, by, audience=rng.choice(auds))
                w.exchange(at, by, audience=rng.choice(auds), resource=["https://api.example.org/r"], scope=narrow(at["scope"], rng))
                xr = w.exchange(at, by, want="refresh_token")
                if rt is not None:
                    w.exchange(rt, by)
                # chains
                if x is not None and by != me:
                    w.exchange(x, others[1])                      # on to a third client
                    w.exchange(x, by, scope=narrow(x["scope"], rng))   # the second client again, in its exchange session
                    w.exchange(x, me)                              # back to the first client
                if xr is not None and by != me:
                    a3, r3 = w.refresh(xr)
                    if a3 is not None:
                        w.exchange(a3, others[1], audience=rng.choice(auds))
        if not w.oidc:
            for c in CLIENTS:
                w.client_credentials(c)
        order = list(w.handed)
        # every live session's view first (cross-resolution is judged among all of them), then token by token
        for t in order:
            try:
                t["pview"] = w.provider_view(t)
            except Exception:      # noqa: reported by examine
                t["pview"] = None
        for t in order:
            w.examine(t, cases)
    finally:
        w.close()
    return cases


def claims_oracle(ctx):
    n = 4 if ctx.quick else len(WORLDS)
    cases = []
    for k in range(n):
        cases += run_world(ctx, k, 4 if ctx.quick else 9)
    ctx.coq_check_cases(IMPORTS, "claims_case", "chk_claims", cases, shard=150, label="claims", diag="diag_claims")
    return cases


def replay_case(ctx, case):
    """the recorded world alone, on a fresh provider; the views of the recorded token are printed"""
    k, n = case["world_index"], case["sessions"]
    oidc, ja, jr, alias, pairwise = WORLDS[k]
    print("replaying world %d (%s provider, JWT access %s, JWT refresh %s, shared handler kwargs %s, pairwise subjects for %s), %d logins"
          % (k, "OIDC" if oidc else "OAuth2", ja, jr, alias, list(pairwise) or "nobody", n))
    cases = run_world(ctx, k, n)
    for term, rec in cases:
        if rec["token"] == case.get("token"):
            print("  token #%d: a %s handed to %s by %s [%s]" % (rec["token"], rec["class"], rec["client"], rec["how"], rec["path"]))
            print("    token response: scope %r, audience asked for %r" % (rec["scope"], rec["resources"]))
            print("    provider resolves it to: %s" % json.dumps(rec.get("provider"), sort_keys=True))
            print("    introspection states:    %s" % json.dumps(rec.get("introspection"), sort_keys=True))
            print("    the JWT's claims state:  %s" % json.dumps(rec.get("claims"), sort_keys=True))
    ctx.coq_check_cases(IMPORTS, "claims_case", "chk_claims", cases, shard=150, label="claims_replay", diag="diag_claims")
    for v in ctx.violations[:6]:
        print("  " + v["what"][:1200])
