"""C18 helper - subject minters a deployment plugs into session_params.sub_func, and their descriptions.

A *spec* is the configured dict in its order: a list of (key, entry); an entry is a dict
    {"how": "class-str" | "class-obj" | "fn-str" | "fn-obj" | "skip",
     "kind": ("PublicID", salt) | ("PairWiseID", salt) | ("PublicID-file", salt) | ("PairWiseID-file", salt)
             | ("public_id",) | ("pairwise_id",) | ("ephemeral_id",)
             | ("custom", prefix, use_sector, own_salt_or_None) | ("custom-fresh", prefix)}
From one entry this module derives, independently of each other:
  conf_entry   what goes into the provider's configuration,
  direct       the object the entry names, built here again (what the ORACLE calls to know what the configured minter produces),
  coq_entry    the Gallina description (Model/Sub.v: centry / minter) the MODEL is evaluated on,
  recipe       (prefix, use_sector, own_salt) for the preimages the hash table must hold; None for fresh-value minters.
"""
import hashlib
import os
import uuid

import srv
from engine import coq_str

LIB = "idpyoidc.server.session.manager."


def _h(text):
    return hashlib.sha256(text.encode("utf-8")).hexdigest()


# ---- plain functions a deployment could name by dotted path ("function": "c18_minters.site_public")
def site_public(uid, salt="", **kwargs):
    return _h("site|{}{}".format(uid, salt))


def site_pairwise(uid, sector_identifier="", salt="", **kwargs):
    return _h("site|{}{}{}".format(uid, sector_identifier, salt))


def site_ephemeral(*args, **kwargs):
    return "e" + uuid.uuid4().hex


NAMED = {("custom", "site|", False, None): "c18_minters.site_public",
         ("custom", "site|", True, None): "c18_minters.site_pairwise",
         ("custom-fresh", "e"): "c18_minters.site_ephemeral"}


def make_function(prefix, use_sector, own_salt):
    """a plain function (closure) with its own salt, or using the salt the session manager hands in"""
    def minter(uid, salt="", sector_identifier="", **kwargs):
        return _h("{}{}{}{}".format(prefix, uid, sector_identifier if use_sector else "", own_salt if own_salt is not None else salt))
    minter.__name__ = "minter_%s_%s" % ("pairwise" if use_sector else "public", "own" if own_salt is not None else "session")
    return minter


def make_fresh(prefix):
    def minter(*args, **kwargs):
        return prefix + uuid.uuid4().hex
    return minter


def salt_file(salt):
    """a file holding the salt (PairWiseID / PublicID filename=...), under the harness scratch directory"""
    p = os.path.join(srv.RUN, "c18_salt_%s.txt" % hashlib.sha256(salt.encode()).hexdigest()[:16])
    with open(p, "w") as fp:
        fp.write(salt)
    return p


def _obj(kind):
    """the object the entry names, built from the library / this module (never from the provider under test)"""
    from idpyoidc.server.session import manager as m
    k = kind[0]
    if k == "PublicID":
        return m.PublicID(salt=kind[1])
    if k == "PairWiseID":
        return m.PairWiseID(salt=kind[1])
    if k == "PublicID-file":
        return m.PublicID(filename=salt_file(kind[1]))
    if k == "PairWiseID-file":
        return m.PairWiseID(filename=salt_file(kind[1]))
    if k in ("public_id", "pairwise_id", "ephemeral_id"):
        return getattr(m, k)
    if k == "custom":
        return make_function(kind[1], kind[2], kind[3])
    if k == "custom-fresh":
        return make_fresh(kind[1])
    raise ValueError(kind)


def conf_entry(e):
    from idpyoidc.server.session import manager as m
    how, kind = e["how"], e["kind"]
    if how == "skip":
        return {"kwargs": {"salt": "ignored"}}        # neither "class" nor "function": do_sub_func passes over it
    k = kind[0]
    if how in ("class-str", "class-obj"):
        cname = k.split("-")[0]
        cls = LIB + cname if how == "class-str" else getattr(m, cname)
        kwargs = {"filename": salt_file(kind[1])} if k.endswith("-file") else {"salt": kind[1]}
        return {"class": cls, "kwargs": kwargs}
    if how == "fn-str":
        return {"function": NAMED[kind] if kind in NAMED else LIB + k}
    if how == "fn-obj":
        return {"function": _obj(kind)}
    raise ValueError(e)


def direct(e):
    """callable(uid, salt=.., sector_identifier=..) - what the configured entry produces when asked directly"""
    if e["how"] == "skip":
        return None
    if e["how"] == "fn-str" and e["kind"] in NAMED:
        return globals()[NAMED[e["kind"]].split(".")[1]]
    return _obj(e["kind"])


def recipe(e):
    """(prefix, use_sector, own_salt) of a hashing minter; None for a fresh-value minter; "skip" for a skipped entry"""
    if e["how"] == "skip":
        return "skip"
    kind = e["kind"]
    k = kind[0].split("-file")[0]
    if k == "PublicID":
        return ("", False, kind[1])
    if k == "PairWiseID":
        return ("", True, kind[1])
    if k == "public_id":
        return ("", False, None)
    if k == "pairwise_id":
        return ("", True, None)
    if kind[0] == "custom":
        return (kind[1], kind[2], kind[3])
    return None


def coq_entry(e):
    if e["how"] == "skip":
        return "ESkipped"
    kind = e["kind"]
    k = kind[0].split("-file")[0]
    if k == "PublicID":
        return "(EMinter (cls_PublicID %s))" % coq_str(kind[1])
    if k == "PairWiseID":
        return "(EMinter (cls_PairWiseID %s))" % coq_str(kind[1])
    if k in ("public_id", "pairwise_id", "ephemeral_id"):
        return "(EMinter fn_%s)" % k
    if kind[0] == "custom":
        return "(EMinter (MHash %s %s %s))" % (coq_str(kind[1]), "true" if kind[2] else "false",
                                               "None" if kind[3] is None else "(Some %s)" % coq_str(kind[3]))
    if kind[0] == "custom-fresh":
        return "(EMinter MFresh)"
    raise ValueError(e)


def coq_conf(spec):
    if not spec:
        return "(@nil (pystr * centry))"
    return "[" + "; ".join("(%s, %s)" % (coq_str(k), coq_entry(e)) for k, e in spec) + "]"


DEFAULT_RECIPE = {"public": ("", False, None), "pairwise": ("", True, None), "ephemeral": None}


def effective(spec, key):
    """ground truth of the configuration: the entry that names a minter for `key` (None: the built-in one serves it)"""
    for k, e in spec:
        if k == key and e["how"] != "skip":
            return e
    return None


def effective_recipe(spec, key):
    e = effective(spec, key)
    if e is not None:
        return recipe(e)
    return DEFAULT_RECIPE.get(key, "absent")


def preimages(spec, uid, salt, sectors):
    """every text some minter of the configuration (or a built-in one) would hash for this user and these sectors"""
    rs = [recipe(e) for _, e in spec] + list(DEFAULT_RECIPE.values())
    out = []
    for r in rs:
        if r is None or r == "skip":
            continue
        p, us, own = r
        for s in (sectors if us else [""]):
            t = "{}{}{}{}".format(p, uid, s, own if own is not None else salt)
            if t not in out:
                out.append(t)
    return out


def describe(spec):
    return [[k, e["how"], list(e["kind"]) if e.get("kind") else None] for k, e in spec]
