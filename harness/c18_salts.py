"""C18 helper - the salt of the subject minters over the LIFE of a deployment: several provider instances, one after another,
built from the same configuration; salt files that exist (with all sorts of content), that are created at first start, that are
shared by two entries, that are no files.

A *life* is {"name": str, "files": {file_id: initial}, "spec": [(key, entry)]}
    initial   None (the file does not exist before the first start) | bytes (content put there beforehand) |
              ("proc", text) (written beforehand by ANOTHER process: `echo text > file`) | "dir" (a directory of that name)
    entry     {"how": "class-str" | "class-obj", "cls": "PublicID" | "PairWiseID", "salt": str | None, "file": file_id | None}
              (None = the constructor argument is not given) or any entry of c18_minters (functions, skipped entries)
From a life this module derives, independently of each other: the configuration every instance is built from (conf_of - a new
dict per instance, the same content), the Gallina description (coq_dconf / coq_fs: Model/Sub.v dentry, fsys), what the files hold
(snapshot - read here in binary, decoded here), and the spec in the terms of c18_minters with every salt resolved the way a text
file is read (resolved_spec - for the hash table's preimages and for knowing which minters are fresh-value ones).
"""
import os
import re
import shutil
import subprocess

import srv
import c18_minters as cm
from engine import coq_str, coq_list

ROOT = os.path.join(srv.RUN, "c18_life")


def is_class(e):
    return "cls" in e


def spec_of(life):
    """the configured dict in its order ([] when the deployment configures no sub_func at all: life["spec"] is None)"""
    return life["spec"] or []


def life_dir(name):
    return os.path.join(ROOT, name)


def path_of(life, fid):
    return os.path.join(life_dir(life["name"]), fid)


def prepare(life):
    """an empty directory for this life, holding the files that exist before the first start"""
    d = life_dir(life["name"])
    shutil.rmtree(d, ignore_errors=True)
    os.makedirs(d)
    for fid, init in life["files"].items():
        p = os.path.join(d, fid)
        if init is None:
            continue
        if init == "dir":
            os.makedirs(p)
        elif isinstance(init, tuple) and init[0] == "proc":
            subprocess.run(["/bin/sh", "-c", 'echo "$1" > "$2"', "sh", init[1], p], check=True)
        else:
            with open(p, "wb") as fp:
                fp.write(init)


def conf_of(life):
    """session_params.sub_func as every instance of this deployment is configured (built anew at every call)"""
    from idpyoidc.server.session import manager as m
    if life["spec"] is None:
        return None
    out = {}
    for key, e in life["spec"]:
        if not is_class(e):
            out[key] = cm.conf_entry(e)
            continue
        kwargs = {}
        if e["salt"] is not None:
            kwargs["salt"] = e["salt"]
        if e["file"] is not None:
            kwargs["filename"] = path_of(life, e["file"])
        out[key] = {"class": cm.LIB + e["cls"] if e["how"] == "class-str" else getattr(m, e["cls"]), "kwargs": kwargs}
    return out


def snapshot(life):
    """file_id -> None (does not exist) | "dir" (exists, no regular file) | str (the file's bytes decoded, newlines untouched)"""
    out = {}
    for fid in life["files"]:
        p = path_of(life, fid)
        if os.path.isfile(p):
            with open(p, "rb") as fp:
                out[fid] = fp.read().decode("utf-8")
        elif os.path.exists(p):
            out[fid] = "dir"
        else:
            out[fid] = None
    return out


def as_read(text):
    """a text file's content as a program that reads it in text mode sees it (universal newlines; nothing is stripped)"""
    return text.replace("\r\n", "\n").replace("\r", "\n")


def source(e):
    """which of its arguments the documented constructor goes by: a salt that is given wins, then the file"""
    if e["salt"]:
        return ("explicit", e["salt"])
    if e["file"]:
        return ("file", e["file"])
    return ("none",)


def infer_draws(life, before, after):
    """the random draw of every entry: the i-th entry drew what the file it had to create holds afterwards (only an entry
    that finds no file - and is the first of this start-up to name it - draws a value that matters)"""
    made = set()
    out = []
    for key, e in spec_of(life):
        d = ""
        if is_class(e):
            s = source(e)
            if s[0] == "file" and before.get(s[1]) is None and s[1] not in made:
                made.add(s[1])
                if isinstance(after.get(s[1]), str) and after[s[1]] != "dir":
                    d = after[s[1]]
        out.append(d)
    return out


def resolved_spec(life, after):
    """the same configuration in the terms of c18_minters, every class entry with the salt its source yields given the files
    as they are after the start-up"""
    spec = []
    for key, e in spec_of(life):
        if not is_class(e):
            spec.append((key, e))
            continue
        s = source(e)
        if s[0] == "explicit":
            salt = s[1]
        elif s[0] == "file":
            salt = as_read(after[s[1]]) if isinstance(after.get(s[1]), str) and after[s[1]] != "dir" else ""
        else:
            raise ValueError("an entry without a lasting salt has no place in a life: %r" % (e,))
        spec.append((key, {"how": e["how"], "kind": (e["cls"], salt)}))
    return spec


# ---- Gallina
class Shared:
    """the case terms of a life repeat the same strings and sub-terms (configuration, draws, files, hash table entries) login
    after login, and elaborating string literals is what makes coqc slow: every string and every shared sub-term is emitted once
    per shard as a Definition and referenced by name"""
    _NAME = re.compile(r"\bsh[sg]_\d+\b")

    def __init__(self):
        self.names, self.defs, self.order = {}, {}, []

    def share(self, text, ty, prefix="shg"):
        n = self.names.get((ty, text))
        if n is None:
            n = "%s_%d" % (prefix, len(self.order))
            self.names[(ty, text)] = n
            self.defs[n] = (ty, text)
            self.order.append(n)
        return n

    def prelude(self, texts):
        need, stack = set(), []
        for t in texts:
            stack.extend(self._NAME.findall(t))
        while stack:
            n = stack.pop()
            if n in need or n not in self.defs:
                continue
            need.add(n)
            stack.extend(self._NAME.findall(self.defs[n][1]))
        return "".join("Definition %s : %s := %s.\n" % (n, self.defs[n][0], self.defs[n][1]) for n in self.order if n in need)


I = Shared()


def S(string):
    """a string of a case term, by name"""
    return I.share(coq_str(string), "pystr", "shs")


def check_cases(ctx, imports, case_type, checker, cases, shard=400, label="cases"):
    """engine.Ctx.coq_check_cases, every shard starting with the shared definitions its cases refer to"""
    import engine
    from concurrent.futures import ThreadPoolExecutor
    jobs = []
    for i in range(0, len(cases), shard):
        part = cases[i:i + shard]
        ctx.shard_seq += 1
        name = "%s_%s_%03d" % (ctx.prop, label, ctx.shard_seq)
        body = "%sDefinition cases : list (%s) := [\n%s\n].\nEval vm_compute in (bad_indices (%s) cases).\n" % (
            I.prelude([t for t, _ in part]), case_type, ";\n".join(t for t, _ in part), checker)
        jobs.append((name, body, part))
    with ThreadPoolExecutor(max_workers=min(engine.NCPU, max(1, len(jobs)))) as ex:
        results = list(ex.map(lambda job: (job, ctx.coq_eval(job[0], imports, job[1])), jobs))
    bad = []
    for (name, body, part), (rc, out, vals) in results:
        if rc != 0 or not vals:
            ctx.broken.append("correspondence shard %s does not evaluate: %s" % (name, out.strip()[-600:]))
            continue
        try:
            idx = engine.parse_nat_list(vals[-1])
        except ValueError as e:
            ctx.broken.append("correspondence shard %s: %s" % (name, e))
            continue
        ctx.traces += len(part)
        for k in idx:
            bad.append(part[k][1])
            ctx.mismatch("model and implementation disagree (%s, %s[%d])" % (label, name, k), part[k][1],
                         model=I.prelude([part[k][0]]) + part[k][0][:2000])
    return bad


def coq_dentry(e):
    if not is_class(e):
        return "(DPlain %s)" % cm.coq_entry(e)
    return "(DClass %s %s %s)" % ("true" if e["cls"] == "PairWiseID" else "false", S(e["salt"] or ""), S(e["file"] or ""))


def coq_dconf(life):
    if not life["spec"]:
        return "(@nil (pystr * dentry))"
    return I.share("[" + "; ".join("(%s, %s)" % (S(k), coq_dentry(e)) for k, e in spec_of(life)) + "]", "list (pystr * dentry)")


def coq_fstate(v):
    return "FOther" if v == "dir" else "(FFile %s)" % S(v)


def coq_fs(snap):
    items = ["(%s, %s)" % (S(f), coq_fstate(v)) for f, v in snap.items() if v is not None]
    return I.share(coq_list(items, "(pystr * fstate)"), "fsys")


def coq_draws(draws):
    return I.share(coq_list([S(d) for d in draws], "pystr"), "list pystr")


def coq_pairs(pairs):
    """an association table string -> string (hash table, host table)"""
    return coq_list([I.share("(%s, %s)" % (S(a), S(b)), "(pystr * pystr)") for a, b in pairs], "(pystr * pystr)")


def coq_observed(snap):
    """the state of every file the life knows, as found after a start-up that succeeded"""
    items = ["(%s, %s)" % (S(f), "None" if v is None else "(Some %s)" % coq_fstate(v)) for f, v in snap.items()]
    return "(Some %s)" % coq_list(items, "(pystr * option fstate)")


def describe(life):
    out = []
    for key, e in spec_of(life):
        if is_class(e):
            out.append([key, e["how"], e["cls"], {"salt": e["salt"], "filename": e["file"]}])
        else:
            out.append([key, e["how"], list(e["kind"]) if e.get("kind") else None])
    files = {f: (v if not isinstance(v, bytes) else v.decode("utf-8")) for f, v in life["files"].items()}
    return {"life": life["name"], "sub_func": out if life["spec"] is not None else None, "files_before_first_start": files}


# ---- the lives
PLAIN = b"Zm9vYmFyLXNhbHQtMDEyMzQ1Njc4OQ"
CONTENTS = [
    ("plain", PLAIN),
    ("trailing-newline", PLAIN + b"\n"),
    ("trailing-crlf", PLAIN + b"\r\n"),
    ("blanks", b"  " + PLAIN + b" \t"),
    ("empty", b""),
    ("lone-cr-inside", b"abc\rdef"),
    ("two-lines", b"first-line\nsecond-line\n"),
    ("non-ascii", "sält-ü/ß".encode("utf-8")),
    ("bom", b"\xef\xbb\xbf" + PLAIN),
    ("other-process", ("proc", "written-by-echo-0123456789")),
    ("newline-only", b"\n"),
    ("crlf-inside-and-blank-line", b"a\r\nb\r\n\r\n"),
]


def cls_entry(cls, how="class-str", salt=None, file=None):
    return {"how": how, "cls": cls, "salt": salt, "file": file}


def fixed_lives():
    pub, pw = "PublicID", "PairWiseID"
    lives = [
        # the documented configuration, salts kept in files that do not exist when the deployment starts for the first time
        {"name": "created-both", "files": {"public.salt": None, "pairwise.salt": None},
         "spec": [("public", cls_entry(pub, file="public.salt")), ("pairwise", cls_entry(pw, file="pairwise.salt"))]},
        # ... pairwise listed first, class objects
        {"name": "created-both-rev", "files": {"public.salt": None, "pairwise.salt": None},
         "spec": [("pairwise", cls_entry(pw, "class-obj", file="pairwise.salt")), ("public", cls_entry(pub, "class-obj", file="public.salt"))]},
        # one file for both entries: the first entry creates it, the second reads it during the same start-up
        {"name": "created-shared", "files": {"subject.salt": None},
         "spec": [("public", cls_entry(pub, file="subject.salt")), ("pairwise", cls_entry(pw, file="subject.salt"))]},
        # one type with a created file, the other served by the built-in function (session salt); an explicit empty salt
        {"name": "created-pairwise-only", "files": {"pw.salt": None},
         "spec": [("pairwise", cls_entry(pw, salt="", file="pw.salt")), ("ephemeral", {"how": "fn-str", "kind": ("ephemeral_id",)})]},
        {"name": "created-public-only", "files": {"p.salt": None},
         "spec": [("public", cls_entry(pub, "class-obj", file="p.salt")), ("pairwise", {"how": "skip", "kind": None})]},
        # one salt given, one created; a given salt wins over a file name (the file is never made)
        {"name": "given-and-created", "files": {"unused.salt": None, "pw.salt": None},
         "spec": [("public", cls_entry(pub, salt="tenant-salt-public", file="unused.salt")), ("pairwise", cls_entry(pw, file="pw.salt"))]},
        {"name": "given-both", "files": {},
         "spec": [("public", cls_entry(pub, salt="tenant-salt-public")), ("pairwise", cls_entry(pw, "class-obj", salt="sält-ü/ß"))]},
        # the session manager's own salt (functions), nothing configured at all
        {"name": "session-salt-functions", "files": {},
         "spec": [("public", {"how": "fn-str", "kind": ("public_id",)}), ("pairwise", {"how": "fn-obj", "kind": ("pairwise_id",)})]},
        {"name": "nothing-configured", "files": {}, "spec": None},
        # own functions next to a created file
        {"name": "created-and-custom", "files": {"pw.salt": None},
         "spec": [("public", {"how": "fn-obj", "kind": ("custom", "t1:", False, "own-salt")}), ("pairwise", cls_entry(pw, file="pw.salt")),
                  ("persistent", cls_entry(pub, file="pw.salt"))]},
        # the salt file's name is taken by a directory: no instance starts
        {"name": "not-a-file", "files": {"public.salt": "dir", "pairwise.salt": None},
         "spec": [("pairwise", cls_entry(pw, file="pairwise.salt")), ("public", cls_entry(pub, file="public.salt"))]},
    ]
    # files that exist, with every kind of content, two per life
    n = len(CONTENTS)
    for i in range(0, n, 2):
        (na, ca), (nb, cb) = CONTENTS[i], CONTENTS[(i + 1) % n]
        spec = [("public", cls_entry(pub, "class-str" if i % 4 == 0 else "class-obj", file="public.salt")),
                ("pairwise", cls_entry(pw, file="pairwise.salt"))]
        if i % 4 == 2:
            spec.reverse()
        lives.append({"name": "existing-%s-%s" % (na, nb), "files": {"public.salt": ca, "pairwise.salt": cb}, "spec": spec})
    # ... and one existing file shared by both entries, ending in a newline
    lives.append({"name": "existing-shared-newline", "files": {"subject.salt": PLAIN + b"\n"},
                  "spec": [("pairwise", cls_entry(pw, file="subject.salt")), ("public", cls_entry(pub, file="subject.salt"))]})
    return lives


def draw_life(rng, n):
    """a drawn life: per subject type a drawn source (given / file existing with drawn content / file missing / function)"""
    files, spec = {}, []
    keys = ["public", "pairwise"]
    rng.shuffle(keys)
    shared = rng.random() < 0.25
    for key in keys:
        cls = "PublicID" if key == "public" else "PairWiseID"
        how = rng.choice(["class-str", "class-obj"])
        kind = rng.choice(["given", "existing", "missing", "missing", "function"])
        fid = "subject.salt" if shared else key + ".salt"
        if kind == "given":
            spec.append((key, cls_entry(cls, how, salt=rng.choice(["tenant-salt-%s" % key, "s", "salt-verif-0123456789"]),
                                        file=rng.choice([None, fid]))))
            if spec[-1][1]["file"]:
                files.setdefault(fid, None)
        elif kind == "existing":
            files.setdefault(fid, rng.choice(CONTENTS)[1])
            spec.append((key, cls_entry(cls, how, salt=rng.choice([None, ""]), file=fid)))
        elif kind == "missing":
            files.setdefault(fid, None)
            spec.append((key, cls_entry(cls, how, salt=rng.choice([None, ""]), file=fid)))
        else:
            fn = "public_id" if key == "public" else "pairwise_id"
            spec.append((key, {"how": rng.choice(["fn-str", "fn-obj"]), "kind": (fn,)}))
    if rng.random() < 0.3:
        spec.insert(rng.randrange(len(spec) + 1), ("ephemeral", {"how": "fn-obj", "kind": ("custom-fresh", "x-")}))
    return {"name": "drawn-%d" % n, "files": files, "spec": spec}
