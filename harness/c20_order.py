"""C20 helper — (5) ATTRIBUTE CENSUS of every long-lived object reachable from the provider, and (6) ORDER EXPERIMENTS.

CENSUS.  The deep snapshot of drv_C20 names what it looks at (schemas, constants, endpoints, authz, claims, client
records) and skips the session manager, the cookie handler and whatever a handler holds that is not an idpyoidc
object.  The census instead WALKS: starting at the Server object it visits every object reachable through
attributes / dict values / list items - the endpoint context, the session manager's own configuration, every token
handler (`session_manager.token_handler.handler[...]`: lifetime, alg, def_aud, kwargs, profile ...), the cookie
handler, the claims interface, the scopes handler, the authentication broker and its methods, the user-info store,
the template handler, add-on state - and records, per object path: the SET of attribute names, every scalar value,
every container's content, and for helper objects of other packages (a cryptojwt JWT / KeyJar hanging on a handler)
their class and their own scalar attributes.  A request may change NOTHING of that except what is in REQUEST_STATE
below (each entry justified).  An attribute that APPEARS on a long-lived object while a request is handled, or goes
from None to an object, is a difference: a lazily created helper that is kept is state that later requests read.

ORDER EXPERIMENTS.  Providers that issue JWT access and refresh tokens; clients whose settings differ (per-client
token_usage_rules with other lifetimes, other ID Token signing algorithms, other allowed scopes, add_claims).  The
probe flow of a client T (authorize, redeem, userinfo, introspect, later userinfo, refresh, introspect) is served
(a) by a fresh provider (twice: fields that differ between two fresh providers - key-dependent values - are
masked and listed) and (b) by a provider that has served a random sequence of OTHER clients' flows (success and
error paths) first.  The canonical results - every field of the token responses, the decoded claims of the JWT
access / refresh / ID tokens with times relative to the start of the flow (exp - iat, aud, scope, iss, token_class,
client_id, the JOSE header's alg) - must be equal field by field.  The census is taken around every request.
"""
import base64
import copy
import json
import re
import types

SIG_CENSUS = "static-state-changed:census"
SIG_ORDER = "history-dependent-answer:order"

ADDR = re.compile(r" at 0x[0-9a-fA-F]+")
SCALAR = (type(None), bool, int, float, str, bytes)

# What a request MAY change, by the attribute name under which the walk would reach it (nothing else may change):
REQUEST_STATE = {
    # attribute name: why it is per-session / per-request state and not configuration
    "db": "SessionManager.db / Database.db: the session database (user / client / grant nodes and their tokens); "
          "UserInfo.db and the authentication methods' user databases are configuration and are covered by the deep snapshot "
          "of drv_C20 (`userinfo`, authn broker) - the walk does not descend into any `db`",
    "_db": "storage behind a DLDict / abstract database wrapper of the session database",
    "cdb": "the client database: the registration endpoint creates records; every pre-registered record is compared "
           "key by key (minus the documented auth_method) by the deep snapshot of drv_C20 (`client:<id>`), and the set of "
           "registered ids by `registered_client_ids`",
    "jti_db": "jti replay cache of client assertions (per-request state, property C01)",
    "par_db": "pushed authorization requests waiting to be used",
    "dev_auth_db": "device authorization sessions", "auth_req_id_map": "CIBA request ids",
    "registration_access_token": "registration access tokens handed out by dynamic registration",
    "cstate": "per-session client state",
    "keyjar": "the key jar: keys of newly registered clients are added, key bundles note when they were fetched (key-rotation "
              "bookkeeping); the provider's own key ids are compared separately (`own_kids`)",
    "_keyjar": "same object under its private name", "key_jar": "same object as held by cryptojwt helpers",
    "httpc": "the HTTP client (a requests session: connection pool, cookies of the transport)",
    "upstream_get": "bound method of the parent unit (walked from the parent)", "unit_get": "same",
    "crypt": "cryptography.fernet / AES helper objects (no Python-level attributes of interest; their keys are compared as "
             "`crypt_config` next to them)",
    "session_manager": "walked once from the context (this entry only stops the walk from re-entering it through handlers)",
}


def _is_lib(x):
    return type(x).__module__.split(".")[0] in ("idpyoidc", "srv", "drv_C20", "srv_c13")


def _scalar(x):
    if isinstance(x, bytes):
        return "b:" + x.hex()[:64]
    return x


def census(root, own_kids=None, max_depth=9):
    """-> {path: value}: path 'a.b[k]' -> scalar | '<class ...>' | '<fn ...>' | ('attrs', [names]) | ('keys', [..]) | ('len', n)"""
    from idpyoidc.message import Message
    out = {}
    seen = {}

    def walk(x, path, depth, foreign):
        if isinstance(x, SCALAR):
            out[path] = _scalar(x)
            return
        if isinstance(x, type):
            out[path] = "<class %s.%s>" % (x.__module__, x.__name__)
            return
        if isinstance(x, (types.FunctionType, types.BuiltinFunctionType, types.MethodType)):
            out[path] = "<fn %s.%s>" % (getattr(x, "__module__", "?"), getattr(x, "__qualname__", "?"))
            return
        if id(x) in seen:
            out[path] = "<same as %s>" % seen[id(x)]          # aliasing between long-lived objects is part of the census
            return
        if depth > max_depth:
            out[path] = "<deep %s>" % type(x).__name__
            return
        seen[id(x)] = path
        if isinstance(x, Message):
            out[path] = "<Message %s>" % type(x).__name__
            walk(x.to_dict(), path + "{}", depth + 1, foreign)
            return
        if isinstance(x, dict):
            keys = sorted(x.keys(), key=repr)
            out[path] = ("keys", [repr(k)[:80] for k in keys])
            for k in keys:
                if isinstance(k, str) and k in REQUEST_STATE:
                    continue
                walk(x[k], "%s[%s]" % (path, repr(k)[:60]), depth + 1, foreign)
            return
        if isinstance(x, (list, tuple)):
            out[path] = ("len", len(x))
            for i, v in enumerate(x):
                walk(v, "%s[%d]" % (path, i), depth + 1, foreign)
            return
        if isinstance(x, (set, frozenset)):
            out[path] = ("set", sorted(repr(v)[:80] for v in x))
            return
        d = getattr(x, "__dict__", None)
        if d is None:
            out[path] = "<%s %s>" % (type(x).__name__, ADDR.sub("", repr(x))[:80])
            return
        lib = _is_lib(x)
        names = sorted(d.keys())
        out[path] = ("attrs", "%s.%s" % (type(x).__module__, type(x).__name__), names)
        if not lib:
            if foreign >= 2:
                return
            foreign += 1            # a helper of another package: its own attributes, one level further
        for k in names:
            if k in REQUEST_STATE:
                continue
            walk(d[k], path + "." + k, depth + 1, foreign)

    walk(root, "server", 0, 0)
    ctx = getattr(root, "context", None)
    if ctx is not None:
        # the session manager's own configuration and its helpers (token handlers ...): everything but the session database
        walk(getattr(ctx, "session_manager", None), "session_manager", 0, 0)
        # the authentication methods (the broker keeps them in a dict called `db`, which the walk does not enter)
        br = getattr(ctx, "authn_broker", None)
        for k, spec in sorted((getattr(br, "db", None) or {}).items(), key=lambda kv: str(kv[0])):
            walk({a: b for a, b in spec.items()}, "authn_method[%s]" % k, 0, 0)
            out.pop("authn_method[%s]['method'].user" % k, None)     # (the harness switches the NoAuthn user between requests)
        try:
            kj = ctx.keyjar
            out["own_kids"] = sorted(str(k.kid) for k in kj.get_issuer_keys(""))
        except Exception as e:      # pragma: no cover
            out["own_kids"] = "?" + type(e).__name__
    return out


def census_diff(a, b, limit=6):
    """-> list of readable differences: new attribute / removed attribute / changed value / changed container"""
    res = []
    for p in sorted(set(a) | set(b)):
        if len(res) >= limit:
            break
        x, y = a.get(p, "<absent>"), b.get(p, "<absent>")
        if x == y:
            continue
        if isinstance(x, tuple) and isinstance(y, tuple) and x[0] == y[0] == "attrs":
            new, gone = sorted(set(y[2]) - set(x[2])), sorted(set(x[2]) - set(y[2]))
            if x[1] != y[1]:
                res.append("%s: object of class %s replaced by one of class %s" % (p, x[1], y[1]))
            if new:
                res.append("%s (%s): NEW attribute(s) %s appeared while the request was handled" % (p, y[1], new))
            if gone:
                res.append("%s (%s): attribute(s) %s disappeared" % (p, y[1], gone))
            continue
        if p not in a:
            # reported at the parent (new attribute / new key); a new sub-tree is summarised once
            parent = re.sub(r"(\.[A-Za-z_0-9]+|\[[^\]]*\]|\{\})$", "", p)
            if parent in a or any(r.startswith(parent) for r in res):
                if isinstance(a.get(parent), tuple) or parent not in a:
                    continue
            res.append("%s: appeared = %s" % (p, json.dumps(y, default=str)[:120]))
            continue
        if p not in b:
            continue
        res.append("%s: %s -> %s" % (p, json.dumps(x, default=str)[:120], json.dumps(y, default=str)[:120]))
    return res


def census_key(diffs):
    """the violation key: the attribute path without indices"""
    d = diffs[0].split(":")[0].split(" (")[0]
    return re.sub(r"\[[^\]]*\]", "[]", d)[-60:]


# ======================================================================================== order experiments
OC = ["oc_plain", "oc_short", "oc_long", "oc_narrow"]


def order_client_overrides():
    return {
        # provider-wide rules only
        "oc_plain": {},
        # short-lived access tokens, its own refresh-token lifetime
        "oc_short": {"token_usage_rules": {"access_token": {"expires_in": 60},
                                           "refresh_token": {"supports_minting": ["access_token", "refresh_token", "id_token"], "expires_in": 900}}},
        # long-lived access tokens, ID Tokens signed with another algorithm
        "oc_long": {"token_usage_rules": {"access_token": {"expires_in": 7200}},
                    "id_token_signed_response_alg": "ES256"},
        # fewer scopes, claims added to the tokens
        "oc_narrow": {"allowed_scopes": ["openid", "email", "offline_access"],
                      "token_usage_rules": {"authorization_code": {"supports_minting": ["access_token", "refresh_token", "id_token"], "expires_in": 45},
                                            "access_token": {"expires_in": 1234}},
                      "add_claims": {"always": {"access_token": ["nickname"], "id_token": ["email"]}, "by_scope": {"id_token": True}}},
    }


# provider-wide usage rules: the lifetime of an access token comes from the rules / from the token handler
AUTHZ_VARIANTS = {
    "rules-lifetime": {"access_token": {"expires_in": 600}},
    "handler-lifetime": {"access_token": {}},
}
HANDLER_LIFETIMES = {"token": 3600, "refresh": 86400, "code": 600}


def make_order_provider(variant):
    import srv, srv_c13
    authz = copy.deepcopy(srv_c13.AUTHZ)
    authz["kwargs"]["grant_config"]["usage_rules"].update(copy.deepcopy(AUTHZ_VARIANTS[variant]))
    if variant == "handler-lifetime":
        authz["kwargs"]["grant_config"]["usage_rules"]["refresh_token"].pop("expires_in", None)
    eps = {"userinfo": {"client_authn_method": ["bearer_header", "bearer_body"], "add_claims_by_scope": True}}
    return srv.make_server(clients=OC, client_over=order_client_overrides(), authz=authz, endpoints=eps,
                           jwt_access=True, jwt_refresh=True, lifetimes=dict(HANDLER_LIFETIMES))


def jose(tok):
    """-> (header, claims) of a compact JWS, None when it is not one"""
    try:
        h, p = tok.split(".")[:2]
        dec = lambda s: json.loads(base64.urlsafe_b64decode(s + "=" * (-len(s) % 4)))
        return dec(h), dec(p)
    except Exception:
        return None


DROP_CLAIMS = ("jti", "sid", "at_hash", "c_hash", "nonce", "kid")


def canon_token(tok, t0):
    j = jose(tok) if isinstance(tok, str) else None
    if j is None:
        return {"opaque": isinstance(tok, str)}
    h, c = j
    out = {"hdr.alg": h.get("alg"), "hdr.typ": h.get("typ")}
    for k, v in sorted(c.items()):
        if k in DROP_CLAIMS:
            continue
        if k in ("iat", "exp", "auth_time", "nbf") and isinstance(v, int):
            out[k] = "t+%d" % (v - t0)
        else:
            out[k] = v
    if isinstance(c.get("exp"), int) and isinstance(c.get("iat"), int):
        out["exp-iat"] = c["exp"] - c["iat"]
    return out


class OrderExec:
    """drives one provider: every step returns a canonical, history-free description of what the client got"""

    def __init__(self, server, clock, on_request=None):
        self.server, self.clock, self.n = server, clock, 0
        self.on_request = on_request or (lambda label, fn: fn())

    def _call(self, label, fn):
        return self.on_request(label, fn)

    def redirect(self, cid):
        return "https://%s.example.com/cb" % cid

    def secret(self, cid):
        return (self.server.context.cdb.get(cid) or {}).get("client_secret", "no-secret-0123456789abcdef0123456789")

    def authorize(self, cid, scope, user="diana", rtype="code", bad=None):
        import srv
        srv.set_user(self.server, user)
        self.n += 1
        req = {"client_id": cid, "redirect_uri": self.redirect(cid), "response_type": rtype, "scope": " ".join(scope),
               "state": "ost%d" % self.n, "nonce": "on%d" % self.n}
        if "offline_access" in scope:
            req["prompt"] = "consent"
        if bad == "redirect":
            req["redirect_uri"] = "https://evil.example.org/cb"
        if bad == "rtype":
            req["response_type"] = "bogus"
        ep = self.server.get_endpoint("authorization")

        def go():
            p = ep.parse_request(dict(req))
            if "error" in p:
                return {"error": str(p["error"])}
            res = ep.process_request(p)
            ra = res.get("response_args") if isinstance(res, dict) else res
            if ra is None or "error" in ra:
                return {"error": str((ra or res).get("error"))}
            ep.do_response(request=p, **res)
            return dict(ra.to_dict() if hasattr(ra, "to_dict") else ra)
        try:
            return self._call(("authorize", cid, tuple(scope), rtype, bad), go)
        except Exception as e:
            return {"exception": type(e).__name__}

    def token(self, cid, req, label):
        ep = self.server.get_endpoint("token")
        req = dict(req, client_id=cid, client_secret=self.secret(cid) if label[-1] != "badsecret" else "wrong-secret-0123456789abcdef0123456789")

        def go():
            p = ep.parse_request(dict(req))
            if "error" in p:
                return {"error": str(p["error"])}
            res = ep.process_request(p)
            ra = res.get("response_args") if isinstance(res, dict) and "response_args" in res else res
            if "error" in ra:
                return {"error": str(ra["error"])}
            ep.do_response(request=p, **res)
            return dict(ra.to_dict() if hasattr(ra, "to_dict") else ra)
        try:
            return self._call(label, go)
        except Exception as e:       # a Python-level crash inside the library is an answer of that kind
            return {"exception": type(e).__name__}

    def simple(self, epname, req, hdr, label):
        ep = self.server.get_endpoint(epname)
        hi = {"headers": hdr} if hdr else None

        def go():
            p = ep.parse_request(dict(req), http_info=hi) if hi else ep.parse_request(dict(req))
            if "error" in p:
                return {"error": str(p["error"])}
            res = ep.process_request(p, http_info=hi) if hi else ep.process_request(p)
            ra = res.get("response_args") if isinstance(res, dict) and "response_args" in res else res
            if ra is None:
                return {"none": True}
            if "error" in ra:
                return {"error": str(ra["error"])}
            return dict(ra.to_dict() if hasattr(ra, "to_dict") else ra)
        try:
            return self._call(label, go)
        except Exception as e:
            return {"exception": type(e).__name__}

    # ---- the probe flow of one client: everything the client can see, canonical
    def probe(self, cid, scope):
        t0 = self.clock.now
        out = []

        def rel(d):
            r = {}
            for k, v in sorted(d.items()):
                if k in ("access_token", "refresh_token", "id_token"):
                    r[k] = canon_token(v, t0)
                elif k in ("code", "state", "session_state", "jti", "sid", "nonce"):
                    r[k] = "<%s>" % k
                elif k in ("iat", "exp", "auth_time", "nbf") and isinstance(v, int):
                    r[k] = "t+%d" % (v - t0)
                else:
                    r[k] = v
            return r

        a = self.authorize(cid, scope)
        out.append(("authorize", rel(a)))
        if "code" not in a:
            return out
        t = self.token(cid, {"grant_type": "authorization_code", "code": a["code"], "redirect_uri": self.redirect(cid)}, ("token", cid))
        out.append(("token", rel(t)))
        at, rt = t.get("access_token"), t.get("refresh_token")
        if at:
            out.append(("userinfo", rel(self.simple("userinfo", {}, {"authorization": "Bearer " + at}, ("userinfo", cid)))))
            out.append(("introspect", rel(self.simple("introspection", {"token": at, "client_id": cid, "client_secret": self.secret(cid)},
                                                       None, ("introspect", cid)))))
            # the token is good for as long as the response said: asked again at several later moments
            for dt in (45, 45):
                self.clock.tick(dt)
                out.append(("userinfo@+%d" % (self.clock.now - t0),
                            rel(self.simple("userinfo", {}, {"authorization": "Bearer " + at}, ("userinfo-later", cid)))))
        if rt:
            r = self.token(cid, {"grant_type": "refresh_token", "refresh_token": rt}, ("refresh", cid))
            out.append(("refresh", rel(r)))
            if r.get("access_token"):
                out.append(("introspect-refreshed", rel(self.simple(
                    "introspection", {"token": r["access_token"], "client_id": cid, "client_secret": self.secret(cid)}, None,
                    ("introspect", cid)))))
        if at:
            for dt in (600, 3000, 4000):
                self.clock.tick(dt)
                out.append(("userinfo@+%d" % (self.clock.now - t0),
                            rel(self.simple("userinfo", {}, {"authorization": "Bearer " + at}, ("userinfo-later", cid)))))
        return out

    # ---- one flow of a prefix (other clients; success and error paths)
    def prefix_flow(self, cid, kind, scope):
        if kind == "bad-redirect":
            self.authorize(cid, scope, bad="redirect")
            return
        if kind == "bad-rtype":
            self.authorize(cid, scope, bad="rtype")
            return
        if kind == "implicit":
            self.authorize(cid, scope, rtype="id_token token")
            return
        a = self.authorize(cid, scope, user="babs" if kind == "other-user" else "diana")
        if "code" not in a:
            return
        if kind == "bad-secret":
            self.token(cid, {"grant_type": "authorization_code", "code": a["code"], "redirect_uri": self.redirect(cid)}, ("token", cid, "badsecret"))
            return
        t = self.token(cid, {"grant_type": "authorization_code", "code": a["code"], "redirect_uri": self.redirect(cid)}, ("token", cid))
        if kind == "replay":
            self.token(cid, {"grant_type": "authorization_code", "code": a["code"], "redirect_uri": self.redirect(cid)}, ("token-replay", cid))
        at, rt = t.get("access_token"), t.get("refresh_token")
        if at and kind in ("full", "other-user"):
            self.simple("userinfo", {}, {"authorization": "Bearer " + at}, ("userinfo", cid))
            self.simple("introspection", {"token": at, "client_id": cid, "client_secret": self.secret(cid)}, None, ("introspect", cid))
        if rt and kind in ("full", "refresh"):
            self.token(cid, {"grant_type": "refresh_token", "refresh_token": rt}, ("refresh", cid))
        if at and kind == "revoke":
            self.simple("token_revocation", {"token": at, "client_id": cid, "client_secret": self.secret(cid)}, None, ("revoke", cid))


PREFIX_KINDS = ["code-only", "full", "refresh", "replay", "bad-secret", "bad-redirect", "bad-rtype", "implicit", "other-user", "revoke"]
PROBE_SCOPES = [["openid", "email", "offline_access"], ["openid", "profile", "offline_access"], ["openid"]]


def deep_diff(x, y, path=""):
    """first differing field of two canonical results"""
    if type(x) != type(y):
        return "%s: %s vs %s" % (path, json.dumps(x, default=str)[:140], json.dumps(y, default=str)[:140])
    if isinstance(x, dict):
        for k in sorted(set(x) | set(y)):
            if x.get(k, "<absent>") != y.get(k, "<absent>"):
                return deep_diff(x.get(k, "<absent>"), y.get(k, "<absent>"), path + "/" + str(k))
    if isinstance(x, (list, tuple)):
        if len(x) != len(y):
            return "%s: %d vs %d entries" % (path, len(x), len(y))
        for i, (p, q) in enumerate(zip(x, y)):
            if p != q:
                return deep_diff(p, q, path + "[%s]" % (p[0] if isinstance(p, (list, tuple)) and p and isinstance(p[0], str) else i))
    return "%s: %s vs %s" % (path, json.dumps(x, default=str)[:140], json.dumps(y, default=str)[:140])


def mask(a, b):
    """fields that differ between two fresh providers with the same (empty) history are no evidence of anything:
    -> (a with those fields replaced by '<volatile>', list of masked paths)"""
    masked = []

    def go(x, y, path):
        if isinstance(x, dict) and isinstance(y, dict):
            return {k: go(x[k], y.get(k, "<absent>"), path + "/" + str(k)) for k in x}
        if isinstance(x, (list, tuple)) and isinstance(y, (list, tuple)) and len(x) == len(y):
            return [go(p, q, path + "[%d]" % i) for i, (p, q) in enumerate(zip(x, y))]
        if x != y:
            masked.append(path)
            return "<volatile>"
        return x
    return go(a, b, ""), masked


def apply_mask(x, masked, path=""):
    if path in masked:
        return "<volatile>"
    if isinstance(x, dict):
        return {k: apply_mask(v, masked, path + "/" + str(k)) for k, v in x.items()}
    if isinstance(x, (list, tuple)):
        return [apply_mask(v, masked, path + "[%d]" % i) for i, v in enumerate(x)]
    return x


def run_order_experiments(ctx, rng, reb, quick):
    """see the module docstring; violations: SIG_ORDER (a client's result depends on the prefix), SIG_CENSUS"""
    clock = reb.clock
    T0 = 1_700_000_000
    nprefix = 2 if quick else 12
    masked_all = set()
    for variant in AUTHZ_VARIANTS:
        # ---- reference: each client's probe flow on fresh providers
        ref = {}
        for cid in OC:
            for si, scope in enumerate(PROBE_SCOPES[:2 if quick else 3]):
                res = []
                for _ in range(2):
                    clock.now = T0
                    X = OrderExec(make_order_provider(variant), clock)
                    reb.rebind()
                    res.append(json.loads(json.dumps(X.probe(cid, scope))))
                m, masked = mask(res[0], res[1])
                masked_all |= set(masked)
                ref[(cid, si)] = (m, set(masked))
                ctx.case_seen({"order": "reference", "variant": variant, "client": cid, "scope": scope,
                               "steps": [s for s, _ in res[0]]}, any("access_token" in r for _, r in res[0]))
        # ---- the same probes after prefixes of other clients' flows
        for pi in range(nprefix):
            clock.now = T0
            server = make_order_provider(variant)
            reb.rebind()
            state = {"census": census(server), "req": 0}
            history = []

            def on_request(label, fn, server=server, state=state, history=history):
                try:
                    return fn()
                finally:
                    state["req"] += 1
                    c1 = census(server)
                    if c1 != state["census"]:
                        d = census_diff(state["census"], c1)
                        ctx.violation(SIG_CENSUS + ":" + census_key(d),
                                      "JWT provider (%s): request %r changed a long-lived object: %s" % (variant, label, d),
                                      {"variant": variant, "history": list(history), "offending_request": list(map(str, label)),
                                       "replay": "VERIF_SEED=%s ./check C20" % ctx.seed})
                        state["census"] = c1
                    ctx.count("order:request")
            X = OrderExec(server, clock, on_request)
            targets = list(OC)
            rng.shuffle(targets)
            first = True
            for cid in targets:
                # a prefix of flows of the OTHER clients (the first target gets the longest one)
                others = [c for c in OC if c != cid]
                for _ in range(rng.randint(2, 4) if first else rng.randint(0, 2)):
                    oc, kind, sc = rng.choice(others), rng.choice(PREFIX_KINDS), rng.choice(PROBE_SCOPES)
                    history.append(["flow", oc, kind, sc])
                    ctx.count("order-prefix:" + kind)
                    try:
                        X.prefix_flow(oc, kind, sc)
                    except Exception as e:
                        history.append(["exception", type(e).__name__])
                    clock.tick(rng.choice([0, 1, 7]))
                first = False
                si = rng.randrange(2 if quick else 3)
                scope = PROBE_SCOPES[si]
                history.append(["probe", cid, scope])
                got = json.loads(json.dumps(X.probe(cid, scope)))
                want, masked = ref[(cid, si)]
                got = apply_mask(got, masked)
                same = got == want
                ctx.case_seen({"order": "probe", "variant": variant, "prefix": pi, "client": cid, "scope": scope,
                               "history": [h[:3] for h in history[:-1]], "same": same}, len(history) > 1)
                ctx.count("order:probe")
                if not same:
                    ctx.violation(SIG_ORDER,
                                  "JWT provider (%s): the probe flow of %s (scope %s) served after %s differs from the same flow on a "
                                  "fresh provider at %s  [after-history vs fresh]"
                                  % (variant, cid, scope, json.dumps([h for h in history[:-1]])[:400], deep_diff(got, want)),
                                  {"variant": variant, "client": cid, "scope": scope, "history": list(history),
                                   "got": got, "fresh": want, "replay": "VERIF_SEED=%s ./check C20" % ctx.seed})
    if masked_all:
        ctx.notes.append("order experiments: fields that differ between two fresh providers (masked): %s" % sorted(masked_all)[:12])
    ctx.notes.append("census: a request may change only what hangs under the attribute names %s" % sorted(REQUEST_STATE))
    for k, why in sorted(REQUEST_STATE.items()):
        ctx.notes.append("census exception %s: %s" % (k, why))
