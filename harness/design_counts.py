#!/usr/bin/env python3
"""Rewrites the 'Props theorems' column of the table in DESIGN.md section 0.1 from coq/Props/Cxx.v."""
import os, re
ROOT = os.path.dirname(os.path.dirname(os.path.abspath(__file__)))


def counts(p):
    src = open(os.path.join(ROOT, "coq", "Props", p + ".v")).read()
    t = len(re.findall(r"^(?:Theorem|Lemma|Corollary)\b", src, re.M))
    e = len(re.findall(r"^Example\b", src, re.M))
    return "%d (+%d Ex.)" % (t, e) if e else "%d" % t


def main():
    path = os.path.join(ROOT, "DESIGN.md")
    lines = open(path).read().split("\n")
    for i, ln in enumerate(lines):
        m = re.match(r"^\| (C\d\d) \| ", ln)
        if not m:
            continue
        cells = ln.split(" | ")
        if len(cells) < 6:
            continue
        cells[2] = counts(m.group(1))
        lines[i] = " | ".join(cells)
    open(path, "w").write("\n".join(lines))


if __name__ == "__main__":
    main()
