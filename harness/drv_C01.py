"""C01 driver — client authentication at the token, introspection, revocation, PAR and userinfo endpoints.

Every case is one request pushed through the REAL Endpoint.parse_request (UserInfo.parse_request for
userinfo) of a full provider (srv.make_server).  Spies installed on the endpoint *instances*
(client_authentication, verify_request, do_post_parse_request) record what the real code decided:
the auth_info / exception of client_authentication, and the client id / authenticated flag that
parse_request hands on.  The same case (configuration, symbolic request, clock, replay cache before)
is evaluated by the Gallina model (Model/ClientAuthn.v, chk_case) inside coqc.

The oracle is written from the property text and does not call the model: the generator knows which
key material every credential was made with, which client a bearer token was minted for, and which
(iss, jti) pairs were accepted earlier in the same history.
"""
import base64
import copy
import json
import os
import re

import engine as E
from engine import coq_str, coq_list, coq_bool, coq_z, coq_nat, coq_opt

RULE = ("configurations = endpoint (token, introspection, token_revocation, pushed_authorization, userinfo) x "
        "client_authn_method list (the configured default, None, [], and sampled subsets/orders of the 9 registered "
        "methods; thorough: every subset in two orders) x allowed targets (endpoint | endpoint+issuer) x per-client "
        "method restriction (absent | general subset | endpoint-specific subset) x client_secret_expires_at "
        "(absent, 0, past, future) x key jar variant; per configuration one history sharing one jti_db: a genuine "
        "credential per method, then the single-fault matrix (cross-client secret, expired secret, wrong/absent/"
        "issuer/other-endpoint aud, expired / exp-less / not-yet-valid assertion, jti replay after 0/1/5/50 "
        "intervening requests, no jti, HS signed with another client's secret / with the public key bytes / with a "
        "second oct key, RS/ES signed by another client's or an unregistered key, iss != body client_id, alg none, "
        "not a JWT, malformed Basic, header and body naming different clients, request objects, bearer tokens of "
        "another client, smuggled 'authenticated' parameter), the identity matrix (a genuine Basic / client_secret_jwt / "
        "private_key_jwt RS+ES / bearer header / bearer body / request object credential of client A x body client_id naming "
        "another confidential client, the public client, an unregistered id, or A itself; two complete credentials of two "
        "clients in one request: judged is the client_id the PARSED request carries), the inner-claims matrix (an assertion / "
        "request object that client A signs with its OWN secret or registered key, HS/RS/ES, whose claims disagree with each "
        "other or with the signer: sub of another registered / the public / an unknown client, sub absent or empty, azp or "
        "client_id claim naming another client, all three, iss absent with sub of A or B, iss of B or of an unknown id "
        "signed by A x body client_id of A / B / absent: judged from who signed - processed as the signer or refused, "
        "never as the client a claim names), then random pairs of faults; plus "
        "a deterministic processing block (revocation of a fresh token of either client, redeeming a fresh authorization "
        "code of either client, and PAR: each credential kind x "
        "body client_id, and each inner-claim variant of an assertion signed by the holder, parse_request then "
        "process_request, judged: whose token was revoked / whose code was redeemed / for whom a request was "
        "stored) and client_credentials at an OAuth2 token endpoint (judged: owner of the issued token); plus a deterministic block of "
        "long-lived assertions (exp +1 h / +1 day) replayed after clock advances of 0/599/600/601/3599 s/12 h with 0 or 3 "
        "fresh assertions in between, at the same and at another endpoint; the kid header of every JWT kind (absent, "
        "the thumbprint of the signing key, the kid of another key of the client / of another client / of the provider, "
        "of no key) x key jars that hold two symmetric keys for a client in both orders (the client database names one of "
        "them as the secret); plus a deterministic block of CREDENTIAL HISTORIES on providers of their own: a client "
        "registers and registers anew under its id (Registration.process_request(req, new_id=False); also with a "
        "provider-chosen id) with another jwks / no jwks / a jwks_uri, refused registrations in between, deletion and "
        "re-registration of the id, secret expiry and renewal, a jwks_uri document that is replaced, a deployer filing "
        "keys and storing another secret by hand - after EVERY operation the model's cred_step is compared with the real "
        "client database and key jar, and the credential matrix of ALL generations of the client's material (Basic, POST, "
        "client_secret_jwt, private_key_jwt RS/ES, request object; kid of the key / no kid / kid of the key in force) goes "
        "through parse_request at all five endpoints, judged: accepted as X only with the material in force; a case is "
        "non-trivial when at least one method is usable for the request; plus a deterministic block of DELIVERY FORMS on a "
        "provider that owns an RSA and an EC decryption key (and on every credential-history provider): client_assertion / "
        "request object inside a compact JWE (RSA-OAEP / ECDH-ES; cty JWT / absent; made for the provider's key or a "
        "stranger's; one layer or a JWE inside a JWE) around bare JSON claims naming a registered client, an alg=none JWS, "
        "a JWS signed with an unregistered key / another client's key or secret / the client's superseded secret or "
        "superseded registered key, the genuine HS / RS / ES assertion, plain text; x the five endpoints x six method lists "
        "(the three JWS-based methods, None = the whole registry, private_key_jwt alone, client_secret_jwt + basic, "
        "request_param + post, the configured default) x body client_id absent / naming the client; parse_request against "
        "the model's open_assertion / seen, then process_request (revocation, PAR, code redemption) and "
        "client_credentials at an OAuth2 provider owning decryption keys - judged from generator ground truth: the "
        "INNERMOST object and whose current key material signed it, whatever surrounds it")
ASSUMPTIONS = [
    "cryptojwt verifies JWS signatures ideally: a signature verifies only under the key that made it (symbolic model)",
    "cryptojwt JWT.unpack / JsonWebToken.verify use a 15 s clock skew: an assertion counts as unexpired while now < exp + 15",
    "key-jar selection is modelled for JWS headers without kid (0/1/many rule of KeyJar._add_key) and with a kid "
    "(KeyIssuer.get / JWx.pick_keys by kid); a key's kid is a function of its material (thumbprints); an empty kid "
    "header (= none) is never sent; jku / x5c headers are absent",
    "the key jar the model evaluates on is read from the real KeyJar before every history (bundle order, inactive keys "
    "of a refreshed jwks_uri bundle left out as KeyBundle.get does); fetching a jwks_uri document is an environment step",
    "endpoint.get_client_id_from_token (bearer methods) is an environment function cx_tok; that a token resolves only "
    "to the client it was minted for is property C04",
    "also_known_as, get_client_info and automatic_registration hooks of verify_client are absent (defaults)",
    "JWE: decryption is ideal (only the holder of the private key a wrapper was made for opens it); what JWT.unpack makes of "
    "an opened wrapper (cty JWT -> the content must be a JWS and is verified; otherwise JSON -> claims without a signature "
    "check, anything else -> the plaintext itself) is the function open_assertion, compared on every wrapped request; "
    "the content encryption (A128CBC-HS256) and damaged ciphertexts are not varied (C16 varies them for request objects)",
]

NOW0 = 1_700_000_000
ISS = "https://example.com/"
EPS = ["token", "introspection", "token_revocation", "pushed_authorization", "userinfo"]
METHS = ["client_secret_basic", "client_secret_post", "bearer_header", "bearer_body", "client_secret_jwt",
         "private_key_jwt", "request_param", "public", "none"]
MCOQ = dict(zip(METHS, ["MBasic", "MPost", "MBearerHeader", "MBearerBody", "MSecretJwt", "MPrivateJwt",
                        "MRequestParam", "MPublic", "MNone"]))
JWT_METHS = ("client_secret_jwt", "private_key_jwt", "request_param")
A_TYPE = "urn:ietf:params:oauth:client-assertion-type:jwt-bearer"
EXC = {"ClientAuthenticationError": "(Refused 1)", "UnknownClient": "(Refused 2)", "InvalidClient": "(Refused 3)",
       "InvalidToken": "(Refused 4)", "UnAuthorizedClient": "(Refused 5)",
       "BearerTokenAuthenticationError": "(Refused 6)", "KeyError": "KeyError", "TypeError": "TypeError",
       "ValueError": "ValueError", "AttributeError": "AttributeError", "IndexError": "IndexError"}
SKEW = 15
SECOND_OCT = "second_oct_key_of_client_2_0123456789abcdef"
OWN_OCT = "the_providers_own_symmetric_key_0123456789ab"
ROTATED = "rotated_secret_of_client_4_0123456789abcdef01"
CLIENTS = ["client_1", "client_2", "client_3", "client_4"]
BASE_BODY = {
    "token": {"grant_type": "authorization_code", "code": "no-such-code", "redirect_uri": "https://client_1.example.com/cb"},
    "introspection": {"token": "no-such-token"},
    "token_revocation": {"token": "no-such-token"},
    "pushed_authorization": {"response_type": "code", "redirect_uri": "https://client_1.example.com/cb",
                             "scope": "openid", "state": "st"},
    "userinfo": {},
}


# ------------------------------------------------------------------ key material (cached)
def load_keys(ctx):
    from cryptojwt.jwk.rsa import new_rsa_key
    from cryptojwt.jwk.ec import new_ec_key
    from cryptojwt.jwk.jwk import key_from_jwk_dict
    path = os.path.join(E.BUILD, "C01", "keys.json")
    os.makedirs(os.path.dirname(path), exist_ok=True)
    raw = json.load(open(path)) if os.path.exists(path) else {}
    missing = [(kind, n) for n in (1, 2, 3, 4, 5) for kind in ("rsa", "ec") if "%s%d" % (kind, n) not in raw]
    if missing:
        for kind, n in missing:
            d = (new_rsa_key() if kind == "rsa" else new_ec_key("P-256")).serialize(private=True)
            d.pop("kid", None)
            raw["%s%d" % (kind, n)] = d
        tmp = path + ".tmp%d" % os.getpid()
        json.dump(raw, open(tmp, "w"))
        os.replace(tmp, path)
    return {k: key_from_jwk_dict(dict(v)) for k, v in raw.items()}


def pub_jwk(key):
    d = key.serialize(private=False)
    d.pop("kid", None)
    return d


def key_fp(k):
    """the public material of a key (what identifies it, whatever kid it carries)"""
    d = k.serialize(private=False)
    return json.dumps({x: d[x] for x in ("kty", "n", "e", "crv", "x", "y", "k") if x in d}, sort_keys=True)


def kid_for(world, key):
    """the kid client libraries put into the JWS header and KeyBundle gives a key that comes without one: the
    thumbprint of the key material.  key = ("sym", secret) | ("oct", secret) | ("rsa", n) | ("ec", n)"""
    from cryptojwt.jwk.hmac import SYMKey
    from cryptojwt.jwk.jwk import key_from_jwk_dict
    cache = world.__dict__.setdefault("_kids", {})
    if key not in cache:
        kind, kv = key
        if kind in ("sym", "oct"):
            k = SYMKey(key=sym_bytes(world, kv))
        else:
            k = key_from_jwk_dict(pub_jwk(world.keys["%s%d" % (kind, kv)]))
        k.add_kid()
        cache[key] = k.kid
    return cache[key]


def observe_keyjar(world):
    """what the provider's key jar holds NOW for signature verification, in symbolic form (read from the real
    KeyJar, not from the generator's book-keeping): issuer id -> [(kind, value)] in bundle order, the provider's
    own keys, and the kid every key carries.  Inactive keys (a jwks_uri document that dropped them) are not
    used for verification (KeyBundle.get(only_active=True)) and are left out."""
    kj = world.server.keyjar
    names = world.__dict__.get("_fps")
    if names is None:
        names = world._fps = {key_fp(k): n for n, k in world.keys.items()}
    iss, own, kids = {}, [], {}
    for owner in kj.owners():
        if owner == ISS:
            continue
        lst, unknown = [], 0
        for kb in kj[owner]:
            for k in kb.keys():
                if k.inactive_since or (k.use and k.use != "sig"):
                    continue
                if k.kty == "oct":
                    sym = ("oct", k.key.decode("utf-8"))
                else:
                    kind = "rsa" if k.kty == "RSA" else "ec"
                    n = names.get(key_fp(k))
                    if n is not None:
                        sym = (kind, int(n[len(kind):]))
                    else:
                        # the provider's own keys are number 0 (further ones 100, 101, ...); an unknown key 900+
                        same = [x for x in lst if x[0] == kind]
                        sym = (kind, (0 if not same else 99 + len(same)) if owner == "" else 900 + unknown)
                        unknown += owner != ""
                lst.append(sym)
                kids[sym] = k.kid or ""
        if owner == "":
            own = lst
        else:
            iss[owner] = lst
    return iss, own, kids


# ------------------------------------------------------------------ delivery forms: encrypted wrappers
# A client_assertion / request object AS DELIVERED is a bare spec (compact JWS, "notjwt") or a wrapper
#   {"jwe": {"alg": "RSA-OAEP" | "ECDH-ES", "cty": "JWT" | None, "to": "OP" | "other"}, "inner": <content>}
# whose content is a bare spec, "notjwt" (some text), {"json": spec} (the bare JSON claims of spec: nobody signed) or
# another wrapper.  "to": whose public encryption key the JWE was made for - the provider's or a stranger's.
ENC = {}
JWE_KTY = {"RSA-OAEP": "RSA", "ECDH-ES": "EC"}


def enc_keys():
    """encryption key pairs: the provider's (filed in the key jar of the worlds that own encryption keys, the
    public halves are what a provider publishes) and a stranger's; generated once per process"""
    if not ENC:
        from cryptojwt.jwk.ec import new_ec_key
        from cryptojwt.jwk.rsa import new_rsa_key
        for who in ("OP", "other"):
            ENC[who] = {"RSA": new_rsa_key(use="enc", kid="%s-enc-rsa" % who),
                        "EC": new_ec_key("P-256", use="enc", kid="%s-enc-ec" % who)}
    return ENC


def own_enc_keys(server):
    """the provider owns an RSA and an EC decryption key (what a provider that supports encrypted request objects has)"""
    from cryptojwt.key_bundle import KeyBundle
    kb = KeyBundle()
    for k in enc_keys()["OP"].values():
        kb.append(k)
    server.keyjar.add_kb("", kb)


def is_wrapped(spec):
    return isinstance(spec, dict) and "jwe" in spec


def wrap(content, alg="RSA-OAEP", cty="JWT", to="OP"):
    return {"jwe": {"alg": alg, "cty": cty, "to": to}, "inner": content}


def core(spec):
    """generator ground truth for the oracle: the INNERMOST object of a delivered assertion when that is a JWS (the
    only thing in it a client's key can have signed), else "notjwt" - bare JSON claims and text are nobody's
    credential, however many wrappers surround them and whoever can open them"""
    while is_wrapped(spec):
        spec = spec["inner"]
    if isinstance(spec, dict) and "json" in spec:
        return "notjwt"
    return spec


def oracle_view(rq):
    """the request as the oracle judges it: every delivered object replaced by its core"""
    if not any(is_wrapped(rq.get(f)) for f in ("assertion", "request")):
        return rq
    out = dict(rq)
    for f in ("assertion", "request"):
        if is_wrapped(out.get(f)):
            out[f] = core(out[f])
    return out


def wire_text(world, content):
    if is_wrapped(content):
        from cryptojwt.jwe.jwe import JWE
        h = content["jwe"]
        kw = {"cty": h["cty"]} if h.get("cty") else {}
        return JWE(wire_text(world, content["inner"]), alg=h["alg"], enc="A128CBC-HS256", **kw).encrypt(
            keys=[enc_keys()[h["to"]][JWE_KTY[h["alg"]]]])
    if isinstance(content, dict) and "json" in content:
        return json.dumps(jwt_claims(content["json"]))
    return sign_jwt(world, content)


# ------------------------------------------------------------------ the world: a real provider + symbolic mirror
class World:
    def __init__(self, ctx, keys, variant):
        import srv
        from idpyoidc.server.authn_event import create_authn_event
        from idpyoidc.message.oidc import AuthorizationRequest
        self.variant = variant
        self.keys = keys
        self.server = srv.make_server(clients=("client_1", "client_2", "client_4"))
        c = self.server.context
        self.c = c
        c.cdb["client_3"] = {"client_id": "client_3", "redirect_uris": [("https://client_3.example.com/cb", None)],
                             "client_salt": "salted", "token_endpoint_auth_method": "none",
                             "response_types_supported": ["code"], "allowed_scopes": ["openid"]}
        kj = self.server.keyjar
        kj.import_jwks({"keys": [pub_jwk(keys["rsa1"]), pub_jwk(keys["ec1"])]}, "client_2")
        kj.import_jwks({"keys": [pub_jwk(keys["rsa2"]), pub_jwk(keys["ec2"])]}, "client_4")
        self.secret = {cid: c.cdb[cid]["client_secret"] for cid in ("client_1", "client_2", "client_4")}
        # symbolic key jar (bundle order = insertion order)
        self.kj_iss = {"client_1": [("oct", self.secret["client_1"])],
                       "client_2": [("oct", self.secret["client_2"]), ("rsa", 1), ("ec", 1)],
                       "client_4": [("oct", self.secret["client_4"]), ("rsa", 2), ("ec", 2)]}
        self.kj_own = [("rsa", 0), ("ec", 0)]
        if variant == "two_oct":
            kj.add_symmetric("client_2", SECOND_OCT)
            self.kj_iss["client_2"].append(("oct", SECOND_OCT))
        elif variant == "own_oct":
            kj.add_symmetric("", OWN_OCT)
            self.kj_own.append(("oct", OWN_OCT))
        elif variant in ("rot_jar", "enc"):
            # a second symmetric key filed LATER under client_4 (a deployer who rotates a secret files the new one
            # with keyjar.add_symmetric: the old one stays): which of the two is the secret is the client database's say
            kj.add_symmetric("client_4", ROTATED)
            self.kj_iss["client_4"].append(("oct", ROTATED))
        elif variant == "rot_jar_new_first":
            # the same two keys in the other order
            del kj["client_4"]
            kj.add_symmetric("client_4", ROTATED)
            kj.add_symmetric("client_4", self.secret["client_4"])
            kj.import_jwks({"keys": [pub_jwk(keys["rsa2"]), pub_jwk(keys["ec2"])]}, "client_4")
            self.kj_iss["client_4"] = [("oct", ROTATED)] + self.kj_iss["client_4"]
        if variant in ("enc", "rotation-enc"):
            # the provider owns decryption keys as well (the key jar of rot_jar otherwise): compact JWEs are opened
            own_enc_keys(self.server)
        obs = observe_keyjar(self)
        if obs[0] != self.kj_iss or obs[1] != self.kj_own:
            ctx.broken.append("the provider's key jar (%r, own %r) is not what the harness filed (%r, own %r)" % (
                obs[0], obs[1], self.kj_iss, self.kj_own))
        self.base_cdb = {cid: copy.deepcopy(c.cdb[cid]) for cid in CLIENTS}
        # bearer tokens minted for client_1 and client_2
        sm = c.session_manager
        self.tokens = {}      # alias -> real value
        self.token_owner = {}  # alias -> client the token was minted for (None: never minted)
        self.sess = {}        # client -> (session id, code) for minting further access tokens
        self.last_parsed = None
        for alias, cid in (("T1", "client_1"), ("T2", "client_2")):
            ar = AuthorizationRequest(client_id=cid, redirect_uri="https://%s.example.com/cb" % cid,
                                      scope=["openid"], state="s", response_type="code")
            sid = sm.create_session(create_authn_event("diana"), ar, "diana", client_id=cid, sub_type="public")
            g = sm[sid]
            code = g.mint_token(session_id=sid, context=c, token_class="authorization_code",
                                token_handler=sm.token_handler["authorization_code"])
            at = g.mint_token(session_id=sid, context=c, token_class="access_token",
                              token_handler=sm.token_handler["access_token"], based_on=code)
            self.tokens[alias] = at.value
            self.token_owner[alias] = cid
            self.sess[cid] = (sid, code)
            if alias == "T2":
                self.tokens["TC"] = code.value
                self.token_owner["TC"] = None      # a code, not an access token
        self.tokens["TG"] = "garbage-token"
        self.token_owner["TG"] = None
        self.alias_of = {v: k for k, v in self.tokens.items()}
        self.eps = {n: self.server.get_endpoint(n) for n in EPS}
        self.default_methods = {n: list(self.eps[n].client_authn_method) for n in EPS}
        self.seen = {}
        for n in EPS:
            self._spy(n, self.eps[n])

    def _spy(self, name, ep):
        seen = self.seen
        orig_ca, orig_vr, orig_pp = ep.client_authentication, ep.verify_request, ep.do_post_parse_request

        def client_authentication(request, http_info=None, **kw):
            try:
                r = orig_ca(request, http_info, **kw)
            except Exception as e:
                seen["auth"] = ("exc", type(e).__name__)
                raise
            seen["auth"] = ("ok", {k: v for k, v in r.items() if k != "jwt"}, "client_id" in r)
            return r

        def verify_request(request, keyjar, client_id, verify_args, lap=0):
            # client_id: what parse_request hands on; request.get("client_id"): the identity the parsed request
            # itself carries (the one every process_request reads)
            seen["generic"] = (client_id, bool(request.get("authenticated")))
            seen["req_client"] = request.get("client_id")
            return orig_vr(request=request, keyjar=keyjar, client_id=client_id, verify_args=verify_args, lap=lap)

        def do_post_parse_request(request, client_id="", **kw):
            if name == "userinfo":
                seen["userinfo"] = (client_id, request.get("access_token"))
                seen["req_client"] = request.get("client_id")
            if name != "userinfo":
                seen["post_req_client"] = request.get("client_id")
            return orig_pp(request=request, client_id=client_id, **kw)

        ep.client_authentication = client_authentication
        ep.verify_request = verify_request
        ep.do_post_parse_request = do_post_parse_request

    def own_kid(self, kind):
        """the kid of the provider's own signing key of that kind"""
        _iss, own, kids = observe_keyjar(self)
        return next((kids[k] for k in own if k[0] == kind), "none")

    def mint_access(self, cid):
        """a fresh access token owned by cid (not one of the aliases the model knows)"""
        sm = self.c.session_manager
        sid, code = self.sess[cid]
        return sm[sid].mint_token(session_id=sid, context=self.c, token_class="access_token",
                                  token_handler=sm.token_handler["access_token"]).value

    def mint_code(self, cid):
        """a fresh authorization code of cid's session (redeemable once at the token endpoint)"""
        sm = self.c.session_manager
        sid, _code = self.sess[cid]
        return sm[sid].mint_token(session_id=sid, context=self.c, token_class="authorization_code",
                                  token_handler=sm.token_handler["authorization_code"]).value

    def token_revoked(self, value):
        info = self.c.session_manager.get_session_info_by_token(value, grant=True, handler_key="access_token")
        return bool(info["grant"].get_token(value).revoked)

    # -------- configuration
    def configure(self, cfg):
        c = self.c
        for cid in CLIENTS:
            c.cdb[cid] = copy.deepcopy(self.base_cdb[cid])
            rec = c.cdb[cid]
            o = cfg["clients"].get(cid, {})
            if "expires" in o and "client_secret" in rec:
                rec["client_secret_expires_at"] = o["expires"]
            if o.get("secret") is not None:
                rec["client_secret"] = o["secret"]       # rotated in the client database; the key jar is as the variant filed it
            if o.get("methods") is not None:
                rec["client_authn_method"] = list(o["methods"])
            for epn, lst in o.get("ep_methods", {}).items():
                rec["%s_client_authn_method" % epn] = list(lst)
        ep = self.eps[cfg["ep"]]
        if cfg["methods"] == "default":
            ep.client_authn_method = list(self.default_methods[cfg["ep"]])
        else:
            ep.set_client_authn_methods(client_authn_method=cfg["methods"])
        ep.allowed_targets = [ep.name] + ([""] if cfg["issuer_target"] else [])
        c.jti_db = {}

    def tok_table(self, ep):
        """what the endpoint's get_client_id_from_token does with every token alias (environment function)."""
        from idpyoidc.server.exception import ToOld
        f = getattr(ep, "get_client_id_from_token", None)
        tab = {}
        if f is None:
            return tab
        for alias, val in self.tokens.items():
            try:
                r = f(self.c, val, {})
                tab[alias] = ("client", r)
            except ToOld:
                tab[alias] = ("old",)
            except KeyError:
                tab[alias] = ("keyerror",)
            except Exception:
                tab[alias] = ("other",)
        return tab


# ------------------------------------------------------------------ symbolic request -> real request
_KEYED = {}


def sign_jwt(world, spec):
    from cryptojwt.jws.jws import JWS
    from cryptojwt.jwk.hmac import SYMKey
    if spec == "notjwt":
        return "this-is-not-a-jwt"
    if is_wrapped(spec):
        return wire_text(world, spec)
    claims = jwt_claims(spec)
    kind, kv = spec["key"]
    if spec["alg"] == "none":
        return JWS(json.dumps(claims), alg="none").sign_compact([])
    kid = spec.get("kid") or ""          # the kid header is the signing key object's kid; none without
    if kind == "sym":
        key = SYMKey(key=sym_bytes(world, kv), kid=kid)
    elif kid:
        from cryptojwt.jwk.jwk import key_from_jwk_dict
        cache = _KEYED          # (the key material is the same in every world)
        if (kind, kv, kid) not in cache:
            cache[(kind, kv, kid)] = key_from_jwk_dict(dict(world.keys["%s%d" % (kind, kv)].serialize(private=True), kid=kid))
        key = cache[(kind, kv, kid)]
    else:
        key = world.keys["%s%d" % (kind, kv)]
    return JWS(json.dumps(claims), alg=spec["alg"]).sign_compact([key])


def jwt_claims(spec):
    claims = {}
    for k in ("iss", "aud", "exp", "nbf", "iat", "jti"):
        if spec.get(k) is not None:
            claims[k] = spec[k]
    sub, azp, cid = inner_claims(spec)
    for k, v in (("sub", sub), ("azp", azp), ("client_id", cid)):
        if v is not None:
            claims[k] = v
    return claims


def inner_claims(spec):
    """(sub, azp, client_id) claims INSIDE the signed JWT.  A spec that does not say otherwise is what every
    client library produces: sub = iss (historically "nobody" when there is no iss), no azp, no client_id claim."""
    sub = spec["sub"] if "sub" in spec else (spec.get("iss") or "nobody")
    return sub, spec.get("azp"), spec.get("cid_claim")


def signers_of(world, spec):
    """generator ground truth: the registered clients whose key material MADE this signature (the current client
    secret for HS, a key registered in the key jar for RS / ES) - whatever the claims inside say."""
    if not isinstance(spec, dict) or spec["alg"] == "none":
        return set()
    kind, kv = spec["key"]
    out = set()
    if spec["alg"] == "HS256":
        if kind == "sym":
            out = {cid for cid, rec in world.c.cdb.items() if rec.get("client_secret") is not None and rec["client_secret"] == kv}
    else:
        out = {cid for cid, ks in world.kj_iss.items() if (kind, kv) in ks and kind != "oct"}
    return out


def sym_bytes(world, name):
    """symmetric key material by symbolic name (the name itself unless it denotes public key bytes)."""
    if name.startswith("PEM:"):
        from cryptography.hazmat.primitives import serialization as S
        k = world.keys[name[4:]]
        return k.public_key().public_bytes(S.Encoding.PEM, S.PublicFormat.SubjectPublicKeyInfo).decode()
    return name


def real_request(world, epn, rq):
    body = dict(BASE_BODY[epn])
    for k in ("client_id", "client_secret"):
        if rq.get(k) is not None:
            body[k] = rq[k]
    if rq.get("access_token") is not None:
        body["access_token"] = world.tokens[rq["access_token"]]
    if rq.get("assertion") is not None:
        body["client_assertion"] = sign_jwt(world, rq["assertion"])
        body["client_assertion_type"] = A_TYPE
    if rq.get("request") is not None:
        body["request"] = sign_jwt(world, rq["request"])
    if rq.get("authflag"):
        body["authenticated"] = "true"
    hdr = rq.get("hdr")
    headers = {}
    if hdr is not None:
        if hdr[0] == "basic":
            headers["authorization"] = "Basic " + base64.b64encode(hdr[1].encode("utf-8")).decode()
        elif hdr[0] == "basic_raw":
            headers["authorization"] = "Basic " + hdr[1]
        elif hdr[0] == "bearer":
            headers["Authorization"] = "Bearer " + world.tokens[hdr[1]]
        else:
            headers["authorization"] = "Digest abc"
    return body, headers


# ------------------------------------------------------------------ Coq rendering
def cq_meths(l):
    return coq_list([MCOQ[m] for m in l], "meth")


def cq_optstr(s):
    return coq_opt(s, coq_str, "pystr")


def cq_optz(z):
    return coq_opt(z, coq_z, "Z")


def cq_vkey(k):
    kind, v = k
    if kind == "oct":
        return "(VOct %s)" % coq_str(v)
    return "(%s %s)" % ("VRsa" if kind == "rsa" else "VEc", coq_nat(v))


def cq_content(c):
    if is_wrapped(c):
        h = c["jwe"]
        return "(CJwe %s %s %s)" % (coq_bool(h["to"] == "OP"), coq_bool((h.get("cty") or "").lower() == "jwt"), cq_content(c["inner"]))
    if isinstance(c, dict) and "json" in c:
        return "(CJson %s)" % cq_jwt(c["json"])
    return "(CTok %s)" % ("NotJwt" if c == "notjwt" else "(Jwt %s)" % cq_jwt(c))


def cq_token(spec):
    if spec is None:
        return "(@None token)"
    if spec == "notjwt":
        return "(Some NotJwt)"
    if is_wrapped(spec):
        # the delivered object; [seen] (Model) is the bare token the method loop treats in the same way
        h = spec["jwe"]
        return "(Some (seen (WJwe %s %s %s)))" % (coq_bool(h["to"] == "OP"), coq_bool((h.get("cty") or "").lower() == "jwt"),
                                                  cq_content(spec["inner"]))
    return "(Some (Jwt %s))" % cq_jwt(spec)


def cq_jwt(spec):
    alg = {"none": "AlgNone", "HS256": "AlgHS", "RS256": "AlgRS", "ES256": "AlgES"}[spec["alg"]]
    kind, kv = spec["key"]
    key = "(KSym %s)" % coq_str(kv) if kind == "sym" else "(%s %s)" % ("KRsa" if kind == "rsa" else "KEc", coq_nat(kv))
    aud = "(@None (list pystr))" if spec.get("aud") is None else "(Some %s)" % coq_list([coq_str(a) for a in spec["aud"]], "pystr")
    sub, azp, cid = inner_claims(spec)
    return ("{| j_alg := %s; j_key := %s; j_kid := %s; j_iss := %s; j_sub := %s; j_azp := %s; j_cid := %s; j_aud := %s; "
            "j_exp := %s; j_nbf := %s; j_iat := %s; j_jti := %s |}" % (
                alg, key, cq_optstr(spec.get("kid") or None), cq_optstr(spec.get("iss")), cq_optstr(sub), cq_optstr(azp), cq_optstr(cid), aud,
                cq_optz(spec.get("exp")), cq_optz(spec.get("nbf")), cq_optz(spec.get("iat")), cq_optstr(spec.get("jti"))))


def classify_basic_raw(raw):
    """what CPython's b64decode + UTF-8 decoding make of the text after 'Basic ' (harness-side canonicalisation)."""
    try:
        return ("text", base64.b64decode(raw.encode("utf-8")).decode("utf-8"))
    except ValueError:
        return ("undecodable",)


def cq_header(hdr):
    if hdr is None:
        return "HAbsent"
    if hdr[0] == "basic":
        return "(HBasicText %s)" % coq_str(hdr[1])
    if hdr[0] == "basic_raw":
        c = classify_basic_raw(hdr[1])
        return "(HBasicText %s)" % coq_str(c[1]) if c[0] == "text" else "HBasicUndecodable"
    if hdr[0] == "bearer":
        return "(HBearer %s)" % coq_str(hdr[1])
    return "HOther"


def cq_request(rq):
    return ("{| r_hdr := %s; r_client_id := %s; r_client_secret := %s; r_access_token := %s; r_assertion := %s; "
            "r_request := %s; r_authflag := %s |}" % (
                cq_header(rq.get("hdr")), cq_optstr(rq.get("client_id")), cq_optstr(rq.get("client_secret")),
                cq_optstr(rq.get("access_token")), cq_token(rq.get("assertion")), cq_token(rq.get("request")),
                coq_bool(bool(rq.get("authflag")))))


def cq_client(rec):
    eps = []
    for k, v in rec.items():
        if k.endswith("_client_authn_method"):
            eps.append("(%s, %s)" % (coq_str(k[:-len("_client_authn_method")]), cq_meths(v)))
    meths = "(@None (list meth))" if rec.get("client_authn_method") is None else "(Some %s)" % cq_meths(rec["client_authn_method"])
    return "{| c_secret := %s; c_expires := %s; c_methods := %s; c_ep_methods := %s |}" % (
        cq_optstr(rec.get("client_secret")), cq_optz(rec.get("client_secret_expires_at")), meths,
        coq_list(eps, "(pystr * list meth)"))


def cq_keyjar(world, obs=None):
    """(kj_iss, kj_own, kj_kid) of the Coq keyjar record: what the REAL key jar holds now"""
    iss, own, kids = obs or observe_keyjar(world)
    return (coq_list(["(%s, %s)" % (coq_str(i), coq_list([cq_vkey(k) for k in ks], "vkey")) for i, ks in iss.items()],
                     "(pystr * list vkey)"),
            coq_list([cq_vkey(k) for k in own], "vkey"),
            coq_list(["(%s, %s)" % (cq_vkey(k), coq_str(v)) for k, v in kids.items()], "(vkey * pystr)"))


def cq_tokres(r):
    if r[0] == "client":
        return "(TokClient %s)" % coq_str(r[1])
    return {"old": "TokToOld", "keyerror": "TokKeyError", "other": "TokOther"}[r[0]]


# ------------------------------------------------------------------ one request through the real code
def state_fingerprint(world):
    c = world.c
    cdb = {cid: {k: v for k, v in rec.items() if k != "auth_method"} for cid, rec in c.cdb.items()}
    n_tok = 0
    for _k, node in c.session_manager.db.items():
        n_tok += len(getattr(node, "issued_token", []) or [])
    return json.dumps(cdb, sort_keys=True, default=str), n_tok, len(c.par_db)


def run_request(ctx, world, cfg, rq, now, hist, extra_body=None, extra_rec=None):
    """returns (coq_term, record); applies the oracle.  extra_body: parameters outside the modelled fragment
    (they play no part in client authentication), e.g. the token a revocation request names."""
    c = world.c
    epn = cfg["ep"]
    ep = world.eps[epn]
    body, headers = real_request(world, epn, rq)
    if extra_body:
        body.update(extra_body)
    world.last_parsed = None
    jdb_before = list(c.jti_db.keys())
    fp_before = state_fingerprint(world)
    world.seen.clear()
    outcome = None
    try:
        if epn == "userinfo":
            res = ep.parse_request(dict(body), http_info={"headers": headers})
        else:
            res = ep.parse_request(dict(body), http_info={"headers": headers})
        outcome = ("ret", type(res).__name__, res.get("error") if hasattr(res, "get") else None)
        world.last_parsed = res
        if hasattr(res, "get") and not res.get("error"):
            # what the caller of parse_request gets to hand to process_request
            world.seen["final"] = (res.get("client_id"), bool(res.get("authenticated")))
    except Exception as e:
        outcome = ("exc", type(e).__name__)
    seen = dict(world.seen)
    jdb_after = list(c.jti_db.keys())
    fp_after = state_fingerprint(world)

    # ---- canonical observations
    a = seen.get("auth")
    if a is None:
        obs_auth, auth_ok = "Unmodelled", None
    elif a[0] == "exc":
        obs_auth, auth_ok = "(Err %s)" % EXC.get(a[1], "(Refused 99)"), None
    else:
        info = a[1]
        if not info:
            obs_auth, auth_ok = "(Ok None)", {}
        else:
            cid = info.get("client_id")
            tok = info.get("token")
            tok_alias = world.alias_of.get(tok, tok) if tok is not None else None
            obs_auth = "(Ok (Some {| ai_client := %s; ai_method := %s; ai_token := %s |}))" % (
                cq_optstr(cid), MCOQ.get(info.get("method"), "MNone"), cq_optstr(tok_alias))
            auth_ok = info
    if epn == "userinfo":
        if "userinfo" in seen:
            cid, tok = seen["userinfo"]
            obs_parse = "(Ok (PUserinfo %s %s %s))" % (cq_optstr(cid), cq_optstr(seen.get("req_client")),
                                                       coq_str(world.alias_of.get(tok, tok)))
        elif outcome[0] == "ret" and outcome[2] == "invalid_token":
            obs_parse = "(Ok PUserinfoError)"
        elif outcome[0] == "exc":
            obs_parse = "(Err %s)" % EXC.get(outcome[1], "(Refused 99)")
        else:
            obs_parse = "Unmodelled"
    else:
        if "generic" in seen:
            cid, flag = seen["generic"]
            obs_parse = "(Ok (PGeneric %s %s %s))" % (cq_optstr(cid), cq_optstr(seen.get("req_client")), coq_bool(flag))
        elif outcome[0] == "exc":
            obs_parse = "(Err %s)" % EXC.get(outcome[1], "(Refused 99)")
        else:
            obs_parse = "Unmodelled"

    rec = {"cfg": cfg, "variant": world.variant, "request": rq, "now": now, "jti_db_before": jdb_before, "auth": a, "seen": seen,
           "outcome": outcome, "jti_db_after": jdb_after}
    if extra_rec:
        rec.update(extra_rec)

    # ---- ORACLE (property text; independent of the model)
    oracle(ctx, world, cfg, rq, now, hist, rec, auth_ok, seen, outcome, fp_before, fp_after, jdb_before, jdb_after)

    # ---- Coq step
    new_keys = jdb_after[len(jdb_before):]
    term = "{| h_rq := %s; h_now := %s; h_obs_auth := %s; h_obs_parse := %s; h_new := %s |}" % (
        cq_request(rq), coq_z(now), obs_auth, obs_parse, coq_list([coq_str(k) for k in new_keys], "pystr"))
    return term, rec, obs_auth == "Unmodelled" or obs_parse == "Unmodelled"


_PS_LIT = re.compile(r'\(PS "[^"]*"\)')


def share_literals(term):
    """the same Gallina term with every string literal that occurs more than once bound ONCE by a local `let`
    (elaborating `PS "..."` dominates coqc's time on generated cases: client ids, secrets, kids and endpoint URLs
    recur in every step of a history)"""
    counts = {}
    for lit in _PS_LIT.findall(term):
        counts[lit] = counts.get(lit, 0) + 1
    names = {lit: "lit_%d_" % i for i, lit in enumerate(k for k, n in counts.items() if n >= 2 and len(k) > 10)}
    if not names:
        return term
    body = _PS_LIT.sub(lambda m: names.get(m.group(0), m.group(0)), term)
    return "(" + "".join("let %s := %s in " % (v, k) for k, v in names.items()) + body + ")"


def history_term(ctx, world, cfg, jdb0, steps):
    """the Coq hcase: static configuration of this history + its steps."""
    c = world.c
    epn = cfg["ep"]
    ep = world.eps[epn]
    tab = world.tok_table(ep)
    kjs, kj_own, kj_kid = cq_keyjar(world)
    cdb_t = coq_list(["(%s, %s)" % (coq_str(cid), cq_client(r)) for cid, r in c.cdb.items()], "(pystr * client)")
    cfg_m = cfg["methods"]
    if cfg_m == "default":
        cfg_m = world.default_methods[epn]
    ep_cfg = "(@None (list meth))" if cfg_m is None else "(Some %s)" % cq_meths(cfg_m)
    targets = [ep.full_path] + ([ISS] if cfg["issuer_target"] else [])
    if set(ep.allowed_target_uris()) != set(targets):
        ctx.broken.append("allowed_target_uris() of %s is %r, the harness expected %r" % (epn, ep.allowed_target_uris(), targets))
    ep_t = "{| ep_name := %s; ep_methods := []; ep_targets := %s; ep_lookup := %s; ep_userinfo := %s |}" % (
        coq_str(ep.endpoint_name), coq_list([coq_str(t) for t in targets], "pystr"),
        coq_bool(hasattr(ep, "get_client_id_from_token")), coq_bool(epn == "userinfo"))
    return share_literals("{| hc_cdb := %s; hc_kj := {| kj_iss := %s; kj_own := %s; kj_kid := %s |}; hc_tok := %s; hc_ep_cfg := %s; hc_ep := %s; "
            "hc_jdb0 := %s; hc_steps := %s |}" % (
                cdb_t, kjs, kj_own, kj_kid,
                coq_list(["(%s, %s)" % (coq_str(al), cq_tokres(r)) for al, r in tab.items()], "(pystr * tok_res)"),
                ep_cfg, ep_t, coq_list([coq_str(k) for k in jdb0], "pystr"), coq_list(steps, "hstep")))


# ------------------------------------------------------------------ the oracle
def secret_current(world, cid, now):
    rec = world.c.cdb.get(cid)
    if not rec or "client_secret" not in rec:
        return False
    eta = rec.get("client_secret_expires_at", 0)
    return eta == 0 or eta >= now


def superseded_material(world, cid, key):
    """was this key material (("oct", secret) | ("rsa", n) | ("ec", n)) once in force for cid and is not any more?
    (an earlier generation of a credential history; a symmetric key still filed under cid that is not the secret)"""
    gens = getattr(world, "gens", None)
    if gens is not None and getattr(world, "x", None) == cid:
        cur = world.current()
        now_in_force = ([("oct", cur["secret"])] + list(cur["keys"])) if cur else []
        return key not in now_in_force and any(key == ("oct", g["secret"]) or key in g["keys"] for g in gens)
    if key[0] == "oct":
        return key in world.kj_iss.get(cid, []) and world.c.cdb.get(cid, {}).get("client_secret") != key[1]
    return False


def jwt_valid_for(world, cfg, spec, cid, now, hist, need_aud=True):
    """Is this signed JWT a credential only `cid` could have produced for this endpoint, now?  -> (ok, why-not)"""
    if spec is None or spec == "notjwt":
        return False, "no-jwt"
    if spec.get("iss") != cid:
        return False, "iss"
    kind, kv = spec["key"]
    if spec["alg"] == "HS256":
        if kind == "sym" and ("oct", kv) in world.kj_own:
            # MACed with one of the provider's OWN symmetric keys (key-jar variant own_oct): only the provider
            # could have produced it; counted as an observation, stated as a disjunct of C01_sound
            hist["own_oct"] = hist.get("own_oct", 0) + 1
        elif not (kind == "sym" and world.c.cdb.get(cid, {}).get("client_secret") == kv):
            return False, "superseded-secret" if kind == "sym" and superseded_material(world, cid, ("oct", kv)) else "hs-key"
    elif spec["alg"] in ("RS256", "ES256"):
        reg = [k for k in world.kj_iss.get(cid, []) if k[0] == kind]
        if (kind, kv) not in reg:
            return False, "superseded-key" if superseded_material(world, cid, (kind, kv)) else "asym-key"
    else:
        return False, "alg"
    if need_aud:
        ep = world.eps[cfg["ep"]]
        if not set(spec.get("aud") or []) & {ep.full_path, ISS}:
            return False, "aud"
    if spec.get("exp") is not None and now >= spec["exp"] + SKEW:
        return False, "exp"
    if spec.get("nbf") is not None and now < spec["nbf"] - SKEW:
        return False, "nbf"
    if spec.get("jti") is not None and (cid, spec["jti"]) in hist["accepted_jti"]:
        return False, "jti"
    return True, ""


def proved_identities(world, cfg, rq, now):
    """Property text, from what the generator put into the request (never from what the code answered): the
    clients X such that the request carries a credential only X could have produced - X's current secret in the
    Basic header or the body, an assertion (request object) with iss = X made with X's secret / registered key,
    addressed here, inside its validity, or a bearer token minted for X.  Method lists are not looked at (they are
    judged separately); a replayed jti is judged under jti-replay; a request object's audience under
    request_param-aud.  -> {X: kind of credential}"""
    cdb = world.c.cdb
    out = {}
    rq = oracle_view(rq)
    h = rq.get("hdr")
    if h and h[0] in ("basic", "basic_raw"):
        txt = h[1] if h[0] == "basic" else (classify_basic_raw(h[1])[1] if classify_basic_raw(h[1])[0] == "text" else None)
        if txt is not None and ":" in txt:
            x, sec = txt.split(":", 1)
            if x in cdb and cdb[x].get("client_secret") is not None and cdb[x]["client_secret"] == sec and secret_current(world, x, now):
                out[x] = "basic"
    x, sec = rq.get("client_id"), rq.get("client_secret")
    if x is not None and sec is not None and x in cdb and cdb[x].get("client_secret") is not None \
            and cdb[x]["client_secret"] == sec and secret_current(world, x, now):
        out.setdefault(x, "post")
    for field, need_aud in (("assertion", True), ("request", False)):
        spec = rq.get(field)
        if isinstance(spec, dict) and spec.get("iss") in cdb:
            x = spec["iss"]
            ok, _why = jwt_valid_for(world, cfg, spec, x, now, {"accepted_jti": set()}, need_aud=need_aud)
            if ok and ("client_secret" not in cdb[x] or secret_current(world, x, now)):
                out.setdefault(x, field)
    if h and h[0] == "bearer" and world.token_owner.get(h[1]):
        out.setdefault(world.token_owner[h[1]], "bearer_header")
    if rq.get("access_token") is not None and world.token_owner.get(rq["access_token"]):
        out.setdefault(world.token_owner[rq["access_token"]], "bearer_body")
    return out


def superseded_request_object(world, rq):
    """the client X whose SUPERSEDED secret MACed the request object of this request - a symmetric key that is still
    filed under X in the real key jar but is not the secret X's record holds now - else None"""
    spec = core(rq.get("request"))
    if not (isinstance(spec, dict) and spec["alg"] == "HS256" and spec["key"][0] == "sym"):
        return None
    x = spec.get("iss")
    crec = world.c.cdb.get(x)
    if crec is None or crec.get("client_secret") == spec["key"][1]:
        return None
    return x if ("oct", spec["key"][1]) in observe_keyjar(world)[0].get(x, []) else None


def oracle_identity(ctx, world, cfg, rq, now, rec, seen, epn):
    """(I) a request is processed under the identity its credential proves: wherever the parsed request is
    handed on as authenticated, the client_id IT CARRIES (what the token helpers, revocation, introspection, PAR
    and userinfo read) is a client the request holds a credential of - whatever client_id the body named."""
    proved = proved_identities(world, cfg, rq, now)
    places = []
    if epn == "userinfo":
        if "userinfo" in seen:
            places.append(("the request UserInfo.parse_request hands to do_post_parse_request", seen.get("req_client"), True))
    else:
        if "generic" in seen:
            places.append(("the request parse_request hands to verify_request", seen.get("req_client"), seen["generic"][1]))
        if "post_req_client" in seen and "generic" in seen:
            places.append(("the request parse_request hands to do_post_parse_request", seen["post_req_client"], seen["generic"][1]))
        if "final" in seen:
            places.append(("the request parse_request returns", seen["final"][0], seen["final"][1]))
    # (I0) a request object MACed with a superseded secret of X that the key jar still holds, handed on as X: reported
    # under its own key (method request_param has no counterpart of client_secret_jwt's key == client_secret test)
    stale = superseded_request_object(world, rq)
    if stale is not None and any(flagged and ident == stale for _w, ident, flagged in places) and stale not in proved:
        ctx.violation("request_param-superseded-secret",
                      "%s: a request object MACed with a SUPERSEDED secret of %r (still filed in the key jar; the client "
                      "database holds another secret now) is handed on as client %r, authenticated=True" % (epn, stale, stale), rec)
        return False
    # (I') the claims INSIDE a signed assertion / request object establish nothing: the identity is the signer's
    # (generator ground truth: whose key material made the signature), never the client that sub / azp / the
    # client_id claim name
    for field in ("assertion", "request"):
        spec = rq.get(field)
        if not isinstance(spec, dict):
            continue
        signers = signers_of(world, spec)
        sub, azp, cid = inner_claims(spec)
        named = {"sub": sub, "azp": azp, "client_id": cid}
        odd = {k: v for k, v in named.items() if v != spec.get("iss") and not (k != "sub" and v is None)}
        if odd or not (signers and spec.get("iss") in signers):
            ctx.count("inner-claims:%s:%s" % (field, "inconsistent" if odd else "iss-not-the-signer"))
        for where, ident, flagged in places:
            if ident == spec.get("iss") and not odd:
                continue      # consistent claims, processed as their iss: whether the KEY proves iss is judged below
            if flagged and ident not in signers and ident not in proved and ident in [v for v in named.values() if v is not None]:
                ctx.violation("processed-as-inner-claim:" + "+".join(sorted(k for k, v in named.items() if v == ident)),
                              "%s: %s carries client_id=%r with authenticated=True; the %s was made with the key material of "
                              "%r (iss=%r) and merely NAMES %r in its %s claim(s) (body client_id %r): the request is processed "
                              "as a client that did not sign the credential" % (
                                  epn, where, ident, "client_assertion" if field == "assertion" else "request object",
                                  sorted(signers), spec.get("iss"), ident,
                                  "/".join(sorted(k for k, v in named.items() if v == ident)), rq.get("client_id")), rec)
                return False
    for where, ident, flagged in places:
        if flagged and ident not in proved:
            why = ""
            for field in ("assertion", "request"):
                spec = rq.get(field)
                if isinstance(spec, dict) and spec.get("iss") == ident:
                    why += "; its %s names %r as iss but is no credential of that client: %s" % (
                        field, ident, jwt_valid_for(world, cfg, spec, ident, now, {"accepted_jti": set()}, need_aud=field == "assertion")[1]
                        or "the client's secret has expired")
            ctx.violation("identity-not-proved",
                          "%s: %s carries client_id=%r with authenticated=True, but the only credentials in the request "
                          "are those of %r (body client_id %r, header %r): the request is processed as a client whose "
                          "credential it does not hold%s" % (epn, where, ident, sorted(proved.items()), rq.get("client_id"),
                                                             (rq.get("hdr") or (None,))[0], why), rec)
            return False
    ctx.count("identity:" + ("processed-as-proved" if any(f for _, _, f in places) else "not-authenticated"))
    if any(f for _, _, f in places) and rq.get("client_id") is not None and rq["client_id"] not in proved:
        ctx.count("identity:body-names-another-client-processed-as-proved")
    return True


def oracle(ctx, world, cfg, rq, now, hist, rec, auth_ok, seen, outcome, fp_before, fp_after, jdb_before, jdb_after):
    """all verdicts on one request; the generic identity verdict is listed after the specific ones it comes with
    (the first verdict of a run is the one the replay file shows)"""
    n0 = len(ctx.violations)
    rq = oracle_view(rq)          # a delivered object counts for what its innermost object is: a JWS somebody signed, or nothing
    _oracle(ctx, world, cfg, rq, now, hist, rec, auth_ok, seen, outcome, fp_before, fp_after, jdb_before, jdb_after)
    ctx.violations[n0:] = sorted(ctx.violations[n0:], key=lambda v: v["sig"] == "identity-not-proved")


def _oracle(ctx, world, cfg, rq, now, hist, rec, auth_ok, seen, outcome, fp_before, fp_after, jdb_before, jdb_after):
    epn = cfg["ep"]
    ep = world.eps[epn]
    refused = auth_ok is None
    # (R) a refused request changes nothing but the replay cache, which only grows
    if jdb_after[:len(jdb_before)] != jdb_before:
        ctx.violation("jti-db-shrunk", "the replay cache lost or reordered entries: %r -> %r" % (jdb_before, jdb_after), rec)
    if refused:
        if fp_before != fp_after:
            ctx.violation("refusal-effect", "a refused request changed client database / issued tokens / PAR store", rec)
        if "generic" in seen or "userinfo" in seen:
            ctx.violation("refusal-continues", "client authentication raised but parse_request went on", rec)
        ctx.count("verdict:refused")
        return
    configured = cfg["methods"] if cfg["methods"] != "default" else world.default_methods[epn]
    if auth_ok == {}:
        meth, cid = None, None
        if configured:
            ctx.violation("unauthenticated-pass", "%s has the method list %r, no method accepted the request, yet it was "
                          "not refused" % (epn, configured), rec)
    else:
        meth, cid = auth_ok.get("method"), auth_ok.get("client_id")
    # how does parse_request treat the request?
    if epn == "userinfo":
        treated = seen.get("userinfo", (None, None))[0] if "userinfo" in seen else None
        authenticated = treated is not None
    else:
        treated, authenticated = seen.get("generic", (None, False))
    if not authenticated:
        ctx.count("verdict:passed-unauthenticated")
        oracle_identity(ctx, world, cfg, rq, now, rec, seen, epn)     # the returned request may still claim more
        return
    # (S) authenticated => a credential of that client, through an allowed method
    if meth in (None, "public", "none") or not cid:
        ctx.violation("smuggled-authenticated" if rq.get("authflag") else "authenticated-without-method",
                      "%s: request handed on as authenticated client %r although no authenticating method succeeded "
                      "(method=%r); the body carried authenticated=%r" % (epn, treated, meth, rq.get("authflag")), rec)
        return
    if treated != cid:
        ctx.violation("client-mixup", "%s: authenticated %r but request handed on for %r" % (epn, cid, treated), rec)
    if not oracle_identity(ctx, world, cfg, rq, now, rec, seen, epn) and meth == "request_param" \
            and superseded_request_object(world, rq) == cid:
        return        # reported under request_param-superseded-secret
    ctx.count("verdict:authenticated")
    ctx.count("accepted-by:" + meth)
    ep_allowed = METHS if configured is None else (["none"] if configured == [] else configured)
    if meth not in ep_allowed:
        ctx.violation("method-not-allowed-endpoint", "%s: accepted through %s, endpoint allows %r" % (epn, meth, ep_allowed), rec)
    crec = world.c.cdb.get(cid)
    if crec is None:
        ctx.violation("unknown-client", "%s: accepted as %r which is not registered" % (epn, cid), rec)
        return
    reg = crec.get("%s_client_authn_method" % ep.endpoint_name, crec.get("client_authn_method"))
    if reg is not None and meth not in reg:
        ctx.violation("method-not-allowed-client", "%s: accepted %r through %s, its registration allows %r" % (epn, cid, meth, reg), rec)
    ok, why = False, "?"
    if meth == "client_secret_basic":
        h = rq.get("hdr")
        txt = h[1] if h and h[0] == "basic" else (classify_basic_raw(h[1])[1] if h and h[0] == "basic_raw" and classify_basic_raw(h[1])[0] == "text" else None)
        ok = txt is not None and ":" in txt and txt.split(":", 1) == [cid, crec.get("client_secret")] and secret_current(world, cid, now)
        why = "basic secret"
    elif meth == "client_secret_post":
        ok = rq.get("client_id") == cid and rq.get("client_secret") is not None and rq.get("client_secret") == crec.get("client_secret") \
            and secret_current(world, cid, now)
        why = "post secret"
    elif meth in ("client_secret_jwt", "private_key_jwt"):
        spec = rq.get("assertion")
        ok, why = jwt_valid_for(world, cfg, spec, cid, now, hist)
        if ok and ((meth == "client_secret_jwt") != (spec["alg"] == "HS256")):
            ok, why = False, "method/alg"
        if ok and not secret_current(world, cid, now) and "client_secret" in crec:
            ok, why = False, "expired secret"
    elif meth == "request_param":
        spec = rq.get("request")
        ok, why = jwt_valid_for(world, cfg, spec, cid, now, hist)
        if not ok and why == "aud":
            ok2, why2 = jwt_valid_for(world, cfg, spec, cid, now, hist, need_aud=False)
            if ok2:
                ctx.violation("request_param-aud",
                              "%s: a signed request object whose audience %r is neither this endpoint nor the issuer "
                              "authenticated client %r (method request_param checks no audience)" % (epn, spec.get("aud"), cid), rec)
                ok = True    # reported under its own signature
            else:
                why = why2
    elif meth in ("bearer_header", "bearer_body"):
        alias = rq["hdr"][1] if meth == "bearer_header" and rq.get("hdr") and rq["hdr"][0] == "bearer" else rq.get("access_token")
        ok = alias is not None and world.token_owner.get(alias) == cid
        why = "bearer token of another client"
    if not ok and why != "jti":       # a replayed (iss, jti) is reported below under its own key jti-replay
        ctx.violation("accepted-without-credential:" + str(why).replace(" ", "-"),
                      "%s: authenticated as %r through %s without a valid credential of that client (%s)" % (epn, cid, meth, why), rec)
    # remember accepted (iss, jti)
    if meth in JWT_METHS:
        spec = rq.get("request") if meth == "request_param" else rq.get("assertion")
        if isinstance(spec, dict) and spec.get("jti") is not None:
            k = (spec.get("iss"), spec["jti"])
            if k in hist["accepted_jti"]:
                ctx.violation("jti-replay", "%s: assertion (iss, jti) = %r accepted a second time" % (epn, k), rec)
            hist["accepted_jti"].add(k)


# ------------------------------------------------------------------ generators
def ep_url(world, epn):
    return world.eps[epn].full_path


def good_jwt(world, cfg, cid, alg, now, jti, **over):
    if alg == "HS256":
        key = ("sym", world.secret.get(cid, "no-secret-for-" + cid))
    else:
        n = {"client_2": 1, "client_4": 2}.get(cid, 3)
        key = ("rsa" if alg == "RS256" else "ec", n)
    # exp / nbf / iat are offsets from the moment the request is sent (resolved by resolve_times)
    spec = {"alg": alg, "key": key, "iss": cid, "aud": [ep_url(world, cfg["ep"])], "exp": 3000, "jti": jti, "rel": True}
    spec.update(over)
    return spec


def absolute(sp, now):
    """the spec with exp / nbf / iat as points in time (a wrapper's content is made at once)"""
    sp = dict(sp)
    if sp.pop("rel", None):
        for t in ("exp", "nbf", "iat"):
            if sp.get(t) is not None:
                sp[t] = now + sp[t]
    return sp


def resolve_times(rq, now):
    out = dict(rq)
    for f in ("assertion", "request"):
        sp = out.get(f)
        if isinstance(sp, dict) and sp.get("rel"):
            sp = dict(sp)
            del sp["rel"]
            for t in ("exp", "nbf", "iat"):
                if sp.get(t) is not None:
                    sp[t] = now + sp[t]
            out[f] = sp
    return out


def genuine_requests(world, cfg, now, tag):
    """one genuine credential per method (for the clients able to produce it)."""
    s = world.secret
    out = []
    for cid in ("client_1", "client_2"):
        out.append(("genuine:basic", {"hdr": ("basic", "%s:%s" % (cid, s[cid]))}))
        out.append(("genuine:post", {"client_id": cid, "client_secret": s[cid]}))
        out.append(("genuine:secret_jwt", {"assertion": good_jwt(world, cfg, cid, "HS256", now, "g-hs-%s-%s" % (cid, tag))}))
    out.append(("genuine:private_rs", {"assertion": good_jwt(world, cfg, "client_2", "RS256", now, "g-rs-" + tag)}))
    out.append(("genuine:private_es", {"assertion": good_jwt(world, cfg, "client_2", "ES256", now, "g-es-" + tag)}))
    out.append(("genuine:private_rs4", {"assertion": good_jwt(world, cfg, "client_4", "RS256", now, "g-rs4-" + tag)}))
    out.append(("genuine:secret_jwt-kid", {"assertion": good_jwt(world, cfg, "client_1", "HS256", now, "g-hsk-" + tag,
                                                                  kid=kid_for(world, ("sym", s["client_1"])))}))
    out.append(("genuine:private_es-kid", {"assertion": good_jwt(world, cfg, "client_2", "ES256", now, "g-esk-" + tag,
                                                                  kid=kid_for(world, ("ec", 1)))}))
    out.append(("genuine:bearer_header", {"hdr": ("bearer", "T1")}))
    out.append(("genuine:bearer_body", {"access_token": "T2"}))
    out.append(("genuine:request_param", {"request": good_jwt(world, cfg, "client_2", "RS256", now, "g-rp-" + tag)}))
    out.append(("genuine:public", {"client_id": "client_3"}))
    out.append(("genuine:none", {}))
    return out


def fault_matrix(world, cfg, now, tag):
    """every individual check violated alone."""
    s = world.secret
    other_ep = "introspection" if cfg["ep"] != "introspection" else "token"
    def J(cid, alg, name, **o):
        jti = o.pop("jti", "f-%s-%s" % (name, tag))
        return good_jwt(world, cfg, cid, alg, now, jti, **o)
    F = []
    add = lambda name, rq: F.append(("fault:" + name, rq))
    # secrets
    add("basic-cross-secret", {"hdr": ("basic", "client_1:%s" % s["client_2"])})
    add("post-cross-secret", {"client_id": "client_1", "client_secret": s["client_2"]})
    add("basic-wrong-secret", {"hdr": ("basic", "client_2:wrong")})
    add("post-wrong-secret", {"client_id": "client_2", "client_secret": "wrong"})
    add("basic-unknown-client", {"hdr": ("basic", "nobody:%s" % s["client_1"])})
    add("post-unknown-client", {"client_id": "nobody", "client_secret": s["client_1"]})
    add("basic-public-client", {"hdr": ("basic", "client_3:anything")})
    add("post-public-client", {"client_id": "client_3", "client_secret": "anything"})
    add("basic-no-colon", {"hdr": ("basic", "client_1" + s["client_1"])})
    add("basic-bad-base64", {"hdr": ("basic_raw", "abc")})
    add("basic-junk-base64", {"hdr": ("basic_raw", "!!!")})
    add("basic-non-utf8", {"hdr": ("basic_raw", base64.b64encode(b"\xff\xfe:ab").decode())})
    add("basic-secret-with-colon", {"hdr": ("basic", "client_1:%s:x" % s["client_1"])})
    add("basic-empty-secret", {"hdr": ("basic", "client_1:")})
    add("basic-nonascii", {"hdr": ("basic", "client_1:hämligt")})
    add("other-scheme", {"hdr": ("other",)})
    add("no-credentials", {})
    add("client-id-only", {"client_id": "client_1"})
    add("header-vs-body-client", {"hdr": ("basic", "client_1:%s" % s["client_1"]), "client_id": "client_2", "client_secret": s["client_2"]})
    add("header-good-body-bad", {"hdr": ("basic", "client_1:%s" % s["client_1"]), "client_id": "client_2", "client_secret": "wrong"})
    add("header-bad-body-good", {"hdr": ("basic", "client_1:wrong"), "client_id": "client_2", "client_secret": s["client_2"]})
    add("body-id-vs-header", {"hdr": ("basic", "client_2:%s" % s["client_2"]), "client_id": "client_1"})
    # assertions: audience
    add("aud-wrong", {"assertion": J("client_1", "HS256", "audw", aud=["https://elsewhere.example.org/token"])})
    add("aud-absent", {"assertion": J("client_1", "HS256", "auda", aud=None)})
    add("aud-issuer", {"assertion": J("client_1", "HS256", "audi", aud=[ISS])})
    add("aud-other-endpoint", {"assertion": J("client_2", "RS256", "audo", aud=[ep_url(world, other_ep)])})
    add("aud-two-one-good", {"assertion": J("client_2", "ES256", "aud2", aud=["https://elsewhere.example.org/", ep_url(world, cfg["ep"])])})
    add("aud-prefix", {"assertion": J("client_1", "HS256", "audp", aud=[ep_url(world, cfg["ep"]) + "/x"])})
    # assertions: time
    add("exp-past", {"assertion": J("client_1", "HS256", "expp", exp=-100)})
    add("exp-just-past", {"assertion": J("client_1", "HS256", "expj", exp=-SKEW)})
    add("exp-within-skew", {"assertion": J("client_1", "HS256", "exps", exp=-SKEW + 1)})
    add("exp-absent", {"assertion": J("client_2", "RS256", "expa", exp=None)})
    add("nbf-future", {"assertion": J("client_1", "HS256", "nbff", nbf=1000)})
    add("nbf-now", {"assertion": J("client_1", "HS256", "nbfn", nbf=0)})
    add("nbf-old", {"assertion": J("client_1", "HS256", "nbfo", nbf=-SKEW)})
    add("iat-future", {"assertion": J("client_1", "HS256", "iatf", iat=1000)})
    add("iat-now", {"assertion": J("client_1", "HS256", "iatn", iat=SKEW)})
    add("jti-absent", {"assertion": J("client_1", "HS256", "jtia", jti=None)})
    # assertions: keys / algorithms
    add("hs-other-clients-secret", {"assertion": J("client_1", "HS256", "hsx", key=("sym", s["client_2"]))})
    add("hs-iss-other-own-secret", {"assertion": J("client_2", "HS256", "hsy", key=("sym", s["client_1"]))})
    add("hs-public-key-bytes", {"assertion": J("client_2", "HS256", "hsp", key=("sym", "PEM:rsa1"))})
    add("hs-second-oct", {"assertion": J("client_2", "HS256", "hs2", key=("sym", SECOND_OCT))})
    add("hs-own-oct", {"assertion": J("client_1", "HS256", "hso", key=("sym", OWN_OCT))})
    add("hs-public-client", {"assertion": J("client_3", "HS256", "hs3", key=("sym", "anything-at-all-0123456789abcdef0123"))})
    add("hs-unknown-iss", {"assertion": J("nobody", "HS256", "hsn", key=("sym", s["client_1"]))})
    add("rs-other-clients-key", {"assertion": J("client_2", "RS256", "rsx", key=("rsa", 2))})
    add("es-other-clients-key", {"assertion": J("client_2", "ES256", "esx", key=("ec", 2))})
    add("rs-unregistered-key", {"assertion": J("client_2", "RS256", "rsu", key=("rsa", 3))})
    add("es-unregistered-key", {"assertion": J("client_4", "ES256", "esu", key=("ec", 3))})
    add("rs-client-without-keys", {"assertion": J("client_1", "RS256", "rs1", key=("rsa", 1))})
    add("rs-public-client", {"assertion": J("client_3", "RS256", "rs3", key=("rsa", 3))})
    add("rs-iss-absent", {"assertion": J("client_2", "RS256", "rsi", iss=None)})
    add("hs-iss-absent", {"assertion": J("client_1", "HS256", "hsi", iss=None)})
    add("alg-none", {"assertion": J("client_1", "none", "none")})
    add("alg-none-client2", {"assertion": J("client_2", "none", "none2")})
    add("not-a-jwt", {"assertion": "notjwt"})
    add("iss-vs-body-client", {"client_id": "client_2", "assertion": J("client_1", "HS256", "ivb")})
    add("iss-vs-body-secret", {"client_id": "client_2", "client_secret": "wrong", "assertion": J("client_1", "HS256", "ivs")})
    add("bad-assertion-good-post", {"client_id": "client_2", "client_secret": s["client_2"],
                                    "assertion": J("client_1", "HS256", "bagp", exp=-100)})
    add("badsig-assertion-good-post", {"client_id": "client_2", "client_secret": s["client_2"],
                                       "assertion": J("client_1", "HS256", "bsgp", key=("sym", "wrong-key-0123456789abcdef0123456789"))})
    # client_4's secret as the client database has it now vs. the (possibly stale) oct key of the key jar
    cur4 = cfg["clients"].get("client_4", {}).get("secret", s["client_4"])
    add("post-client4-current-secret", {"client_id": "client_4", "client_secret": cur4})
    add("post-client4-jar-secret", {"client_id": "client_4", "client_secret": s["client_4"]})
    add("hs-client4-jar-key", {"assertion": J("client_4", "HS256", "hs4j", key=("sym", s["client_4"]))})
    add("hs-client4-current-secret", {"assertion": J("client_4", "HS256", "hs4c", key=("sym", cur4))})
    # the kid header (chosen by the sender): the thumbprint of the signing key (what client libraries send), the kid
    # of another key of the same client, of another client's key, of no key at all
    K = lambda key: kid_for(world, key)
    s4 = ("sym", s["client_4"])
    c4 = ("sym", cur4)
    add("kid-hs-own", {"assertion": J("client_1", "HS256", "khs1", kid=K(("sym", s["client_1"])))})
    add("kid-hs2-own", {"assertion": J("client_2", "HS256", "khs2", kid=K(("sym", s["client_2"])))})
    add("kid-hs-unknown", {"assertion": J("client_1", "HS256", "khsu", kid="no-such-kid")})
    add("kid-hs-of-other-client", {"assertion": J("client_1", "HS256", "khso", kid=K(("sym", s["client_2"])))})
    add("kid-hs-other-secret-own-kid", {"assertion": J("client_1", "HS256", "khsx", key=("sym", s["client_2"]), kid=K(("sym", s["client_2"])))})
    add("kid-hs-other-secret-victim-kid", {"assertion": J("client_1", "HS256", "khsv", key=("sym", s["client_2"]), kid=K(("sym", s["client_1"])))})
    add("kid-hs-second-oct-own", {"assertion": J("client_2", "HS256", "k2o", key=("sym", SECOND_OCT), kid=K(("sym", SECOND_OCT)))})
    add("kid-hs-second-oct-kid-of-secret", {"assertion": J("client_2", "HS256", "k2s", key=("sym", SECOND_OCT), kid=K(("sym", s["client_2"])))})
    add("kid-hs-secret-kid-of-second-oct", {"assertion": J("client_2", "HS256", "ks2", kid=K(("sym", SECOND_OCT)))})
    add("kid-hs-own-oct", {"assertion": J("client_1", "HS256", "koo", key=("sym", OWN_OCT), kid=K(("sym", OWN_OCT)))})
    add("kid-hs-public-key-bytes", {"assertion": J("client_2", "HS256", "kpk", key=("sym", "PEM:rsa1"), kid=K(("rsa", 1)))})
    add("kid-hs4-jar-key", {"assertion": J("client_4", "HS256", "k4j", key=s4, kid=K(s4))})
    add("kid-hs4-current-secret", {"assertion": J("client_4", "HS256", "k4c", key=c4, kid=K(c4))})
    add("kid-hs4-jar-key-kid-of-current", {"assertion": J("client_4", "HS256", "k4jc", key=s4, kid=K(c4))})
    add("kid-hs4-current-kid-of-jar-key", {"assertion": J("client_4", "HS256", "k4cj", key=c4, kid=K(s4))})
    add("kid-hs4-rotated", {"assertion": J("client_4", "HS256", "k4r", key=("sym", ROTATED), kid=K(("sym", ROTATED)))})
    add("kid-hs4-rotated-kid-of-jar-key", {"assertion": J("client_4", "HS256", "k4rj", key=("sym", ROTATED), kid=K(s4))})
    add("kid-hs4-jar-key-kid-of-rotated", {"assertion": J("client_4", "HS256", "k4jr", key=s4, kid=K(("sym", ROTATED)))})
    add("post-client4-rotated", {"client_id": "client_4", "client_secret": ROTATED})
    add("basic-client4-rotated", {"hdr": ("basic", "client_4:%s" % ROTATED)})
    add("basic-client4-jar-secret", {"hdr": ("basic", "client_4:%s" % s["client_4"])})
    add("kid-rs-own", {"assertion": J("client_2", "RS256", "krs", kid=K(("rsa", 1)))})
    add("kid-es-own", {"assertion": J("client_4", "ES256", "kes", kid=K(("ec", 2)))})
    add("kid-rs-unknown", {"assertion": J("client_2", "RS256", "kru", kid="no-such-kid")})
    add("kid-rs-of-other-clients-key", {"assertion": J("client_2", "RS256", "kro", kid=K(("rsa", 2)))})
    add("kid-rs-other-clients-key-own-kid", {"assertion": J("client_2", "RS256", "krx", key=("rsa", 2), kid=K(("rsa", 2)))})
    add("kid-rs-other-clients-key-victim-kid", {"assertion": J("client_2", "RS256", "krv", key=("rsa", 2), kid=K(("rsa", 1)))})
    add("kid-rs-unregistered-key", {"assertion": J("client_2", "RS256", "krn", key=("rsa", 3), kid=K(("rsa", 3)))})
    add("kid-rs-kid-of-ec-key", {"assertion": J("client_2", "RS256", "kre", kid=K(("ec", 1)))})
    add("kid-rs-provider-key-kid", {"assertion": J("client_2", "RS256", "krp", kid=world.own_kid("rsa"))})
    add("kid-rs-iss-absent", {"assertion": J("client_2", "RS256", "kri", iss=None, kid=K(("rsa", 1)))})
    add("kid-request-param-own", {"request": J("client_2", "RS256", "krq", kid=K(("rsa", 1)))})
    add("kid-request-param-hs-own", {"request": J("client_1", "HS256", "krh", kid=K(("sym", s["client_1"])))})
    add("kid-request-param-wrong", {"request": J("client_2", "ES256", "krw", kid=K(("rsa", 1)))})
    # request objects
    add("request-param-wrong-aud", {"request": J("client_2", "RS256", "rpa", aud=["https://elsewhere.example.org/"])})
    add("request-param-no-aud-hs", {"request": J("client_1", "HS256", "rph", aud=None)})
    add("request-param-other-key", {"request": J("client_2", "RS256", "rpk", key=("rsa", 2))})
    add("request-param-expired", {"request": J("client_2", "ES256", "rpe", exp=-100)})
    add("request-param-none", {"request": J("client_2", "none", "rpn")})
    add("request-param-notjwt", {"request": "notjwt"})
    add("request-param-no-jti", {"request": J("client_2", "ES256", "rpj", jti=None)})
    # bearer
    add("bearer-header-garbage", {"hdr": ("bearer", "TG")})
    add("bearer-header-code", {"hdr": ("bearer", "TC")})
    add("bearer-body-garbage", {"access_token": "TG"})
    add("bearer-body-code", {"access_token": "TC"})
    add("bearer-other-client-body-id", {"hdr": ("bearer", "T1"), "client_id": "client_2"})
    add("bearer-body-and-client-id", {"access_token": "T2", "client_id": "client_1"})
    # the flag parse_request itself is supposed to set
    add("smuggled-flag-client-id", {"client_id": "client_1", "authflag": True})
    add("smuggled-flag-only", {"authflag": True})
    add("smuggled-flag-bad-secret", {"client_id": "client_1", "client_secret": "wrong", "authflag": True})
    add("smuggled-flag-public", {"client_id": "client_3", "authflag": True})
    return F


def identity_credentials(world, cfg, now, tag):
    """one genuine credential per kind: (name, client it proves, request)"""
    s = world.secret
    J = lambda cid, alg, name: good_jwt(world, cfg, cid, alg, now, "i-%s-%s" % (name, tag))
    return [
        ("basic1", "client_1", lambda n: {"hdr": ("basic", "client_1:%s" % s["client_1"])}),
        ("basic2", "client_2", lambda n: {"hdr": ("basic", "client_2:%s" % s["client_2"])}),
        ("hs1", "client_1", lambda n: {"assertion": J("client_1", "HS256", "hs1" + n)}),
        ("hs2", "client_2", lambda n: {"assertion": J("client_2", "HS256", "hs2" + n)}),
        ("rs2", "client_2", lambda n: {"assertion": J("client_2", "RS256", "rs2" + n)}),
        ("es4", "client_4", lambda n: {"assertion": J("client_4", "ES256", "es4" + n)}),
        ("bearer-header1", "client_1", lambda n: {"hdr": ("bearer", "T1")}),
        ("bearer-body2", "client_2", lambda n: {"access_token": "T2"}),
        ("request-param2", "client_2", lambda n: {"request": J("client_2", "RS256", "rp2" + n)}),
    ]


def identity_matrix(world, cfg, now, tag):
    """credential of one registered client x body client_id naming another client (registered confidential,
    registered public, not registered) or the same one (control): the request must be processed as the client
    the credential proves."""
    s = world.secret
    F = []
    for name, cid, mk in identity_credentials(world, cfg, now, tag):
        other = "client_2" if cid != "client_2" else "client_1"
        for body in (other, "client_4" if cid != "client_4" else "client_1", "client_3", "nobody", cid):
            rq = mk("-" + body)
            rq["client_id"] = body
            F.append(("ident:%s-body-%s" % (name, "same" if body == cid else body), rq))
    # two complete, valid credentials of two different clients in one request (header and body)
    F.append(("ident:basic1+post2", {"hdr": ("basic", "client_1:%s" % s["client_1"]), "client_id": "client_2", "client_secret": s["client_2"]}))
    F.append(("ident:basic2+post1", {"hdr": ("basic", "client_2:%s" % s["client_2"]), "client_id": "client_1", "client_secret": s["client_1"]}))
    F.append(("ident:hs1+post2", {"assertion": good_jwt(world, cfg, "client_1", "HS256", now, "i-hp-" + tag),
                                  "client_id": "client_2", "client_secret": s["client_2"]}))
    # a valid credential in the header, the body names another client with a WRONG secret / an assertion
    F.append(("ident:bearer1+post2", {"hdr": ("bearer", "T1"), "client_id": "client_2", "client_secret": s["client_2"]}))
    return F


INNER_SIGNERS = [("hs1", "client_1", "HS256"), ("hs2", "client_2", "HS256"), ("rs2", "client_2", "RS256"),
                 ("es4", "client_4", "ES256")]


def inner_variants(a, b):
    """the claims inside an assertion that client `a` signs with its own key, made inconsistent with each other
    or with who signed; `b` is another registered confidential client.  -> [(name, overrides of good_jwt(a))]
    ("key" None = a's own key)"""
    return [
        ("sub-other", {"sub": b}),
        ("sub-public", {"sub": "client_3"}),
        ("sub-unknown", {"sub": "nobody"}),
        ("sub-absent", {"sub": None}),
        ("sub-empty", {"sub": ""}),
        ("azp-other", {"azp": b}),
        ("cid-other", {"cid_claim": b}),
        ("sub+azp+cid-other", {"sub": b, "azp": b, "cid_claim": b}),
        ("sub-other-azp-self", {"sub": b, "azp": a, "cid_claim": a}),
        ("iss-absent-sub-self", {"iss": None, "sub": a}),
        ("iss-absent-sub-other", {"iss": None, "sub": b, "cid_claim": b}),
        ("iss-other-sub-self", {"iss": b, "sub": a}),          # iss of b, signed with a's key
        ("iss-other-sub-other", {"iss": b, "sub": b}),
        ("iss-unknown-sub-self", {"iss": "nobody", "sub": a}),
        ("iss-unknown-sub-other", {"iss": "nobody", "sub": b}),
    ]


def inner_claims_matrix(world, cfg, now, tag, signers=INNER_SIGNERS, fields=("assertion", "request")):
    """assertions (request objects) signed by client A with A's OWN key material whose inner claims (iss, sub,
    azp, client_id) disagree with each other or with the signer x body client_id of A / another client / absent:
    the request is processed as A (the signer = iss) or refused, never as the client a claim merely names."""
    F = []
    for sname, a, alg in signers:
        b = "client_2" if a != "client_2" else "client_1"
        own = good_jwt(world, cfg, a, alg, now, "x")["key"]
        for vname, over in inner_variants(a, b):
            for body in (None, a, b):
                for field in fields:
                    if field == "request" and (sname not in ("hs1", "rs2") or vname not in (
                            "sub-other", "sub-absent", "sub+azp+cid-other", "iss-absent-sub-other", "iss-other-sub-self")):
                        continue
                    jti = "n-%s-%s-%s-%s-%s" % (field[0], sname, vname, body, tag)
                    spec = good_jwt(world, cfg, a, alg, now, jti, **dict(over, key=own))
                    if field == "request":
                        # the claims of a request object are request PARAMETERS: verify_request merges its client_id
                        # claim into the request and Authorization._post_parse_request refuses the mismatch (C16's
                        # subject); only the claims that are not parameters (sub, azp) are varied here
                        spec.pop("cid_claim", None)
                    rq = {field: spec}
                    if body is not None:
                        rq["client_id"] = body
                    F.append(("inner:%s:%s-%s-body-%s" % (field, sname, vname, "absent" if body is None else
                                                           ("signer" if body == a else "other")), rq))
    return F


def merge(a, b):
    r = dict(a)
    for k, v in b.items():
        if k not in r or r[k] is None:
            r[k] = v
    return r


def sample_methods(rng):
    k = rng.choice([1, 1, 2, 2, 3, 3, 4, 5, 6, 9])
    l = rng.sample(METHS, k)
    return l


def sample_clients_cfg(rng, ep_name):
    out = {}
    for cid in CLIENTS:
        o = {}
        r = rng.random()
        if r < 0.5:
            pass
        elif r < 0.62:
            o["expires"] = 0
        elif r < 0.8:
            o["expires"] = NOW0 - rng.choice([1, 100, 10 ** 6])
        else:
            o["expires"] = NOW0 + rng.choice([0, 5000, 10 ** 6])
        r = rng.random()
        if r < 0.55:
            pass
        elif r < 0.8:
            o["methods"] = rng.sample(METHS, rng.randint(0, 4))
        else:
            o["ep_methods"] = {ep_name: rng.sample(METHS, rng.randint(0, 4))}
            if rng.random() < 0.5:
                o["methods"] = rng.sample(METHS, rng.randint(1, 3))
            if rng.random() < 0.3:
                o["ep_methods"]["some_other_endpoint"] = rng.sample(METHS, 2)
        if cid == "client_4" and rng.random() < 0.2:
            o["secret"] = ROTATED
        out[cid] = o
    return out


FULL = ["client_secret_post", "client_secret_basic", "client_secret_jwt", "private_key_jwt", "bearer_header", "bearer_body"]


def configurations(ctx, rng, worlds):
    """yield (world, cfg, mode)"""
    w0 = worlds["plain"]
    epname = {n: w0.eps[n].endpoint_name for n in EPS}
    cfgs = []
    # canonical configurations: the full single-fault matrix where every credential-bearing method is enabled
    for epn in EPS:
        cfgs.append(("plain", {"ep": epn, "methods": list(FULL), "issuer_target": False, "clients": {}, "long": True}, "matrix"))
        cfgs.append(("plain", {"ep": epn, "methods": "default", "issuer_target": epn == "userinfo", "clients": {}},
                     "half" if ctx.quick else "matrix"))
    cfgs.append(("plain", {"ep": "token", "methods": list(reversed(FULL)) + ["request_param", "public"], "issuer_target": True, "clients": {}}, "matrix"))
    cfgs.append(("plain", {"ep": "token", "methods": None, "issuer_target": False, "clients": {}}, "half" if ctx.quick else "matrix"))
    cfgs.append(("plain", {"ep": "introspection", "methods": [], "issuer_target": False, "clients": {}}, "half" if ctx.quick else "matrix"))
    cfgs.append(("plain", {"ep": "token_revocation", "methods": ["request_param", "client_secret_jwt", "private_key_jwt", "none"],
                           "issuer_target": False, "clients": {}}, "matrix"))
    cfgs.append(("two_oct", {"ep": "token", "methods": list(FULL), "issuer_target": False, "clients": {}}, "matrix"))
    cfgs.append(("plain", {"ep": "token", "methods": list(FULL), "issuer_target": False,
                           "clients": {"client_4": {"secret": ROTATED}}}, "matrix"))
    cfgs.append(("plain", {"ep": "introspection", "methods": ["private_key_jwt", "client_secret_jwt", "client_secret_post"], "issuer_target": False,
                           "clients": {"client_4": {"secret": ROTATED}}}, "half"))
    cfgs.append(("own_oct", {"ep": "pushed_authorization", "methods": list(FULL), "issuer_target": False, "clients": {}}, "matrix"))
    # the key jar holds TWO symmetric keys for client_4 (its secret and one filed next to it, in both orders); the
    # client database names one of them as the secret - only that one authenticates, by any secret-based method
    for variant, epn, rot, mode in (("rot_jar", "token", True, "matrix"), ("rot_jar", "introspection", False, "matrix"),
                                    ("rot_jar_new_first", "token_revocation", True, "matrix"),
                                    ("rot_jar_new_first", "pushed_authorization", False, "matrix"),
                                    ("rot_jar", "pushed_authorization", True, "half"), ("rot_jar_new_first", "token", False, "half"),
                                    ("rot_jar", "userinfo", True, "half")):
        cfgs.append((variant, {"ep": epn, "methods": list(FULL) + ["request_param"], "issuer_target": False,
                               "clients": {"client_4": {"secret": ROTATED}} if rot else {}}, mode))
    # expiry settings and registrations, enumerated on the token endpoint
    for exp in (0, NOW0 - 1, NOW0 - 10 ** 6, NOW0, NOW0 + 1, NOW0 + 10 ** 6):
        cfgs.append(("plain", {"ep": "token", "methods": list(FULL), "issuer_target": False,
                               "clients": {c: {"expires": exp} for c in CLIENTS}}, "genuine"))
    for m in METHS:
        cfgs.append(("plain", {"ep": "token", "methods": list(FULL) + ["request_param", "public", "none"], "issuer_target": False,
                               "clients": {c: {"methods": [m]} for c in CLIENTS}}, "genuine"))
        cfgs.append(("plain", {"ep": "token_revocation", "methods": list(FULL) + ["request_param", "public", "none"], "issuer_target": False,
                               "clients": {c: {"methods": list(METHS), "ep_methods": {"revocation_endpoint": [m]}} for c in CLIENTS}}, "genuine"))
    # sampled / exhaustive method lists
    if ctx.quick:
        for i in range(40):
            epn = EPS[i % 5]
            cfgs.append((rng.choice(["plain"] * 6 + ["two_oct", "own_oct", "rot_jar", "rot_jar_new_first"]),
                         {"ep": epn, "methods": sample_methods(rng), "issuer_target": rng.random() < 0.3,
                          "clients": sample_clients_cfg(rng, epname[epn])}, "half" if i % 8 == 0 else "sampled"))
    else:
        import itertools
        for mask in range(1, 512):
            sub = [m for i, m in enumerate(METHS) if mask >> i & 1]
            for order in (sub, list(reversed(sub))):
                epn = EPS[mask % 5]
                cfgs.append((rng.choice(["plain"] * 6 + ["two_oct", "own_oct", "rot_jar", "rot_jar_new_first"]),
                             {"ep": epn, "methods": order, "issuer_target": rng.random() < 0.3,
                              "clients": sample_clients_cfg(rng, epname[epn])}, "matrix" if mask % 16 == 0 else "sampled"))
    return cfgs


def run_history(ctx, world, cfg, mode, rng, clock, tag, cases):
    world.configure(cfg)
    clock.now = NOW0 + (rng.choice([0, 7, 1000, 86400]) if mode == "sampled" else 0)
    hist = {"accepted_jti": set()}
    plan = []
    now = clock.now
    gen = genuine_requests(world, cfg, now, tag)
    mat = fault_matrix(world, cfg, now, tag)
    idm = identity_matrix(world, cfg, now, tag)
    inm = inner_claims_matrix(world, cfg, now, tag)
    if mode == "matrix":
        plan = gen + mat + idm + inm
    elif mode == "half":
        plan = gen + rng.sample(mat, 40) + rng.sample(idm, 20) + rng.sample(inm, 40)
    elif mode == "genuine":
        plan = gen + [f for f in mat if f[0] in ("fault:exp-past", "fault:hs-other-clients-secret", "fault:basic-cross-secret",
                                                  "fault:aud-wrong", "fault:smuggled-flag-client-id")] + rng.sample(idm, 4) \
            + rng.sample(inm, 6)
    else:
        plan = rng.sample(gen, 8) + rng.sample(mat, 10) + rng.sample(idm, 6) + rng.sample(inm, 10)
    # random pairs of faults
    for i in range({"matrix": 6, "half": 3, "genuine": 1, "sampled": 4}[mode]):
        a, b = rng.sample(mat, 2)
        plan.append(("pair:%s+%s" % (a[0][6:], b[0][6:]), merge(a[1], b[1])))
    # replays: a genuine JWT credential again after k intervening requests
    queue = list(plan)
    jw = [(n, r) for n, r in queue if n.startswith("genuine:") and ("assertion" in r or "request" in r)]
    ks = [0, 1, 5, 50] if cfg.get("long") else ([0, 1, 5] if mode in ("matrix", "half") else [rng.choice([0, 1, 5])])
    filler = [x for x in gen if x[0] in ("genuine:post", "genuine:basic", "genuine:none")]
    queue = [(n, r, None) for n, r in queue]
    for k, (n, r) in zip(ks, rng.sample(jw, len(jw))):
        at = [i for i, x in enumerate(queue) if x[1] is r][0] + 1 + k
        while len(queue) < at:
            queue.append(rng.choice(filler) + (None,))
        queue.insert(at, ("replay-after-%d:%s" % (k, n), None, r))
    resolved = {}
    seg = {"jdb0": [], "steps": [], "recs": []}

    def flush():
        if seg["steps"]:
            cases.append((history_term(ctx, world, cfg, seg["jdb0"], seg["steps"]),
                          {"cfg": cfg, "variant": world.variant, "tag": tag, "steps": seg["recs"]}))
        seg["steps"], seg["recs"] = [], []

    for name, tmpl, replay_of in queue:
        if mode != "genuine" and rng.random() < 0.08:
            clock.tick(rng.choice([1, 14, 15, 16, 60]))
        now = clock.now
        if replay_of is not None:
            rq = resolved[id(replay_of)]
        else:
            rq = resolve_times(tmpl, now)
            resolved[id(tmpl)] = rq
        jdb_pre = list(world.c.jti_db.keys())
        term, rec, unmod = run_request(ctx, world, cfg, rq, now, hist)
        rec["name"] = name
        usable = any(rq.get(k) is not None for k in ("hdr", "client_id", "access_token", "assertion", "request"))
        if hist.get("own_oct"):
            ctx.count("observation:accepted-hs-assertion-maced-with-provider-own-oct-key", hist.pop("own_oct"))
        ctx.case_seen({"ep": cfg["ep"], "methods": cfg["methods"], "name": name, "request": rq, "now": now - NOW0,
                       "auth": rec["auth"], "outcome": rec["outcome"], "clients": cfg["clients"], "variant": world.variant,
                       "issuer_target": cfg["issuer_target"]}, nontrivial=usable)
        ctx.count("kind:" + name.split(":")[0])
        ctx.count("endpoint:" + cfg["ep"])
        a = rec["auth"]
        ctx.count("auth:" + ("none-called" if a is None else (a[1] if a[0] == "exc" else ("ok:" + str(a[1].get("method"))))))
        if unmod:
            # cannot happen unless the spies were bypassed; cut the history here
            ctx.unmodelled += 1
            ctx.count("unmodelled")
            flush()
            seg["jdb0"] = list(world.c.jti_db.keys())
        else:
            seg["steps"].append(term)
            seg["recs"].append({"i": len(seg["recs"]), "name": name, "request": rq, "now": now, "auth": rec["auth"],
                                "handed_on": {k: v for k, v in rec["seen"].items() if k != "auth"}, "outcome": rec["outcome"],
                                "jti_db_before": jdb_pre if len(jdb_pre) < 8 else "...%d keys" % len(jdb_pre)})
    flush()



# ------------------------------------------------------------------ the credential history of a client
ROT = "client_r"
ROT_METHODS = list(FULL) + ["request_param"]
SECRET_LIFE = 2592000          # Registration's default client_secret_expires_in
# one history = operations on the credentials of one client, each followed by the credential matrix at all five
# endpoints.  ("reg", {...}) an accepted registration under the id (Registration.process_request(req, new_id=False);
# "new": True = the first one with new_id=True, the id is the provider's choice); ("refused", how) a registration
# under the id that the provider refuses; ("del",) the client is deleted; ("tick", s) the clock advances;
# ("file", [keys]) / ("set-secret", s) what a deployer does by hand to a static client (keyjar.add_symmetric /
# import_jwks append; the record gets another secret); ("publish", [keys]) the document at the client's jwks_uri is
# replaced and the provider's copy is due for a refresh.
HISTORIES = [
    ("rereg-jwks", ROT, [("reg", {"jwks": [("rsa", 3), ("ec", 3)]}), ("reg", {"jwks": [("rsa", 4), ("ec", 4)]}),
                         ("reg", {"jwks": [("rsa", 5)]})]),
    ("rereg-secret-only", ROT, [("reg", {}), ("reg", {}), ("refused", "fragment"), ("reg", {})]),
    ("rereg-new-id", None, [("reg", {"new": True, "jwks": [("rsa", 3)]}), ("reg", {"jwks": [("ec", 4)]}), ("refused", "sector"),
                            ("reg", {"jwks": [("rsa", 3)]})]),
    ("delete-reregister", ROT, [("reg", {"jwks": [("rsa", 3), ("ec", 3)]}), ("del",), ("reg", {"jwks": [("rsa", 4)]})]),
    ("give-up-keys", ROT, [("reg", {"jwks": [("rsa", 3), ("ec", 3)]}), ("refused", "fragment"), ("reg", {})]),
    ("expiry-renewal", ROT, [("reg", {"jwks": [("rsa", 3)]}), ("tick", SECRET_LIFE + 1), ("reg", {"jwks": [("rsa", 3)]}),
                             ("tick", SECRET_LIFE), ("tick", 1)]),
    ("by-hand", "client_4", [("file", [("oct", ROTATED)]), ("set-secret", ROTATED), ("file", [("rsa", 4)]),
                             ("set-secret", None), ("del",)]),
    ("jwks-uri", ROT, [("reg", {"jwks_uri": [("rsa", 3), ("ec", 3)]}), ("publish", [("rsa", 4), ("ec", 3)]), ("publish", [("ec", 4)]),
                       ("reg", {"jwks": [("rsa", 5)]})]),
]
JWKS_URI = "https://client_r.example.com/jwks.json"


class RotWorld(World):
    """a provider on which the credentials of one client change over time.  The generator's ground truth: `gens`, the
    material every accepted registration (deployer's act) brought - the last entry is what is in force, unless the
    client was deleted; kj_iss[X] = the asymmetric keys in force (what the oracle calls registered)."""

    def __init__(self, ctx, keys, x):
        World.__init__(self, ctx, keys, "rotation-enc")       # (a plain key jar that owns decryption keys as well)
        self.variant = "rotation"
        self.x = x
        self.gens = []
        self.deleted = False
        self.document = {"keys": []}
        if x == "client_4":
            self.gens.append({"secret": self.secret["client_4"], "keys": [("rsa", 2), ("ec", 2)]})

        class Resp:
            status_code = 200
            headers = {"content-type": "application/json"}

            def __init__(r, text):
                r.text = text
        self.httpc = lambda method, url, **kw: Resp(json.dumps(self.document))
        self.server.keyjar.httpc = self.httpc

    def current(self):
        return None if self.deleted or not self.gens else self.gens[-1]

    def configure(self, cfg):
        World.configure(self, cfg)
        if self.deleted and self.x in self.c.cdb:
            del self.c.cdb[self.x]           # World.configure restores the static clients: this one was deleted

    def _truth(self):
        cur = self.current()
        if cur is None:
            self.kj_iss.pop(self.x, None)
            self.secret.pop(self.x, None)
        else:
            self.kj_iss[self.x] = [("oct", cur["secret"])] + list(cur["keys"])
            self.secret[self.x] = cur["secret"]

    def snapshot(self):
        c = self.c
        return ({cid: copy.deepcopy(dict(rec)) for cid, rec in c.cdb.items()}, observe_keyjar(self))

    def register(self, spec, refuse=None):
        """a real registration (parse_request when the id is known to the provider, then process_request)
        -> (accepted?, the registration in symbolic form)"""
        from idpyoidc.message.oidc import RegistrationRequest
        reg = self.server.get_endpoint("registration")
        new = bool(spec.get("new"))
        args = {"redirect_uris": ["https://client_r.example.com/cb"], "grant_types": ["authorization_code"],
                "token_endpoint_auth_method": "private_key_jwt" if (spec.get("jwks") or spec.get("jwks_uri")) else "client_secret_basic"}
        keys = list(spec.get("jwks") or spec.get("jwks_uri") or [])
        if spec.get("jwks"):
            args["jwks"] = {"keys": [pub_jwk(self.keys["%s%d" % k]) for k in keys]}
        if spec.get("jwks_uri"):
            self.document = {"keys": [pub_jwk(self.keys["%s%d" % k]) for k in keys]}
            args["jwks_uri"] = JWKS_URI
        if refuse == "fragment":
            args["post_logout_redirect_uri"] = "https://client_r.example.com/logged-out#fragment"
        elif refuse == "sector":
            args["sector_identifier_uri"] = "https://client_r.example.com/sector.json"
        if not new:
            args["client_id"] = self.x
        req = RegistrationRequest(**args)
        if new or self.x in self.c.cdb:
            from idpyoidc.server.exception import InvalidClient
            try:
                req = reg.parse_request(req.to_json())
            except InvalidClient:
                pass        # a client whose secret has expired cannot ask itself: the renewal is the deployer's call
        resp = reg.process_request(req, new_id=new)
        ok = isinstance(resp, dict) and "response_args" in resp
        if ok:
            ra = resp["response_args"]
            if new:
                self.x = ra["client_id"]
            for kb in self.server.keyjar[self.x]:
                kb.httpc = self.httpc
            self.gens.append({"secret": ra["client_secret"], "keys": keys, "uri": bool(spec.get("jwks_uri"))})
            self.deleted = False
            self._truth()
        return ok, keys

    def apply(self, ctx, op, clock):
        """performs one operation for real, keeps the ground truth, -> Coq cred_op term (None: not an operation of
        the model - time passing, a remote document changing)"""
        x = self.x
        kind = op[0]
        if kind == "reg":
            ok, keys = self.register(op[1])
            if not ok:
                ctx.broken.append("history: the registration %r of %s was refused" % (op[1], x))
                return None
            return "(CReg %s)" % self.cq_registration(keys)
        if kind == "refused":
            ok, keys = self.register({"jwks": [("rsa", 5), ("ec", 5)]}, refuse=op[1])
            if ok:
                ctx.broken.append("history: the registration meant to be refused (%s) was accepted" % op[1])
                return None
            return "(CRefused %s)" % self.cq_registration(keys, refused=True)
        if kind == "del":
            del self.c.cdb[x]
            self.deleted = True
            self._truth()
            return "(CDel %s)" % coq_str(x)
        if kind == "tick":
            clock.tick(op[1])
            return None
        if kind == "file":
            for k in op[1]:
                if k[0] == "oct":
                    self.server.keyjar.add_symmetric(x, k[1])
                else:
                    self.server.keyjar.import_jwks({"keys": [pub_jwk(self.keys["%s%d" % k])]}, x)
            cur = self.current()
            # what the deployer files is registered from then on, next to what was (nothing is taken out)
            self.gens.append({"secret": cur["secret"], "keys": list(cur["keys"]) + [k for k in op[1] if k[0] != "oct"]})
            self._truth()
            return "(CFile %s %s %s)" % (coq_str(x), coq_list([cq_vkey(k) for k in op[1]], "vkey"),
                                         coq_list(["(%s, %s)" % (cq_vkey(k), coq_str(kid_for(self, k))) for k in op[1]], "(vkey * pystr)"))
        if kind == "set-secret":
            rec = copy.deepcopy(dict(self.c.cdb[x]))
            rec["client_secret"] = op[1] if op[1] is not None else self.base_cdb[x]["client_secret"]
            self.c.cdb[x] = rec
            self.base_cdb[x] = copy.deepcopy(rec)          # configure() restores the static clients from here
            cur = self.current()
            self.gens.append({"secret": rec["client_secret"], "keys": list(cur["keys"])})
            self._truth()
            return "(CSet %s %s)" % (coq_str(x), cq_client(rec))
        if kind == "publish":
            self.document = {"keys": [pub_jwk(self.keys["%s%d" % k]) for k in op[1]]}
            for kb in self.server.keyjar[x]:
                if kb.source:
                    kb.time_out = 0              # the provider's copy is due: the next look-up fetches the document
            cur = self.current()
            self.gens.append({"secret": cur["secret"], "keys": list(op[1]), "uri": True})
            self._truth()
            return None
        raise ValueError(op)

    def cq_registration(self, keys, refused=False):
        rec = {} if refused else self.c.cdb[self.x]
        mat = list(keys) + ([("oct", rec["client_secret"])] if rec.get("client_secret") else [])
        return "{| rg_id := %s; rg_client := %s; rg_keys := %s; rg_kids := %s |}" % (
            coq_str(self.x), cq_client(rec), coq_list([cq_vkey(k) for k in keys], "vkey"),
            coq_list(["(%s, %s)" % (cq_vkey(k), coq_str(kid_for(self, k))) for k in mat], "(vkey * pystr)"))


def cq_cdb(cdb):
    return coq_list(["(%s, %s)" % (coq_str(cid), cq_client(r)) for cid, r in cdb.items()], "(pystr * client)")


def rcase_term(world, before, op_term, after):
    (cdb0, kj0), (cdb1, kj1) = before, after
    a, b = cq_keyjar(world, kj0), cq_keyjar(world, kj1)
    return share_literals("{| rc_cdb := %s; rc_kj := {| kj_iss := %s; kj_own := %s; kj_kid := %s |}; rc_op := %s; rc_cdb' := %s; "
                          "rc_kj' := {| kj_iss := %s; kj_own := %s; kj_kid := %s |} |}" % ((cq_cdb(cdb0),) + a + (op_term, cq_cdb(cdb1)) + b))


def rotation_matrix(world, cfg, now, tag):
    """every credential that the material of ANY generation of the client makes - the one in force and every
    superseded one - by every method, under the kid of the key, without kid, and under the kid of the key in
    force; then the bystanders (client_1, client_2).  -> [(name, request)], names unique"""
    x = world.x
    gens = world.gens
    cur = gens[-1] if gens else None
    K = lambda key: kid_for(world, key)
    F = []
    seen = set()
    for g, m in reversed(list(enumerate(gens))):      # newest first: material that is in force AND was before counts as in force
        age = "in-force" if (m is cur and not world.deleted) else "superseded%d" % g

        def J(alg, key, name, **o):
            return good_jwt(world, cfg, x, alg, now, "r-%s-%s-%s" % (name, age, tag), key=key, **o)
        sec = m["secret"]
        if sec not in seen:
            seen.add(sec)
            sk = ("sym", sec)
            F.append(("rot:%s:basic" % age, {"hdr": ("basic", "%s:%s" % (x, sec))}))
            F.append(("rot:%s:post" % age, {"client_id": x, "client_secret": sec}))
            F.append(("rot:%s:hs-kid" % age, {"assertion": J("HS256", sk, "hsk", kid=K(sk))}))
            F.append(("rot:%s:hs-nokid" % age, {"assertion": J("HS256", sk, "hsn")}))
            F.append(("rot:%s:request-param-hs-kid" % age, {"request": J("HS256", sk, "rph", kid=K(sk))}))
            # the same inside a wrapper the provider opens (RotWorld owns decryption keys)
            F.append(("rot:%s:hs-kid-in-jwe" % age, {"assertion": wrap(absolute(J("HS256", sk, "hskw", kid=K(sk)), now), "ECDH-ES", "JWT")}))
            F.append(("rot:%s:request-param-hs-kid-in-jwe" % age, {"request": wrap(absolute(J("HS256", sk, "rphw", kid=K(sk)), now), "RSA-OAEP", "JWT")}))
            if cur is not None and cur["secret"] != sec:
                ck = ("sym", cur["secret"])
                F.append(("rot:%s:hs-kid-of-secret-in-force" % age, {"assertion": J("HS256", sk, "hskc", kid=K(ck))}))
                F.append(("rot:in-force:hs-kid-of-%s" % age, {"assertion": good_jwt(world, cfg, x, "HS256", now, "r-hsck-%s-%s" % (age, tag),
                                                                                      key=ck, kid=K(sk))}))
        for k in m["keys"]:
            if k in seen:
                continue
            seen.add(k)
            alg = "RS256" if k[0] == "rsa" else "ES256"
            nm = "%s%d" % k
            F.append(("rot:%s:%s-kid" % (age, nm), {"assertion": J(alg, k, nm + "k", kid=K(k))}))
            F.append(("rot:%s:%s-nokid" % (age, nm), {"assertion": J(alg, k, nm + "n")}))
            F.append(("rot:%s:request-param-%s-kid" % (age, nm), {"request": J(alg, k, nm + "q", kid=K(k))}))
            F.append(("rot:%s:%s-kid-in-jwe" % (age, nm), {"assertion": wrap(absolute(J(alg, k, nm + "kw", kid=K(k)), now), "RSA-OAEP", "JWT")}))
            F.append(("rot:%s:request-param-%s-nokid-in-jwe" % (age, nm), {"request": wrap(absolute(J(alg, k, nm + "qw"), now), "ECDH-ES", "JWT")}))
            other = [c for c in (cur["keys"] if cur else []) if c[0] == k[0] and c != k]
            if other:
                F.append(("rot:%s:%s-kid-of-key-in-force" % (age, nm), {"assertion": J(alg, k, nm + "c", kid=K(other[0]))}))
    # bare claims naming the client, inside a wrapper: nobody's credential in any generation
    for field, alg in (("assertion", "RSA-OAEP"), ("request", "ECDH-ES")):
        F.append(("rot:unsigned:%s-json-in-jwe" % field,
                  {field: wrap({"json": absolute(good_jwt(world, cfg, x, "none", now, "r-json-%s-%s" % (field, tag), key=("sym", "")), now)}, alg, None)}))
    s = world.secret
    F.append(("rot:bystander:basic1", {"hdr": ("basic", "client_1:%s" % s["client_1"])}))
    F.append(("rot:bystander:hs1-kid", {"assertion": good_jwt(world, cfg, "client_1", "HS256", now, "r-b1-" + tag,
                                                               kid=K(("sym", s["client_1"])))}))
    F.append(("rot:bystander:post2", {"client_id": "client_2", "client_secret": s["client_2"]}))
    F.append(("rot:bystander:rs2-kid", {"assertion": good_jwt(world, cfg, "client_2", "RS256", now, "r-b2-" + tag, kid=K(("rsa", 1)))}))
    if x != "client_4":
        F.append(("rot:bystander:es4", {"assertion": good_jwt(world, cfg, "client_4", "ES256", now, "r-b4-" + tag)}))
    return F


def rotation_cfg(epn, hname, upto):
    return {"ep": epn, "methods": list(ROT_METHODS), "issuer_target": False, "clients": {},
            "rotation": {"history": hname, "upto": upto}}


def credential_histories(ctx, keys, clock, cases, only=None):
    """Deterministic (no rng).  For every history: every operation is performed for real on a provider of its own; the
    model's cred_step is compared with what the real client database and key jar hold afterwards (chk_register); then
    the credential matrix of ALL generations of the client's material goes through parse_request at the five
    endpoints (model: chk_history on the observed state; oracle: accepted as X only with the material in force).
    only = (history name, number of operations performed): stop there and return the world (replay)."""
    rcases = []
    for hname, x, ops in HISTORIES:
        if only is not None and only[0] != hname:
            continue
        clock.now = NOW0
        world = RotWorld(ctx, keys, x)
        for i, op in enumerate(ops):
            before = world.snapshot()
            term = world.apply(ctx, op, clock)
            after = world.snapshot()
            ctx.count("history-op:" + op[0])
            if term is not None:
                rcases.append((rcase_term(world, before, term, after),
                               {"history": hname, "op": i, "operation": op, "client": world.x,
                                "key_jar_before": before[1][0].get(world.x), "key_jar_after": after[1][0].get(world.x),
                                "secret_before": (before[0].get(world.x) or {}).get("client_secret"),
                                "secret_after": (after[0].get(world.x) or {}).get("client_secret")}))
            if only is not None:
                if only[1] == i + 1:
                    return world
                continue
            for epn in EPS:
                cfg = rotation_cfg(epn, hname, i + 1)
                world.configure(cfg)
                hist = {"accepted_jti": set()}
                now = clock.now
                steps, recs = [], []
                jdb0 = list(world.c.jti_db.keys())
                for name, tmpl in rotation_matrix(world, cfg, now, "%s-%d-%s" % (hname, i, epn[:3])):
                    rq = resolve_times(tmpl, now)
                    t, rec, unmod = run_request(ctx, world, cfg, rq, now, hist, extra_rec={"entry": name})
                    rec["name"] = name
                    a = rec["auth"]
                    verdict = "accepted" if (a and a[0] == "ok" and a[1] and a[1].get("client_id")) else "refused"
                    ctx.count("rotation:%s:%s" % (name.split(":")[1].rstrip("0123456789"), verdict))
                    ctx.count("kind:rotation")
                    ctx.count("endpoint:" + epn)
                    ctx.case_seen({"history": hname, "after": i + 1, "ep": epn, "name": name, "request": rq, "auth": a,
                                   "outcome": rec["outcome"]}, True)
                    if unmod:
                        ctx.unmodelled += 1
                        if steps:
                            cases.append((history_term(ctx, world, cfg, jdb0, steps),
                                          {"cfg": cfg, "variant": world.variant, "tag": hname, "steps": recs}))
                        steps, recs, jdb0 = [], [], list(world.c.jti_db.keys())
                    else:
                        steps.append(t)
                        recs.append({"i": len(recs), "name": name, "request": rq, "now": now, "auth": a, "outcome": rec["outcome"],
                                     "handed_on": {k: v for k, v in rec["seen"].items() if k != "auth"}})
                if steps:
                    cases.append((history_term(ctx, world, cfg, jdb0, steps),
                                  {"cfg": cfg, "variant": world.variant, "tag": hname, "steps": recs}))
    if only is None:
        ctx.coq_check_cases(["Lib.Base", "Lib.PyStr", "Model.ClientAuthn"], "rcase", "chk_register", rcases, shard=40,
                            label="register")
    return None


def run(ctx):
    import logging
    import srv
    import idpyoidc.server.oidc.registration  # noqa: loaded before the clock is installed (client_secret_expires_at)
    logging.disable(logging.CRITICAL)      # the provider logs every refusal; keep the check's output readable
    rng = ctx.rng
    keys = load_keys(ctx)
    clock = srv.Clock(NOW0).install()
    try:
        worlds = {v: World(ctx, keys, v) for v in ("plain", "two_oct", "own_oct", "rot_jar", "rot_jar_new_first")}
        side_cases(ctx, worlds["plain"])
        cases = []
        known_witness(ctx, worlds["plain"], clock, cases)
        identity_processing(ctx, worlds["plain"], clock, cases)
        identity_client_credentials(ctx, keys, clock)
        long_lived_replays(ctx, worlds["plain"], clock, cases)
        wrapped_deliveries(ctx, keys, clock, cases)
        credential_histories(ctx, keys, clock, cases)
        cfgs = configurations(ctx, rng, worlds)
        for i, (variant, cfg, mode) in enumerate(cfgs):
            run_history(ctx, worlds[variant], cfg, mode, rng, clock, "h%d" % i, cases)
        imp = ["Lib.Base", "Lib.PyStr", "Model.ClientAuthn"]
        bad = ctx.coq_check_cases(imp, "hcase", "chk_history", cases, shard=4, label="authn", diag="diag_history")
        ctx.traces += sum(len(r["steps"]) for _, r in cases) - len(cases)     # count requests, not histories
        ctx.notes.append("%d configurations (histories), %d requests" % (len(cfgs), sum(len(r["steps"]) for _, r in cases)))
        ctx.notes.append("tolerated by the property text, counted only: assertions without exp never expire, assertions "
                         "without jti are replayable until exp, 15 s skew after exp, bearer tokens resolve without a liveness check")
    finally:
        clock.uninstall()
        logging.disable(logging.NOTSET)


def known_witness(ctx, world, clock, cases):
    """the fixed witness of known finding key=request_param-aud (independent of VERIF_SEED): method
    request_param accepts a signed request object addressed elsewhere as client authentication."""
    cfg = {"ep": "token", "methods": ["client_secret_post", "request_param"], "issuer_target": False, "clients": {}}
    world.configure(cfg)
    clock.now = NOW0
    hist = {"accepted_jti": set()}
    steps, recs = [], []
    for name, rq in (("witness:request-param-wrong-aud",
                      {"request": {"alg": "RS256", "key": ("rsa", 1), "iss": "client_2", "aud": ["https://elsewhere.example.org/"],
                                   "exp": NOW0 + 300, "jti": "witness-1"}}),
                     ("witness:request-param-no-aud",
                      {"request": {"alg": "HS256", "key": ("sym", world.secret["client_1"]), "iss": "client_1", "aud": None,
                                   "exp": NOW0 + 300, "jti": "witness-2"}})):
        term, rec, unmod = run_request(ctx, world, cfg, rq, NOW0, hist)
        rec["name"] = name
        ctx.case_seen({"name": name, "cfg": cfg, "request": rq, "auth": rec["auth"]}, True)
        ctx.count("kind:witness")
        steps.append(term)
        recs.append({"i": len(recs), "name": name, "request": rq, "now": NOW0, "auth": rec["auth"], "outcome": rec["outcome"],
                     "handed_on": {k: v for k, v in rec["seen"].items() if k != "auth"}})
    cases.append((history_term(ctx, world, cfg, [], steps), {"cfg": cfg, "variant": world.variant, "tag": "witness", "steps": recs}))


# ------------------------------------------------------------------ identity: what process_request does, for whom
def run_processed(ctx, world, cfg, rq, now, hist, proc):
    """parse_request (model + oracle as for every request) and then the real process_request on what it
    returned; judged from the property text: an action on X's behalf (X's token revoked, a pushed request stored
    for X) happens only if the request holds a credential of X."""
    epn = cfg["ep"]
    ep = world.eps[epn]
    extra, tok = {}, None
    if epn == "token_revocation":
        tok = world.mint_access(proc["victim"])
        extra = {"token": tok}
    elif epn == "pushed_authorization":
        extra = {"redirect_uri": "https://%s.example.com/cb" % proc["holder"]}
    elif epn == "token":
        extra = {"code": world.mint_code(proc["victim"]), "redirect_uri": "https://%s.example.com/cb" % proc["victim"]}
    par_before = set(world.c.par_db.keys())
    term, rec, unmod = run_request(ctx, world, cfg, rq, now, hist, extra_body=extra, extra_rec={"proc": proc})
    parsed = world.last_parsed
    done, resp = None, None
    if parsed is not None and hasattr(parsed, "get") and not parsed.get("error"):
        try:
            resp = r = ep.process_request(parsed)
            done = ("ret", r.get("error") if hasattr(r, "get") else None)
        except Exception as e:
            done = ("exc", type(e).__name__)
    rec["processed"] = done
    proved = proved_identities(world, cfg, rq, now)
    if epn == "token":
        args = resp.get("response_args") if hasattr(resp, "get") else None
        at = (args or {}).get("access_token")
        ctx.count("processing:code:" + ("token-issued" if at else "no-token"))
        if at:
            owner = world.c.session_manager.get_session_info_by_token(at, handler_key="access_token")["client_id"]
            rec["issued_token_owner"] = owner
            if owner not in proved or proc["victim"] not in proved:
                ctx.violation("acted-for-unproved-identity:code",
                              "token: the authorization code issued to %r was redeemed - an access token owned by %r came "
                              "out - by a request whose only credentials are those of %r (body client_id %r)"
                              % (proc["victim"], owner, sorted(proved.items()), rq.get("client_id")), rec)
    if tok is not None:
        revoked = world.token_revoked(tok)
        rec["victim_token_revoked"] = revoked
        ctx.count("processing:revocation:" + ("revoked" if revoked else "kept"))
        if revoked and proc["victim"] not in proved:
            ctx.violation("acted-for-unproved-identity:revocation",
                          "token_revocation: an access token minted for %r was revoked by a request whose only credentials "
                          "are those of %r (body client_id %r)" % (proc["victim"], sorted(proved.items()), rq.get("client_id")), rec)
        if not revoked and proc["victim"] in proved and proc["victim"] == proc["holder"]:
            ctx.count("processing:revocation:own-token-not-revoked")
    if epn == "pushed_authorization":
        for urn in sorted(set(world.c.par_db.keys()) - par_before):
            owner = world.c.par_db[urn].get("client_id")
            ctx.count("processing:par:stored")
            if owner not in proved:
                ctx.violation("acted-for-unproved-identity:par",
                              "pushed_authorization: an authorization request was stored for client %r by a request whose "
                              "only credentials are those of %r (body client_id %r)" % (owner, sorted(proved.items()), rq.get("client_id")), rec)
            del world.c.par_db[urn]
    return term, rec, unmod


PROC_VARIANTS = ("sub-other", "sub-absent", "sub-unknown", "azp-other", "cid-other", "sub+azp+cid-other",
                 "iss-absent-sub-other", "iss-other-sub-self", "iss-other-sub-other")


def inner_credentials(world, cfg, tag, signers=INNER_SIGNERS[:3]):
    """(name, signer, maker) like identity_credentials: assertions the holder signs with its OWN key whose inner
    claims name the other client (the owner of the token to revoke / the client to push a request for)."""
    out = []
    for sname, a, alg in signers:
        if a not in world.secret or (alg != "HS256" and len(world.kj_iss.get(a, [])) < 2):
            continue
        b = "client_2" if a != "client_2" else "client_1"
        own = good_jwt(world, cfg, a, alg, NOW0, "x")["key"]
        for vname, over in inner_variants(a, b):
            if vname in PROC_VARIANTS:
                out.append(("inner-%s-%s" % (sname, vname), a,
                            lambda n, a=a, alg=alg, over=over, own=own, sname=sname, vname=vname:
                            {"assertion": good_jwt(world, cfg, a, alg, NOW0, "ip-%s-%s-%s%s" % (tag, sname, vname, n),
                                                   **dict(over, key=own))}))
    return out


def identity_processing(ctx, world, clock, cases):
    """Deterministic (no rng): at the revocation, the pushed authorization and the token endpoint (redeeming a
    fresh authorization code), every kind of genuine credential of client A, and every inner-claim variant of an
    assertion A signs (sub / azp / client_id claim naming the other client, iss absent, iss of the other client),
    x body client_id in {absent, A, another registered client, the token's owner, an unregistered id} (revocation /
    code: x the owner of the token to revoke / the code to redeem), parse_request followed by process_request."""
    for epn in ("token_revocation", "pushed_authorization", "token"):
        cfg = {"ep": epn, "methods": list(FULL), "issuer_target": False, "clients": {}}
        world.configure(cfg)
        clock.now = NOW0
        hist = {"accepted_jti": set()}
        steps, recs = [], []
        jdb0 = list(world.c.jti_db.keys())
        creds = [c for c in identity_credentials(world, cfg, NOW0, "P" + epn[:3]) if c[0] != "request-param2"]
        if epn in ("pushed_authorization", "token"):
            creds = [c for c in creds if not c[0].startswith("bearer")]
        creds = creds + inner_credentials(world, cfg, "P" + epn[:3])
        n = 0
        for name, holder, mk in creds:
            for victim in (("client_1", "client_2") if epn in ("token_revocation", "token") else (None,)):
                other = "client_2" if holder != "client_2" else "client_1"
                bodies = [None, holder, other, "nobody"] + (["client_3"] if victim is None else [])
                for body in bodies:
                    n += 1
                    rq = resolve_times(mk("-%d" % n), NOW0)
                    if body is not None:
                        rq["client_id"] = body
                    pname = "process:%s:%s-body-%s%s" % (epn, name, body, "" if victim is None else "-token-of-" + victim)
                    term, rec, unmod = run_processed(ctx, world, cfg, rq, NOW0, hist, {"victim": victim, "holder": holder})
                    rec["name"] = pname
                    ctx.case_seen({"name": pname, "ep": epn, "request": rq, "auth": rec["auth"], "processed": rec["processed"],
                                   "victim_token_revoked": rec.get("victim_token_revoked")}, True)
                    ctx.count("kind:process")
                    if unmod:
                        ctx.unmodelled += 1
                        if steps:
                            cases.append((history_term(ctx, world, cfg, jdb0, steps),
                                          {"cfg": cfg, "variant": world.variant, "tag": "process-" + epn, "steps": recs}))
                        steps, recs, jdb0 = [], [], list(world.c.jti_db.keys())
                    else:
                        steps.append(term)
                        recs.append({"i": len(recs), "name": pname, "request": rq, "now": NOW0, "auth": rec["auth"],
                                     "outcome": rec["outcome"], "processed": rec["processed"],
                                     "handed_on": {k: v for k, v in rec["seen"].items() if k != "auth"}})
        if steps:
            cases.append((history_term(ctx, world, cfg, jdb0, steps),
                          {"cfg": cfg, "variant": world.variant, "tag": "process-" + epn, "steps": recs}))
    world.eps["pushed_authorization"].client_authn_method = list(world.default_methods["pushed_authorization"])
    world.eps["token_revocation"].client_authn_method = list(world.default_methods["token_revocation"])
    world.eps["token"].client_authn_method = list(world.default_methods["token"])


class CCWorld:
    """an OAuth2 authorization server (its token endpoint has the client_credentials grant) with two
    confidential clients; just enough of World for sign_jwt / proved_identities."""
    variant = "oauth2"

    def __init__(self, keys, enc=False):
        import srv
        self.keys = keys
        self.server = srv.make_server(clients=("client_1", "client_2"), oidc=False)
        if enc:
            own_enc_keys(self.server)
            self.variant = "oauth2-enc"
        self.c = self.server.context
        self.server.keyjar.import_jwks({"keys": [pub_jwk(keys["rsa1"]), pub_jwk(keys["ec1"])]}, "client_2")
        self.c.cdb["client_1"]["allowed_scopes"] = ["scope_of_client_1"]
        self.c.cdb["client_2"]["allowed_scopes"] = ["scope_of_client_2"]
        self.secret = {cid: self.c.cdb[cid]["client_secret"] for cid in ("client_1", "client_2")}
        self.kj_iss = {"client_1": [("oct", self.secret["client_1"])],
                       "client_2": [("oct", self.secret["client_2"]), ("rsa", 1), ("ec", 1)]}
        self.kj_own = [("rsa", 0), ("ec", 0)]
        self.tokens, self.token_owner = {}, {}
        self.eps = {"token": self.server.get_endpoint("token")}


def cc_requests(world, now):
    s = world.secret
    cfg = {"ep": "token"}
    out = []
    for holder in ("client_1", "client_2"):
        other = "client_2" if holder == "client_1" else "client_1"
        creds = [("basic", lambda n: {"hdr": ("basic", "%s:%s" % (holder, s[holder]))}),
                 ("secret_jwt", lambda n: {"assertion": good_jwt(world, cfg, holder, "HS256", now, "cc-hs-%s-%s" % (holder, n))})]
        if holder == "client_2":
            creds.append(("private_key_jwt", lambda n: {"assertion": good_jwt(world, cfg, holder, "RS256", now, "cc-rs-" + n)}))
        for cname, mk in creds:
            for body in (None, holder, other, "nobody"):
                rq = resolve_times(mk(str(body)), now)
                if body is not None:
                    rq["client_id"] = body
                out.append(("cc:%s-of-%s-body-%s" % (cname, holder, body), holder, rq))
        for cname, _a, mk in inner_credentials(world, cfg, "cc", signers=[x for x in INNER_SIGNERS if x[1] == holder]):
            for body in (None, holder, other):
                rq = resolve_times(mk("-" + str(body)), now)
                if body is not None:
                    rq["client_id"] = body
                out.append(("cc:%s-body-%s" % (cname, body), holder, rq))
        out.append(("cc:post-of-%s" % holder, holder, {"client_id": holder, "client_secret": s[holder]}))
        out.append(("cc:basic-of-%s+post-of-%s" % (holder, other), holder,
                    {"hdr": ("basic", "%s:%s" % (holder, s[holder])), "client_id": other, "client_secret": s[other]}))
        out.append(("cc:basic-of-%s-body-%s-wrong-secret" % (holder, other), holder,
                    {"hdr": ("basic", "%s:%s" % (holder, s[holder])), "client_id": other, "client_secret": "wrong"}))
    return out


def cc_one(ctx, world, name, rq, now, methods="default"):
    """one client_credentials request through the real parse_request + process_request; oracle only (the
    parse step of the same request shapes is compared with the model at the five modelled endpoints): the
    token that is issued belongs to a client the request holds a credential of."""
    ep = world.eps["token"]
    cfg = {"ep": "token"}
    body, headers = real_request(world, "token", rq)
    body.pop("code", None)
    body.pop("redirect_uri", None)
    body["grant_type"] = "client_credentials"
    rec = {"block": "client_credentials", "name": name, "request": rq, "now": now, "variant": world.variant, "methods": methods}
    dflt = world.__dict__.setdefault("_default_methods", list(ep.client_authn_method))
    if methods != "default":
        ep.set_client_authn_methods(client_authn_method=methods)
    else:
        ep.client_authn_method = list(dflt)
    proved = proved_identities(world, cfg, rq, now)
    # an empty session store per request: a SECOND client_credentials request of the same client makes
    # ClientCredentials.process_request raise TypeError ('ClientSessionInfo' object is not subscriptable) - a
    # robustness matter outside C01 that would make all but the first request of each client vacuous here
    world.c.session_manager.flush()
    try:
        parsed = ep.parse_request(dict(body), http_info={"headers": headers})
    except Exception as e:
        rec["outcome"] = ("exc", type(e).__name__)
        ctx.count("client_credentials:refused")
        ctx.case_seen(rec, True)
        return
    rec["outcome"] = ("ret", type(parsed).__name__, parsed.get("error"))
    rec["parsed_client_id"], rec["parsed_authenticated"] = parsed.get("client_id"), bool(parsed.get("authenticated"))
    if not parsed.get("error") and parsed.get("authenticated") and parsed.get("client_id") not in proved:
        ctx.violation("identity-not-proved",
                      "token (client_credentials): the request parse_request returns carries client_id=%r with "
                      "authenticated=True, but the only credentials in the request are those of %r (body client_id %r)"
                      % (parsed.get("client_id"), sorted(proved.items()), rq.get("client_id")), rec)
    if not parsed.get("error"):
        try:
            resp = ep.process_request(parsed)
        except Exception as e:
            resp = {"exception": type(e).__name__}
        args = resp.get("response_args") if hasattr(resp, "get") else None
        tok = (args or {}).get("access_token") or (resp.get("access_token") if hasattr(resp, "get") else None)
        if tok:
            info = world.c.session_manager.get_session_info_by_token(tok, handler_key="access_token")
            rec["token_owner"], rec["token_scope"] = info["client_id"], (args or resp).get("scope")
            ctx.count("client_credentials:token-issued")
            if info["client_id"] not in proved:
                ctx.violation("acted-for-unproved-identity:client_credentials",
                              "token (client_credentials): an access token owned by %r (scope %r) was issued to a request "
                              "whose only credentials are those of %r (body client_id %r)"
                              % (info["client_id"], rec["token_scope"], sorted(proved.items()), rq.get("client_id")), rec)
        else:
            ctx.count("client_credentials:no-token")
    else:
        ctx.count("client_credentials:error-response")
    ctx.case_seen(rec, True)
    ctx.count("kind:client_credentials")


def identity_client_credentials(ctx, keys, clock):
    clock.now = NOW0
    world = CCWorld(keys)
    for name, _holder, rq in cc_requests(world, NOW0):
        cc_one(ctx, world, name, rq, NOW0)


LONG_METHODS = ["client_secret_post", "client_secret_jwt", "private_key_jwt", "request_param"]


def long_lived_replays(ctx, world, clock, cases):
    """Deterministic (no rng): a long-lived assertion (exp = now + 1 h / 1 day, with jti) is presented once, the
    provider's clock advances by 0 / 599 / 600 / 601 / 3599 s / 12 h, k in {0, 3} requests with fresh assertions
    intervene, then the SAME assertion is presented again at the same or at another endpoint sharing the replay
    cache.  While it is unexpired the second presentation must be refused (oracle key jti-replay); the model
    says the cache only grows."""
    ep_a, ep_b = "token", "pushed_authorization"
    n = 0
    for meth, alg, cid, field in (("client_secret_jwt", "HS256", "client_1", "assertion"),
                                  ("private_key_jwt", "RS256", "client_2", "assertion"),
                                  ("request_param", "ES256", "client_2", "request")):
        for life in (3600, 86400):
            for advance in (0, 599, 600, 601, 3599, 43200):
                for k in (0, 3):
                    for other in (False, True):
                        n += 1
                        tag = "L%d" % n
                        cfg_a = {"ep": ep_a, "methods": list(LONG_METHODS), "issuer_target": False, "clients": {}}
                        cfg_b = {"ep": ep_b, "methods": list(LONG_METHODS), "issuer_target": False, "clients": {}}
                        world.configure(cfg_a)                      # resets client database and replay cache
                        eb = world.eps[ep_b]
                        eb.set_client_authn_methods(client_authn_method=list(LONG_METHODS))
                        eb.allowed_targets = [eb.name]
                        clock.now = NOW0
                        hist = {"accepted_jti": set()}
                        aud = [ep_url(world, ep_a), ep_url(world, ep_b)]

                        def mk(jti, now):
                            if alg == "HS256":
                                key = ("sym", world.secret[cid])
                            else:
                                key = ("rsa" if alg == "RS256" else "ec", 1)
                            return {field: {"alg": alg, "key": key, "iss": cid, "aud": aud, "exp": now + life, "jti": jti}}

                        long_rq = mk("long-%s" % tag, NOW0)
                        plan = [("long:first:%s" % meth, cfg_a, long_rq, 0)]
                        for i in range(k):
                            plan.append(("long:fresh:%s" % meth, cfg_a, None, advance if i == 0 else 0))
                        plan.append(("long:replay-after-%ds-%d-%s:%s" % (advance, k, "other-endpoint" if other else "same-endpoint", meth),
                                     cfg_b if other else cfg_a, long_rq, advance if k == 0 else 0))
                        seg = {"cfg": None, "jdb0": [], "steps": [], "recs": []}

                        def flush():
                            if seg["steps"]:
                                cases.append((history_term(ctx, world, seg["cfg"], seg["jdb0"], seg["steps"]),
                                              {"cfg": seg["cfg"], "variant": world.variant, "tag": tag, "steps": seg["recs"]}))
                            seg["steps"], seg["recs"] = [], []

                        for i, (name, cfg, rq, tick) in enumerate(plan):
                            if tick:
                                clock.tick(tick)
                            now = clock.now
                            if rq is None:
                                rq = mk("fresh-%s-%d" % (tag, i), now)
                            if seg["cfg"] is not cfg:
                                flush()
                                seg["cfg"], seg["jdb0"] = cfg, list(world.c.jti_db.keys())
                            term, rec, unmod = run_request(ctx, world, cfg, rq, now, hist)
                            rec["name"] = name
                            ctx.case_seen({"name": name, "ep": cfg["ep"], "request": rq, "now": now - NOW0, "auth": rec["auth"]}, True)
                            ctx.count("kind:long-lived")
                            a = rec["auth"]
                            if name.startswith("long:replay"):
                                ctx.count("long-lived-replay:" + ("accepted" if a and a[0] == "ok" and a[1] else
                                                                  ("refused:" + str(a[1]) if a else "?")))
                            if unmod:
                                ctx.unmodelled += 1
                                flush()
                                seg["cfg"] = None
                            else:
                                seg["steps"].append(term)
                                seg["recs"].append({"i": len(seg["recs"]), "name": name, "request": rq, "now": now, "auth": rec["auth"],
                                                    "outcome": rec["outcome"],
                                                    "handed_on": {x: v for x, v in rec["seen"].items() if x != "auth"}})
                        flush()
    # leave the second endpoint as the other histories expect it
    world.eps[ep_b].client_authn_method = list(world.default_methods[ep_b])


# ------------------------------------------------------------------ delivery forms: assertions inside encrypted wrappers
JWS3 = ["client_secret_jwt", "private_key_jwt", "request_param"]
WRAP_METHODS = [("jws3", JWS3), ("registry", None), ("private-only", ["private_key_jwt"]),
                ("secret-jwt+basic", ["client_secret_jwt", "client_secret_basic"]), ("request-param+post", ["request_param", "client_secret_post"]),
                ("default", "default")]


def wrapped_contents(world, cfg, now, tag):
    """(name, content, alg family, cty set) - what can sit inside a wrapper: (a) bare JSON claims naming a registered
    client, (b) an alg=none JWS, (c) a JWS signed with an unregistered key / another client's key / the client's
    superseded secret (the key jar still holds it), (d)(e) the genuine HS / RS / ES assertion, text, (g) another
    wrapper around the genuine assertion / around bare claims"""
    s = world.secret

    def J(cid, alg, name, **o):
        sp = good_jwt(world, cfg, cid, alg, now, "w-%s-%s" % (name, tag), **o)
        sp.pop("rel", None)
        sp["exp"] = now + 300
        return sp
    K = lambda key: kid_for(world, key)
    return [
        ("json", lambda n: {"json": J("client_2", "none", "json" + n, key=("sym", ""))}),
        ("json-of-secret-only-client", lambda n: {"json": J("client_1", "none", "json1" + n, key=("sym", ""))}),
        ("alg-none", lambda n: J("client_2", "none", "none" + n)),
        ("unregistered-key", lambda n: J("client_2", "RS256", "unreg" + n, key=("rsa", 3))),
        ("other-clients-key", lambda n: J("client_2", "ES256", "other" + n, key=("ec", 2))),
        ("other-clients-secret", lambda n: J("client_2", "HS256", "hsother" + n, key=("sym", s["client_1"]))),
        ("superseded-secret-kid", lambda n: J("client_4", "HS256", "stale" + n, key=("sym", s["client_4"]), kid=K(("sym", s["client_4"])))),
        ("secret-in-force-kid", lambda n: J("client_4", "HS256", "rot" + n, key=("sym", ROTATED), kid=K(("sym", ROTATED)))),
        ("genuine-hs", lambda n: J("client_2", "HS256", "hs" + n, kid=K(("sym", s["client_2"])))),
        ("genuine-hs-secret-only-client", lambda n: J("client_1", "HS256", "hs1" + n)),
        ("genuine-rs", lambda n: J("client_2", "RS256", "rs" + n)),
        ("genuine-es", lambda n: J("client_4", "ES256", "es" + n)),
        ("text", lambda n: "notjwt"),
        ("jwe-around-genuine-rs", lambda n: wrap(J("client_2", "RS256", "jj" + n), "ECDH-ES", "JWT")),
        ("jwe-around-json", lambda n: wrap({"json": J("client_2", "none", "jjson" + n, key=("sym", ""))}, "RSA-OAEP", None)),
    ]


def wrapped_requests(world, cfg, now, tag, full=True):
    """the delivery-form matrix for one endpoint configuration -> [(name, request)]"""
    out = []
    n = 0
    for field in ("assertion", "request"):
        for cname, mk in wrapped_contents(world, cfg, now, tag):
            for alg in (("RSA-OAEP", "ECDH-ES") if full or cname in ("json", "genuine-rs") else ("RSA-OAEP",)):
                for cty in ("JWT", None):
                    n += 1
                    nm = "wrapped:%s:%s:%s:cty-%s" % (field, cname, alg, cty or "absent")
                    out.append((nm, {field: wrap(mk("-%d" % n), alg, cty)}))
                    if cname in ("json", "genuine-rs", "alg-none", "unregistered-key") and (full or cty is None):
                        # the body names the client as well (with the whole registry tried, `public` may pick it up)
                        n += 1
                        out.append((nm + ":body-client_id", {field: wrap(mk("-%d" % n), alg, cty), "client_id": "client_2"}))
        # (f) wrappers made for a key the provider does not have
        for cname, mk in wrapped_contents(world, cfg, now, tag):
            if cname in ("json", "genuine-rs", "genuine-hs"):
                for alg in ("RSA-OAEP", "ECDH-ES"):
                    for cty in ("JWT", None):
                        n += 1
                        out.append(("wrapped:%s:%s:%s:cty-%s:to-a-strangers-key" % (field, cname, alg, cty or "absent"),
                                    {field: wrap(mk("-%d" % n), alg, cty, to="other")}))
    # both parameters at once: unsigned claims of one client next to a genuine wrapped assertion of another
    n += 1
    cs = dict(wrapped_contents(world, cfg, now, tag))
    out.append(("wrapped:both:json-request+genuine-es-assertion",
                {"request": wrap(cs["json"]("-%d" % n), "RSA-OAEP", None), "assertion": wrap(cs["genuine-es"]("-%d" % n), "ECDH-ES", "JWT")}))
    return out


def wrapped_deliveries(ctx, keys, clock, cases):
    """Deterministic (no rng).  A provider that OWNS an RSA and an EC decryption key (the key jar of rot_jar otherwise;
    client_4's record holds the rotated secret, so its first secret is superseded).  At each of the five endpoints, for
    six method lists (the three JWS-based methods; None = the whole registry; private_key_jwt alone; client_secret_jwt
    + basic; request_param + post; the configured default): client_assertion / request object delivered inside a compact
    JWE (RSA-OAEP / ECDH-ES, cty JWT / absent, made for the provider's or a stranger's key, one or two layers) around
    every kind of content.  parse_request vs the model ([seen] / open_assertion), and the oracle as for every request -
    ground truth: the innermost object and who signed it."""
    world = World(ctx, keys, "enc")
    for epn in EPS:
        for mname, methods in WRAP_METHODS:
            cfg = {"ep": epn, "methods": methods, "issuer_target": False, "clients": {"client_4": {"secret": ROTATED}}}
            world.configure(cfg)
            clock.now = NOW0
            hist = {"accepted_jti": set()}
            steps, recs = [], []
            jdb0 = list(world.c.jti_db.keys())
            tag = "%s-%s" % (epn[:5], mname)
            for name, rq in wrapped_requests(world, cfg, NOW0, tag, full=mname in ("jws3", "registry")):
                term, rec, unmod = run_request(ctx, world, cfg, rq, NOW0, hist)
                rec["name"] = name
                a = rec["auth"]
                verdict = ("accepted:" + str(a[1].get("method"))) if (a and a[0] == "ok" and a[1] and a[1].get("client_id")) else "not-accepted"
                parts = name.split(":")
                ctx.count("wrapped:%s:%s:%s:%s" % (parts[1], parts[2], parts[4] if len(parts) > 4 else "", verdict))
                ctx.count("kind:wrapped")
                ctx.count("endpoint:" + epn)
                ctx.case_seen({"ep": epn, "methods": methods, "name": name, "request": rq, "auth": a, "outcome": rec["outcome"]}, True)
                if unmod:
                    ctx.unmodelled += 1
                    if steps:
                        cases.append((history_term(ctx, world, cfg, jdb0, steps),
                                      {"cfg": cfg, "variant": world.variant, "tag": "wrapped-" + tag, "steps": recs}))
                    steps, recs, jdb0 = [], [], list(world.c.jti_db.keys())
                else:
                    steps.append(term)
                    recs.append({"i": len(recs), "name": name, "request": rq, "now": NOW0, "auth": a, "outcome": rec["outcome"],
                                 "handed_on": {k: v for k, v in rec["seen"].items() if k != "auth"}})
            if steps:
                cases.append((history_term(ctx, world, cfg, jdb0, steps),
                              {"cfg": cfg, "variant": world.variant, "tag": "wrapped-" + tag, "steps": recs}))
    # ---- what such a request ACHIEVES: revocation of the named client's token, a pushed request stored for it, its
    # authorization code redeemed (parse_request then process_request on the same provider)
    for epn in ("token_revocation", "pushed_authorization", "token"):
        # (not under the whole registry: there `none` / `public` hand a request on without any credential - a code is
        # redeemed, a named client's token revoked, with or without an assertion; nothing a wrapper adds to.  The
        # parse block above has the registry rows: handed on NOT authenticated.)
        for mname, methods in WRAP_METHODS[:1] + WRAP_METHODS[4:5]:
            cfg = {"ep": epn, "methods": methods, "issuer_target": False, "clients": {}}
            world.configure(cfg)
            clock.now = NOW0
            hist = {"accepted_jti": set()}
            steps, recs = [], []
            jdb0 = list(world.c.jti_db.keys())
            tag = "P%s-%s" % (epn[:5], mname)
            for name, rq in wrapped_requests(world, cfg, NOW0, tag, full=False):
                if "secret-in-force" in name or "superseded" in name:
                    continue
                pname = "process:%s:%s" % (epn, name)
                term, rec, unmod = run_processed(ctx, world, cfg, rq, NOW0, hist,
                                                 {"victim": "client_2" if epn != "pushed_authorization" else None, "holder": "client_2"})
                rec["name"] = pname
                ctx.count("kind:wrapped-process")
                ctx.case_seen({"name": pname, "ep": epn, "methods": methods, "request": rq, "auth": rec["auth"],
                               "processed": rec["processed"], "victim_token_revoked": rec.get("victim_token_revoked")}, True)
                if unmod:
                    ctx.unmodelled += 1
                    if steps:
                        cases.append((history_term(ctx, world, cfg, jdb0, steps),
                                      {"cfg": cfg, "variant": world.variant, "tag": "wrapped-" + tag, "steps": recs}))
                    steps, recs, jdb0 = [], [], list(world.c.jti_db.keys())
                else:
                    steps.append(term)
                    recs.append({"i": len(recs), "name": pname, "request": rq, "now": NOW0, "auth": rec["auth"],
                                 "outcome": rec["outcome"], "processed": rec["processed"],
                                 "handed_on": {k: v for k, v in rec["seen"].items() if k != "auth"}})
            if steps:
                cases.append((history_term(ctx, world, cfg, jdb0, steps),
                              {"cfg": cfg, "variant": world.variant, "tag": "wrapped-" + tag, "steps": recs}))
    for n in EPS:
        world.eps[n].client_authn_method = list(world.default_methods[n])
    # ---- client_credentials at an OAuth2 token endpoint that owns decryption keys (oracle only: owner of the token)
    cc = CCWorld(keys, enc=True)
    cc.secret["client_4"] = "no-such-client-at-this-provider-0123456789"
    for mname, methods in WRAP_METHODS[:2] + WRAP_METHODS[4:]:
        for name, rq in wrapped_requests(cc, {"ep": "token"}, NOW0, "cc-" + mname, full=False):
            if "client_4" in json.dumps(rq) or "in-force" in name or "superseded" in name:
                continue
            cc_one(ctx, cc, "cc:%s:%s" % (mname, name), rq, NOW0, methods=methods)


def side_cases(ctx, world):
    """registry order, set_client_authn_methods, valid_client_secret called directly."""
    from idpyoidc.server import client_authn as CA
    imp = ["Lib.Base", "Lib.PyStr", "Model.ClientAuthn"]
    tags = [cls.tag for cls in CA.CLIENT_AUTHN_METHOD.values()]
    names = list(CA.CLIENT_AUTHN_METHOD.keys())
    if tags != names or list(world.c.client_authn_methods.keys()) != names:
        ctx.broken.append("CLIENT_AUTHN_METHOD: keys %r, tags %r, context registry %r differ" % (names, tags, list(world.c.client_authn_methods.keys())))
    ctx.coq_check_cases(imp, "list pystr", "chk_registry", [(coq_list([coq_str(t) for t in names], "pystr"), {"registry": names})], label="registry")
    ctx.case_seen({"registry": names}, True)
    cfgd = []
    ep = world.eps["introspection"]
    saved = ep.client_authn_method
    for lst in (None, [], ["client_secret_post"], ["none"], ["public", "client_secret_basic"], list(METHS)):
        ep.set_client_authn_methods(client_authn_method=lst)
        obs = list(ep.client_authn_method)
        cfgd.append(("(%s, %s)" % ("(@None (list meth))" if lst is None else "(Some %s)" % cq_meths(lst),
                                   coq_list([coq_str(t) for t in obs], "pystr")), {"set_client_authn_methods": lst, "observed": obs}))
        ctx.case_seen({"set_client_authn_methods": lst, "observed": obs}, True)
    ep.client_authn_method = saved
    ctx.coq_check_cases(imp, "option (list meth) * list pystr", "chk_configured", cfgd, label="configured")
    vs = []
    import srv
    clk = NOW0
    for has in (True, False):
        for eta in (None, 0, clk - 1, clk, clk + 1, -5, 1, clk - 10 ** 6, clk + 10 ** 6):
            for now in (clk,):
                cinfo = {"client_id": "x"}
                if has:
                    cinfo["client_secret"] = "x"
                if eta is not None:
                    cinfo["client_secret_expires_at"] = eta
                obs = bool(CA.valid_client_secret(cinfo))
                vs.append(("(%s, %s, %s, %s)" % (coq_bool(has), cq_optz(eta), coq_z(now), coq_bool(obs)),
                           {"valid_client_secret": cinfo, "now": now, "observed": obs}))
                ctx.case_seen({"valid_client_secret": cinfo, "now": now, "observed": obs}, True)
                # oracle: an expired secret is not valid, an unexpired one is
                if has and eta not in (None, 0) and (eta < now) == obs:
                    ctx.violation("secret-expiry", "valid_client_secret(%r) at %d is %r" % (cinfo, now, obs), cinfo)
    ctx.coq_check_cases(imp, "bool * option Z * Z * bool", "chk_valid_secret", vs, label="validsecret")


def replay(ctx, rp):
    """re-run the recorded request (configuration, replay cache and clock restored) on the current tree and
    apply the oracle and the model to it; without a recorded request re-run the generator with the seed."""
    import logging
    import srv
    case = rp.get("case") or {}
    if isinstance(case, dict) and case.get("block") == "client_credentials" and "request" in case:
        logging.disable(logging.CRITICAL)
        clock = srv.Clock(case["now"]).install()
        try:
            cc_one(ctx, CCWorld(load_keys(ctx), enc=case.get("variant") == "oauth2-enc"), case.get("name", "replay"),
                   untuple(case["request"]), case["now"], methods=case.get("methods", "default"))
        finally:
            clock.uninstall()
            logging.disable(logging.NOTSET)
        return
    if isinstance(case, dict) and isinstance(case.get("cfg"), dict) and case["cfg"].get("rotation") and case.get("entry"):
        # a request of a credential history: the history is performed again (the provider draws new secrets), the
        # recorded entry of the credential matrix is made anew from the material of that history
        import idpyoidc.server.oidc.registration  # noqa
        logging.disable(logging.CRITICAL)
        clock = srv.Clock(NOW0).install()
        try:
            cfg = case["cfg"]
            world = credential_histories(ctx, load_keys(ctx), clock, [], only=(cfg["rotation"]["history"], cfg["rotation"]["upto"]))
            world.configure(cfg)
            now = clock.now
            rq = resolve_times(dict(rotation_matrix(world, cfg, now, "replay"))[case["entry"]], now)
            jdb0 = list(world.c.jti_db.keys())
            term, rec, unmod = run_request(ctx, world, cfg, rq, now, {"accepted_jti": set()}, extra_rec={"entry": case["entry"]})
            ctx.case_seen(rec, True)
            if not unmod:
                ctx.coq_check_cases(["Lib.Base", "Lib.PyStr", "Model.ClientAuthn"], "hcase", "chk_history",
                                    [(history_term(ctx, world, cfg, jdb0, [term]),
                                      {"cfg": cfg, "variant": world.variant, "tag": "replay", "steps": [rec]})],
                                    label="replay", diag="diag_history")
        finally:
            clock.uninstall()
            logging.disable(logging.NOTSET)
        return
    if not (isinstance(case, dict) and "cfg" in case and "request" in case):
        ctx.notes.append("replay re-runs the generator with the recorded seed")
        ctx.rng.seed(rp.get("seed", ctx.seed))
        return run(ctx)
    logging.disable(logging.CRITICAL)
    clock = srv.Clock(case["now"]).install()
    try:
        world = World(ctx, load_keys(ctx), case.get("variant", "plain"))
        cfg = case["cfg"]
        world.configure(cfg)
        for k in case.get("jti_db_before", []):
            world.c.jti_db[k] = case["now"]
        hist = {"accepted_jti": {tuple(k.split(":", 1)) for k in case.get("jti_db_before", []) if ":" in k}}
        rq = json.loads(json.dumps(case["request"]), object_hook=lambda d: d)
        rq = untuple(rq)
        jdb0 = list(world.c.jti_db.keys())
        if case.get("proc"):
            term, rec, unmod = run_processed(ctx, world, cfg, rq, case["now"], hist, case["proc"])
        else:
            term, rec, unmod = run_request(ctx, world, cfg, rq, case["now"], hist)
        ctx.case_seen(rec, True)
        if not unmod:
            ctx.coq_check_cases(["Lib.Base", "Lib.PyStr", "Model.ClientAuthn"], "hcase", "chk_history",
                                [(history_term(ctx, world, cfg, jdb0, [term]), {"cfg": cfg, "variant": world.variant, "tag": "replay",
                                                                                  "steps": [rec]})], label="replay", diag="diag_history")
    finally:
        clock.uninstall()
        logging.disable(logging.NOTSET)


def untuple(rq):
    """JSON turned the tuples of a recorded request into lists; restore them."""
    out = dict(rq)
    if out.get("hdr") is not None:
        out["hdr"] = tuple(out["hdr"])
    def fix(sp):
        if not isinstance(sp, dict):
            return sp
        sp = dict(sp)
        if "jwe" in sp:
            sp["inner"] = fix(sp["inner"])
        elif "json" in sp:
            sp["json"] = fix(sp["json"])
        else:
            sp["key"] = tuple(sp["key"])
        return sp
    for f in ("assertion", "request"):
        out[f] = fix(out.get(f)) if out.get(f) is not None else out.get(f)
        if out[f] is None:
            out.pop(f)
    return out
