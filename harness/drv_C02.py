"""C02 driver — authorization codes: single use, client-bound, redirect-bound, expiring; every
interleaving of parse/process of concurrent redemptions; OIDC replay invalidates derived tokens."""
import itertools

import sess
import drv_session_common as common

RULE = ("histories on real OIDC and OAuth2 providers (authorization, token, userinfo, introspection, revocation endpoints + "
        "revocation API, controlled clock): (a) every interleaving of the parse/process steps of 2 and 3 concurrent redemptions "
        "of one code (exhaustive), with same-client, cross-client and altered/missing redirect_uri variants, both flavours; "
        "(b) random histories (length 15-60, 3 users x 3 clients, 45% honest next steps, replays, cross-client, expiry ticks); "
        "(c) every client has TWO registered redirect_uris and browsers come back: fixed and random histories in which a code is "
        "still pending while a further authorization request arrives WITH the provider's session cookie of an earlier "
        "authorization (identical request / other registered redirect_uri / narrower, wider, reordered scope / other client or "
        "user / new or old state+nonce / cookie of a revoked, removed, expired session), after which every code is presented with "
        "each registered redirect_uri; the oracle holds every exchange against the redirect_uri the harness SENT in the "
        "authorization request that produced that very code; "
        "(d) providers configured with the documented session parameter remove_inactive_token (Grant.revoke_token then takes "
        "revoked tokens off grant.issued_token; they still decrypt and can be presented): the interleaving schedules and the "
        "expiry / replay cases of (a) once more, a lineage family (first use, 0-2 refresh generations with and without refresh "
        "rotation, then nothing / a revocation of the code, of an access, refresh or ID token through the revocation endpoint or "
        "the API, then the code again, then every descendant at userinfo, introspection, the refresh grant and the revocation "
        "endpoint) under both values of the option, and random histories with the option on; model correspondence with the "
        "flag c_remove_inactive, the exchange-count oracle, and the replay oracle over ALL descendants of the first use "
        "(lineage kept by the harness from the responses). "
        "A history is non-trivial when at least one code exchange succeeds; distinct by content.")
ASSUMPTIONS = ["a provider whose usage rules are configured per client only sees no cookie-carrying authorization requests in the "
               "model-compared histories (the grant it makes for such a request gets no usage rules at all; the model's lifetimes are per provider)",
               "token values are abstracted to minting-order identifiers (byte-level token formats are property C04)",
               "client authentication at the token endpoint succeeds for the authenticating client (property C01)",
               "ID Token signing succeeds (keys configured)"]


class Oracle:
    """Decides the property text on the observed behaviour of the real provider."""

    def __init__(self, ctx):
        self.ctx = ctx
        self.parsed = []          # index -> (kind, client, ref, redirect) for every parse that stored a request
        self.success = {}         # code id -> list of proc records
        self.code_exp = {}
        self.hist = []
        self.parent = {}          # token id -> the token it was minted from, as the RESPONSES say (code -> tokens, refresh token -> tokens)
        self.revoked_before = set()

    def before(self, rs, op):
        if not self.hist:
            self.hist.append([["provider", {"flavour": "oidc" if rs.oidc else "oauth2", "usage_rules": rs.rules,
                                            "session_params.remove_inactive_token": bool(getattr(rs, "remove_inactive", False)),
                                            "revoke_refresh_on_issue": bool(rs.ep["token"].revoke_refresh_on_issue)}], ["-"]])
        if op[0] == "tparse":
            # what was revoked before this presentation (only used to name the verdict, see probe_dead)
            self.revoked_before = {i for i, t in enumerate(rs.tokobj) if t.revoked}

    def descendants(self, cid):
        """everything minted from the first use of code cid, transitively (refreshes of refreshes ...)"""
        out, todo = [], [cid]
        while todo:
            x = todo.pop()
            for t, p in sorted(self.parent.items()):
                if p == x and t not in out:
                    out.append(t)
                    todo.append(t)
        return sorted(out)

    def chain(self, tid):
        """the ancestors of tid, nearest first, ending with the code"""
        out = []
        while tid in self.parent:
            tid = self.parent[tid]
            out.append(tid)
        return out

    def __call__(self, rs, op, out, rec):
        if not self.hist:
            self.before(rs, ("-",))
        self.hist.append([list(op), out])
        k = op[0]
        if k in ("tparse", "rparse"):
            if len(rs.parsed) > len(self.parsed):
                red = op[3] if len(op) > 3 else "same"
                self.parsed.append((k, op[1], op[2], red, rs.clock.now,
                                    rs.redirect_for(op[1], op[2], red) if k == "tparse" else None))
            if k == "tparse" and rs.oidc and op[2][0] == "tok" and op[2][1] < len(rs.tokobj):    # (a reference to a token never minted is garbage)
                t = rs.tokobj[op[2][1]]
                if t.token_class == "authorization_code" and out[0] == "err" and self.success.get(op[2][1]):
                    # second presentation of an already exchanged code at the OIDC endpoint:
                    # the tokens minted from the first exchange - and whatever was minted from those - must be dead everywhere
                    self.ctx.count("replay-of-an-exchanged-code:remove_inactive_token-" + ("on" if getattr(rs, "remove_inactive", False) else "off")
                                   + ":answer-" + str(out[1]))
                    for tid in self.descendants(op[2][1]):
                        self.ctx.count("replay-probe:generation-%d" % len(self.chain(tid)))
                        self.probe_dead(rs, tid, "after OIDC replay of code %d" % op[2][1])
        if k == "proc" and out[0] == "ok" and op[1] < len(self.parsed):
            kind, client, ref, red, t_parse, sent_uri = self.parsed[op[1]]
            if kind != "tparse":
                if ref[0] == "tok":      # a refresh: what the response carries was minted from the presented refresh token
                    for tid in out[1].values():
                        if tid >= 0:
                            self.parent.setdefault(tid, ref[1])
                return
            if ref[0] != "tok":
                self.ctx.violation("tokens-for-garbage", "tokens issued for a string that is no code: %r" % (ref,), self.hist)
                return
            cid = ref[1]
            code = rs.tokobj[cid]
            owner = rs.grants[rs.tok_grant[cid]][3]
            for tid in out[1].values():
                if tid >= 0:
                    self.parent.setdefault(tid, cid)
            self.success.setdefault(cid, []).append(dict(out[1]))
            if len(self.success[cid]) > 1:
                self.ctx.violation("code-reuse", "code %d exchanged for tokens %d times" % (cid, len(self.success[cid])), self.hist)
            if code.token_class != "authorization_code":
                self.ctx.violation("not-a-code", "tokens issued for a %s presented as code" % code.token_class, self.hist)
            if client != owner:
                self.ctx.violation("cross-client", "code of %s exchanged by %s" % (owner, client), self.hist)
            if red != "same":
                self.ctx.violation("redirect-mismatch", "code exchanged with redirect_uri variant %r" % red, self.hist)
            # the redirect_uri of the token request is the one that went out in the authorization request that produced THIS
            # code (what the harness sent then - not what the provider has on record now)
            issued_for = rs.code_req.get(cid, {}).get("redirect_uri")
            if issued_for is not None and sent_uri != issued_for:
                self.ctx.violation("redirect-mismatch", "code %d, issued on an authorization request with redirect_uri %s, was exchanged with redirect_uri %r"
                                   % (cid, issued_for, sent_uri), self.hist)
            self.ctx.count("exchange-with:" + ("the-code's-own-redirect_uri" if sent_uri == issued_for else "another-redirect_uri"))
            if code.expires_at and rs.clock.now > code.expires_at:
                self.ctx.violation("expired-code", "code exchanged %d s after its expiry" % (rs.clock.now - code.expires_at), self.hist)

    def verdict_key(self, rs, tid):
        """The recorded finding (known_findings.txt) is narrow: remove_inactive_token ON and, before this presentation, the
        code itself or a token on the way from the code down to tid had been revoked (the library's walk drops such tokens
        from the grant and no longer passes through them).  Everything else - the option off; the option on with nothing
        revoked on the way - keeps the plain key."""
        if getattr(rs, "remove_inactive", False) and any(a in self.revoked_before for a in self.chain(tid)):
            return "replay-not-revoked:remove-inactive-token"
        return "replay-not-revoked"

    def probe_dead(self, rs, tid, why):
        """out-of-band probes on the real endpoints (read-only)"""
        t = rs.tokobj[tid]
        if t.token_class == "access_token" and rs.oidc:
            r = rs.run(("userinfo", ("tok", tid)))
            if r[0] == "ok":
                self.ctx.violation(self.verdict_key(rs, tid), "access token %d still honoured by userinfo %s" % (tid, why), self.hist)
        if t.token_class in ("access_token", "refresh_token"):
            owner = rs.grants[rs.tok_grant[tid]][3]
            r = rs.run(("introspect", owner, ("tok", tid)))
            if r[0] == "active":
                self.ctx.violation(self.verdict_key(rs, tid), "%s %d still active at introspection %s" % (t.token_class, tid, why), self.hist)


def interleavings(n):
    """all orders of parse_i < proc_i for i < n"""
    items = [("parse", i) for i in range(n)] + [("proc", i) for i in range(n)]
    res = []
    for perm in itertools.permutations(items):
        pos = {x: i for i, x in enumerate(perm)}
        if all(pos[("parse", i)] < pos[("proc", i)] for i in range(n)):
            res.append(perm)
    return res


def structured_cases(quick, rng):
    cases = []
    scope = ["openid", "email", "offline_access"]
    for oidc in (True, False):
        for n in (2, 3):
            orders = interleavings(n)
            if quick and n == 3:
                orders = rng.sample(orders, 12)
            for oi, order in enumerate(orders):
                variants = [("same-client", ["client_1"] * n, ["same"] * n)]
                if oi % 4 == 0:
                    variants.append(("cross-client", ["client_1", "client_2", "client_1"][:n], ["same"] * n))
                    variants.append(("redirect", ["client_1"] * n, ["other", "same", "absent"][:n]))
                for vname, clients, reds in variants:
                    ops = [("authz", "diana", "client_1", scope)]
                    pidx = {}
                    for kind, i in order:
                        if kind == "parse":
                            pidx[i] = len([o for o in ops if o[0] in ("tparse", "rparse")])
                            ops.append(("tparse", clients[i], ("tok", 0), reds[i]))
                        else:
                            ops.append(("proc", pidx[i], None))
                    ops.append(("introspect", "client_1", ("tok", 1)))
                    cases.append(("sched-%s-n%d-%d-%s" % ("oidc" if oidc else "oauth2", n, oi, vname), oidc, False, ops))
        # expiry boundary: the code lives 300 s
        for d in (299, 300, 301):
            cases.append(("expiry-%d" % d, oidc, False,
                          [("authz", "diana", "client_1", scope), ("tick", d), ("tparse", "client_1", ("tok", 0), "same"),
                           ("proc", 0, None)]))
            cases.append(("expiry-between-%d" % d, oidc, False,
                          [("authz", "diana", "client_1", scope), ("tparse", "client_1", ("tok", 0), "same"), ("tick", d),
                           ("proc", 0, None), ("proc", 0, None)]))
        # replay after a success; other classes offered as code
        cases.append(("replay", oidc, False,
                      [("authz", "babs", "client_2", ["openid", "offline_access"]), ("tparse", "client_2", ("tok", 0), "same"),
                       ("proc", 0, None), ("tparse", "client_2", ("tok", 0), "same"), ("proc", 1, None),
                       ("introspect", "client_2", ("tok", 1)), ("introspect", "client_2", ("tok", 2)),
                       ("tparse", "client_2", ("tok", 1), "same"), ("tparse", "client_2", ("tok", 2), "same"),
                       ("tparse", "client_2", ("garbage", 1), "same"), ("proc", 2, None)]))
    return cases


RULES5 = ["explicit", "implied", "per-client", "handler", "partial"]


def with_option(cases, on=True):
    """the same fixed histories on providers configured with session_params.remove_inactive_token"""
    out = []
    for j, entry in enumerate(cases):
        label, oidc, roi, ops = entry[:4]
        rules = entry[4] if len(entry) > 4 else RULES5[j % 5]
        kw = dict(entry[5]) if len(entry) > 5 else {}
        kw["remove_inactive"] = on
        out.append((label + ("+remove_inactive" if on else ""), oidc, roi, ops, rules, kw))
    return out


def lineage_cases(quick):
    """SECOND PRESENTATION OF A CODE OVER A LINEAGE.  First use of code 0 (access 1, refresh 2, ID Token 3), then d refresh
    generations (each refresh = the newest refresh token; with refresh rotation the used refresh token is revoked), then ONE
    event - nothing, or a revocation of the code / an access token / a refresh token in the middle of the chain / the ID
    Token, through the revocation endpoint or SessionManager.revoke_token (plain and recursive) - then the code again, then
    every token of the lineage at userinfo / introspection / the refresh grant / the revocation endpoint.  Both values of
    remove_inactive_token, OIDC (the flavour that invalidates on replay) and, for the look-ups, OAuth2."""
    scope = ["openid", "email", "offline_access"]
    cases = []
    k = 0
    for ri in (True, False):
        for roi in (False, True):
            for d in (0, 1, 2):
                # token ids: generation g (1-based) of a refresh mints access 3g+1, refresh 3g+2, ID Token 3g+3
                newest_refresh = 2 + 3 * d
                mid_refresh = 2 + 3 * max(0, d - 1)
                events = [("none", []),
                          ("code-revoked-at-endpoint", [("revoke_ep", "client_1", ("tok", 0), None)]),
                          ("access-revoked-at-endpoint", [("revoke_ep", "client_1", ("tok", 1), "access_token")]),
                          ("middle-refresh-revoked-at-endpoint", [("revoke_ep", "client_1", ("tok", mid_refresh), None)]),
                          ("middle-refresh-revoked-by-api", [("api_revoke", ("tok", mid_refresh), False)]),
                          ("idtoken-revoked-by-api-recursive", [("api_revoke", ("tok", 3), True)]),
                          ("code-revoked-then-api-recursive-elsewhere", [("revoke_ep", "client_1", ("tok", 0), None), ("api_revoke", ("tok", 3), True)]),
                          ("code-revoked-by-api", [("api_revoke", ("tok", 0), False), ("api_revoke", ("tok", 1), True)]),
                          ("access-revoked-by-api-recursive", [("api_revoke", ("tok", 1), True)])]
                if quick and not ri:
                    events = [e for e in events if e[0] in ("none", "code-revoked-then-api-recursive-elsewhere", "middle-refresh-revoked-at-endpoint")]
                    if d == 1:
                        continue
                for ename, ev in events:
                    ops = [("authz", "diana", "client_1", scope), ("tparse", "client_1", ("tok", 0), "same"), ("proc", 0, None)]
                    n = 1
                    for g in range(d):
                        ops += [("rparse", "client_1", ("tok", 2 + 3 * g), None), ("proc", n, None)]
                        n += 1
                    ops += ev
                    ops.append(("tparse", "client_1", ("tok", 0), "same"))      # the second presentation (the oracle probes every descendant)
                    ops.append(("proc", n, None))
                    n += 1
                    last = 3 + 3 * d
                    for i in range(1, last + 1):
                        ops.append(("introspect", "client_1", ("tok", i)))
                        if i % 3 == 1:
                            ops.append(("userinfo", ("tok", i)))
                    ops += [("rparse", "client_1", ("tok", newest_refresh), None), ("proc", n, None),
                            ("revoke_ep", "client_1", ("tok", 1), None), ("tparse", "client_1", ("tok", 0), "same")]
                    cases.append(("lineage-%s-rot%d-d%d-%s" % ("ri" if ri else "default", roi, d, ename), True, roi, ops,
                                  ["explicit", "implied", "partial"][k % 3], {"remove_inactive": ri}))      # (rules under which a refresh mints all three classes)
                    k += 1
    # the refresh token leaves the grant BETWEEN parse and process (both flavours): a recursive API revocation of its code
    for oidc in (True, False):
        for ri in (True, False):
            ops = [("authz", "babs", "client_2", scope), ("tparse", "client_2", ("tok", 0), "same"), ("proc", 0, None),
                   ("rparse", "client_2", ("tok", 2), ["openid"]), ("tparse", "client_2", ("tok", 0), "same"),
                   ("api_revoke", ("tok", 0), True), ("proc", 1, None), ("proc", 2, None), ("proc", 1, True),
                   ("introspect", "client_2", ("tok", 1)), ("introspect", "client_2", ("tok", 2)), ("revoke_ep", "client_2", ("tok", 2), None),
                   ("rparse", "client_2", ("tok", 2), None), ("api_revoke", ("tok", 2), False), ("api_revoke", ("tok", 1), True),
                   ("tparse", "client_2", ("tok", 0), "same"), ("introspect", "client_1", ("tok", 1))]
            cases.append(("gone-between-parse-and-process-%s-%s" % ("oidc" if oidc else "oauth2", "ri" if ri else "default"), oidc, False, ops,
                          "explicit", {"remove_inactive": ri}))
    return cases


def finding_witnesses():
    """Deterministic witnesses of the recorded finding replay-not-revoked:remove-inactive-token (every run): with the option
    on, (A) a code that was revoked and then dropped from its grant by another Grant.revoke_token call is answered "Wrong
    token type" without any cascade; (B) the same through endpoints only (two codes in one grant); (C) refresh rotation:
    the cascade of the replayed code stops at the rotated (already revoked) refresh token."""
    sc = ["openid", "email", "offline_access"]
    cb = sess.registered_redirects("client_1")[0]
    a = [("authz", "diana", "client_1", sc), ("tparse", "client_1", ("tok", 0), "same"), ("proc", 0, None),
         ("revoke_ep", "client_1", ("tok", 0), None), ("api_revoke", ("tok", 3), True),
         ("tparse", "client_1", ("tok", 0), "same"), ("userinfo", ("tok", 1)), ("introspect", "client_1", ("tok", 2)),
         ("rparse", "client_1", ("tok", 2), None), ("proc", 2, None)]
    b = [("authzc", 0, "diana", "client_1", sc, cb, True), ("authzc", 0, "diana", "client_1", sc, cb, False),
         ("tparse", "client_1", ("tok", 0), "same"), ("proc", 0, None), ("revoke_ep", "client_1", ("tok", 0), None),
         ("tparse", "client_1", ("tok", 1), "same"), ("proc", 1, None), ("tparse", "client_1", ("tok", 1), "same"),
         ("tparse", "client_1", ("tok", 0), "same"), ("userinfo", ("tok", 2)), ("introspect", "client_1", ("tok", 3))]
    c = [("authz", "babs", "client_1", sc + ["profile"]), ("tparse", "client_1", ("tok", 0), "same"), ("proc", 0, None),
         ("rparse", "client_1", ("tok", 2), None), ("proc", 1, None), ("rparse", "client_1", ("tok", 5), None), ("proc", 2, None),
         ("rparse", "client_1", ("tok", 7), ["openid"]), ("proc", 3, None),
         ("tparse", "client_1", ("tok", 0), "same"), ("userinfo", ("tok", 6)), ("userinfo", ("tok", 8)), ("userinfo", ("tok", 4))]
    return [("finding-witness-A-code-revoked-and-dropped", True, False, a, "explicit", {"remove_inactive": True}),
            ("finding-witness-B-endpoints-only", True, False, b, "explicit", {"remove_inactive": True}),
            ("finding-witness-C-refresh-rotation", True, True, c, "handler", {"remove_inactive": True})]


def run(ctx):
    def factory():
        return [Oracle(ctx)]
    n = 40 if ctx.quick else 1500
    # the browser-session histories keep the scope fixed except for a few (C05 varies it); shapes: every third random history
    # opens with a pending code and cookie-carrying authorization requests
    # remove_inactive_token ON: the schedules / expiry / replay cases once more (the generator draws from its own stream, so
    # the default-configuration part of a run is what it was), the lineage family, the finding's witnesses, and a further
    # batch of random histories (the last n_ri of the run)
    import random
    base = structured_cases(ctx.quick, ctx.rng)
    again = structured_cases(ctx.quick, random.Random(ctx.seed * 7919 + 17))
    if ctx.quick:      # every 2-redemption schedule, a third of the sampled 3-redemption ones, every expiry / replay case
        again = [c for i, c in enumerate(again) if "-n3-" not in c[0] or i % 3 == 0]
    n_ri = 30 if ctx.quick else 1000
    common.run_histories(ctx, n + n_ri, (15, 60), factory,
                         structured=base + common.cookie_structured(scope_variants=False) + with_option(again) + lineage_cases(ctx.quick) + finding_witnesses(),
                         cookie=True, focus_of=lambda i: "cookie" if i % 3 == 1 else "mixed",
                         remove_inactive_of=lambda i: i >= n)


def replay(ctx, rp):
    run(ctx)
