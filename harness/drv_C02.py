"""C02 driver — authorization codes: single use, client-bound, redirect-bound, expiring; every
interleaving of parse/process of concurrent redemptions; OIDC replay invalidates derived tokens."""
import itertools

import sess
import drv_session_common as common

RULE = ("histories on real OIDC and OAuth2 providers (authorization, token, userinfo, introspection, revocation endpoints + "
        "revocation API, controlled clock): (a) every interleaving of the parse/process steps of 2 and 3 concurrent redemptions "
        "of one code (exhaustive), with same-client, cross-client and altered/missing redirect_uri variants, both flavours; "
        "(b) random histories (length 15-60, 3 users x 3 clients, 45% honest next steps, replays, cross-client, expiry ticks); "
        "(c) every client has TWO registered redirect_uris and browsers come back: fixed and random histories in which a code is "
        "still pending while a further authorization request arrives WITH the provider's session cookie of an earlier "
        "authorization (identical request / other registered redirect_uri / narrower, wider, reordered scope / other client or "
        "user / new or old state+nonce / cookie of a revoked, removed, expired session), after which every code is presented with "
        "each registered redirect_uri; the oracle holds every exchange against the redirect_uri the harness SENT in the "
        "authorization request that produced that very code. "
        "A history is non-trivial when at least one code exchange succeeds; distinct by content.")
ASSUMPTIONS = ["a provider whose usage rules are configured per client only sees no cookie-carrying authorization requests in the "
               "model-compared histories (the grant it makes for such a request gets no usage rules at all; the model's lifetimes are per provider)",
               "token values are abstracted to minting-order identifiers (byte-level token formats are property C04)",
               "client authentication at the token endpoint succeeds for the authenticating client (property C01)",
               "ID Token signing succeeds (keys configured)"]


class Oracle:
    """Decides the property text on the observed behaviour of the real provider."""

    def __init__(self, ctx):
        self.ctx = ctx
        self.parsed = []          # index -> (kind, client, ref, redirect) for every parse that stored a request
        self.success = {}         # code id -> list of proc records
        self.code_exp = {}
        self.hist = []

    def __call__(self, rs, op, out, rec):
        self.hist.append([list(op), out])
        k = op[0]
        if k in ("tparse", "rparse"):
            if len(rs.parsed) > len(self.parsed):
                red = op[3] if len(op) > 3 else "same"
                self.parsed.append((k, op[1], op[2], red, rs.clock.now,
                                    rs.redirect_for(op[1], op[2], red) if k == "tparse" else None))
            if k == "tparse" and rs.oidc and op[2][0] == "tok":
                t = rs.tokobj[op[2][1]]
                if t.token_class == "authorization_code" and out[0] == "err" and self.success.get(op[2][1]):
                    # second presentation of an already exchanged code at the OIDC endpoint:
                    # the tokens minted from the first exchange must be dead everywhere
                    first = self.success[op[2][1]][0]
                    for key, tid in first.items():
                        self.probe_dead(rs, tid, "after OIDC replay of code %d" % op[2][1])
        if k == "proc" and out[0] == "ok" and op[1] < len(self.parsed):
            kind, client, ref, red, t_parse, sent_uri = self.parsed[op[1]]
            if kind != "tparse":
                return
            if ref[0] != "tok":
                self.ctx.violation("tokens-for-garbage", "tokens issued for a string that is no code: %r" % (ref,), self.hist)
                return
            cid = ref[1]
            code = rs.tokobj[cid]
            owner = rs.grants[rs.tok_grant[cid]][3]
            self.success.setdefault(cid, []).append(dict(out[1]))
            if len(self.success[cid]) > 1:
                self.ctx.violation("code-reuse", "code %d exchanged for tokens %d times" % (cid, len(self.success[cid])), self.hist)
            if code.token_class != "authorization_code":
                self.ctx.violation("not-a-code", "tokens issued for a %s presented as code" % code.token_class, self.hist)
            if client != owner:
                self.ctx.violation("cross-client", "code of %s exchanged by %s" % (owner, client), self.hist)
            if red != "same":
                self.ctx.violation("redirect-mismatch", "code exchanged with redirect_uri variant %r" % red, self.hist)
            # the redirect_uri of the token request is the one that went out in the authorization request that produced THIS
            # code (what the harness sent then - not what the provider has on record now)
            issued_for = rs.code_req.get(cid, {}).get("redirect_uri")
            if issued_for is not None and sent_uri != issued_for:
                self.ctx.violation("redirect-mismatch", "code %d, issued on an authorization request with redirect_uri %s, was exchanged with redirect_uri %r"
                                   % (cid, issued_for, sent_uri), self.hist)
            self.ctx.count("exchange-with:" + ("the-code's-own-redirect_uri" if sent_uri == issued_for else "another-redirect_uri"))
            if code.expires_at and rs.clock.now > code.expires_at:
                self.ctx.violation("expired-code", "code exchanged %d s after its expiry" % (rs.clock.now - code.expires_at), self.hist)

    def probe_dead(self, rs, tid, why):
        """out-of-band probes on the real endpoints (read-only)"""
        t = rs.tokobj[tid]
        if t.token_class == "access_token" and rs.oidc:
            r = rs.run(("userinfo", ("tok", tid)))
            if r[0] == "ok":
                self.ctx.violation("replay-not-revoked", "access token %d still honoured by userinfo %s" % (tid, why), self.hist)
        if t.token_class in ("access_token", "refresh_token"):
            owner = rs.grants[rs.tok_grant[tid]][3]
            r = rs.run(("introspect", owner, ("tok", tid)))
            if r[0] == "active":
                self.ctx.violation("replay-not-revoked", "%s %d still active at introspection %s" % (t.token_class, tid, why), self.hist)


def interleavings(n):
    """all orders of parse_i < proc_i for i < n"""
    items = [("parse", i) for i in range(n)] + [("proc", i) for i in range(n)]
    res = []
    for perm in itertools.permutations(items):
        pos = {x: i for i, x in enumerate(perm)}
        if all(pos[("parse", i)] < pos[("proc", i)] for i in range(n)):
            res.append(perm)
    return res


def structured_cases(quick, rng):
    cases = []
    scope = ["openid", "email", "offline_access"]
    for oidc in (True, False):
        for n in (2, 3):
            orders = interleavings(n)
            if quick and n == 3:
                orders = rng.sample(orders, 12)
            for oi, order in enumerate(orders):
                variants = [("same-client", ["client_1"] * n, ["same"] * n)]
                if oi % 4 == 0:
                    variants.append(("cross-client", ["client_1", "client_2", "client_1"][:n], ["same"] * n))
                    variants.append(("redirect", ["client_1"] * n, ["other", "same", "absent"][:n]))
                for vname, clients, reds in variants:
                    ops = [("authz", "diana", "client_1", scope)]
                    pidx = {}
                    for kind, i in order:
                        if kind == "parse":
                            pidx[i] = len([o for o in ops if o[0] in ("tparse", "rparse")])
                            ops.append(("tparse", clients[i], ("tok", 0), reds[i]))
                        else:
                            ops.append(("proc", pidx[i], None))
                    ops.append(("introspect", "client_1", ("tok", 1)))
                    cases.append(("sched-%s-n%d-%d-%s" % ("oidc" if oidc else "oauth2", n, oi, vname), oidc, False, ops))
        # expiry boundary: the code lives 300 s
        for d in (299, 300, 301):
            cases.append(("expiry-%d" % d, oidc, False,
                          [("authz", "diana", "client_1", scope), ("tick", d), ("tparse", "client_1", ("tok", 0), "same"),
                           ("proc", 0, None)]))
            cases.append(("expiry-between-%d" % d, oidc, False,
                          [("authz", "diana", "client_1", scope), ("tparse", "client_1", ("tok", 0), "same"), ("tick", d),
                           ("proc", 0, None), ("proc", 0, None)]))
        # replay after a success; other classes offered as code
        cases.append(("replay", oidc, False,
                      [("authz", "babs", "client_2", ["openid", "offline_access"]), ("tparse", "client_2", ("tok", 0), "same"),
                       ("proc", 0, None), ("tparse", "client_2", ("tok", 0), "same"), ("proc", 1, None),
                       ("introspect", "client_2", ("tok", 1)), ("introspect", "client_2", ("tok", 2)),
                       ("tparse", "client_2", ("tok", 1), "same"), ("tparse", "client_2", ("tok", 2), "same"),
                       ("tparse", "client_2", ("garbage", 1), "same"), ("proc", 2, None)]))
    return cases


def run(ctx):
    def factory():
        return [Oracle(ctx)]
    n = 40 if ctx.quick else 1500
    # the browser-session histories keep the scope fixed except for a few (C05 varies it); shapes: every third random history
    # opens with a pending code and cookie-carrying authorization requests
    common.run_histories(ctx, n, (15, 60), factory, structured=structured_cases(ctx.quick, ctx.rng) + common.cookie_structured(scope_variants=False),
                         cookie=True, focus_of=lambda i: "cookie" if i % 3 == 1 else "mixed")


def replay(ctx, rp):
    run(ctx)
