"""C03 driver — expiry and revocation are final, cascade to every endpoint, and are isolated."""
import sess
import drv_session_common as common

RULE = ("random histories (length 20-70) over 3 users x 3 clients on real OIDC and OAuth2 providers with the full operation "
        "alphabet (authorize, code/refresh parse+process, userinfo, introspection, revocation endpoint, recursive and plain "
        "token revocation API, grant and client-session revocation, remove-session, revocation of the whole user session, "
        "clock ticks across every lifetime boundary), two fifths of them shaped: one user with two or three redeemed grants at "
        "one client and grants at a second client plus a bystander, then removals / user-session / client-session revocations "
        "followed by userinfo, introspection, refresh and revocation-endpoint requests with the surviving and the dead tokens; "
        "plus structured cascade/isolation scenarios and logout-one / logout-all through the end-session endpoint's verified "
        "logout; after every operation the oracle probes (out of band, read-only) every token its reference "
        "liveness says is dead at userinfo, introspection and the token endpoint's parse step, and compares the status of all "
        "tokens outside a revoked / removed subtree before/after (object state and what userinfo / introspection answer). "
        "A history is non-trivial when a token exchange succeeded.")
ASSUMPTIONS = ["token values abstracted to identifiers (C04)", "client authentication succeeds for the authenticating client (C01)",
               "revocation of the parent token is 'recursive' only through Grant.revoke_token(recursive=True) / the OIDC replay path; "
               "the revocation endpoint's default policy revokes exactly the presented token"]


class Liveness:
    """Reference liveness computed from the history alone (what was announced at issuance + the revocations seen)."""

    def __init__(self, ctx):
        self.ctx = ctx
        self.dead = {}            # token id -> reason
        self.hist = []
        self.parsed = []
        self.probed = {}
        self.dead_before = {}

    # --- reference bookkeeping
    def kill(self, tid, why):
        self.dead.setdefault(tid, why)

    def descendants(self, rs, tid):
        out, todo = set(), [tid]
        while todo:
            v = todo.pop()
            for i, t in enumerate(rs.tokobj):
                if i not in out and rs.tok_grant[i] == rs.tok_grant[v] and t.based_on == rs.tokens[v]:
                    out.add(i)
                    todo.append(i)
        return out

    def status(self, rs, tid):
        t = rs.tokobj[tid]
        owner = rs.grants[rs.tok_grant[tid]][3]
        if t.token_class in ("access_token", "refresh_token"):
            return rs.run(("introspect", owner, ("tok", tid)))[0]
        return None

    def __call__(self, rs, op, out, rec):
        self.hist.append([list(op), out])
        k = op[0]
        now = rs.clock.now
        if k in ("tparse", "rparse") and len(rs.parsed) > len(self.parsed):
            self.parsed.append((k, op[1], op[2]))
        # ---- before judging this op: was a dead token honoured by it?
        if k == "userinfo" and out[0] == "ok" and op[1][0] == "tok" and op[1][1] in self.dead:
            self.ctx.violation("dead-honoured-userinfo", "userinfo honoured token %d dead since: %s" % (op[1][1], self.dead[op[1][1]]), self.hist)
        if k == "introspect" and out[0] == "active" and op[2][0] == "tok" and op[2][1] in self.dead:
            self.ctx.violation("dead-active-introspection", "introspection reports token %d active, dead since: %s" % (op[2][1], self.dead[op[2][1]]), self.hist)
        if k == "proc" and out[0] == "ok" and op[1] < len(self.parsed):
            kind, client, ref = self.parsed[op[1]]
            if ref[0] == "tok" and ref[1] in self.dead_before:
                self.ctx.violation("dead-minted", "%s with token %d minted tokens although dead since: %s"
                                   % (kind, ref[1], self.dead_before[ref[1]]), self.hist)
        # ---- update the reference
        if k == "proc" and out[0] == "ok" and op[1] < len(self.parsed):
            kind, client, ref = self.parsed[op[1]]
            if kind == "tparse" and ref[0] == "tok":
                self.kill(ref[1], "code exchanged (max_usage 1)")
            if kind == "rparse" and ref[0] == "tok" and rs.ctx.cdb[client].get("revoke_refresh_on_issue", rs.ep["token"].revoke_refresh_on_issue):
                self.kill(ref[1], "refresh token rotated (revoke_refresh_on_issue)")
        if k == "revoke_ep" and out[0] == "ok" and op[2][0] == "tok":
            t = rs.tokobj[op[2][1]]
            if rs.grants[rs.tok_grant[op[2][1]]][3] == op[1] and t.token_class != "id_token":
                self.kill(op[2][1], "revoked at the revocation endpoint")
        if k == "api_revoke" and out[0] == "ok":
            self.kill(op[1][1], "revoked through the API")
            if op[2]:
                for d in self.descendants(rs, op[1][1]):
                    self.kill(d, "parent token %d revoked recursively" % op[1][1])
        if k == "revoke_grant" and out[0] == "ok":
            for i in range(len(rs.tokens)):
                if rs.tok_grant[i] == op[1]:
                    self.kill(i, "grant %d revoked" % op[1])
        if k == "revoke_client" and out[0] == "ok":
            _, _, u, c = rs.grants[op[1]]
            for i in range(len(rs.tokens)):
                g = rs.grants[rs.tok_grant[i]]
                if g[2] == u and g[3] == c:
                    self.kill(i, "client session (%s,%s) revoked" % (u, c))
        if k == "remove_grant" and out[0] == "ok":
            for i in range(len(rs.tokens)):
                if rs.tok_grant[i] == op[1]:
                    self.kill(i, "session of grant %d removed" % op[1])
        if k == "revoke_user" and out[0] == "ok":
            u = rs.grants[op[1]][2]
            for i in range(len(rs.tokens)):
                if rs.grants[rs.tok_grant[i]][2] == u:
                    self.kill(i, "user session of %s revoked" % u)
        if k == "tparse" and rs.oidc and op[2][0] == "tok" and out[0] == "err":
            t = rs.tokobj[op[2][1]]
            if t.token_class == "authorization_code" and op[2][1] in self.dead and "exchanged" in self.dead[op[2][1]]:
                for d in self.descendants(rs, op[2][1]):
                    self.kill(d, "code %d presented again at the OIDC token endpoint" % op[2][1])
        for i, t in enumerate(rs.tokobj):
            if t.expires_at and now > t.expires_at:
                self.kill(i, "expired at %d" % t.expires_at)
        self.dead_before = dict(self.dead)
        # ---- out-of-band probes of dead tokens (each at most 3 times, plus at the end)
        for tid, why in list(self.dead.items()):
            if self.probed.get(tid, 0) < 3:
                self.probed[tid] = self.probed.get(tid, 0) + 1
                self.probe(rs, tid, why)

    def probe(self, rs, tid, why):
        t = rs.tokobj[tid]
        owner = rs.grants[rs.tok_grant[tid]][3]
        if t.token_class == "access_token" and rs.oidc:
            if rs.run(("userinfo", ("tok", tid)))[0] == "ok":
                self.ctx.violation("dead-honoured-userinfo", "userinfo honours token %d (%s)" % (tid, why), self.hist)
        if t.token_class in ("access_token", "refresh_token"):
            if rs.run(("introspect", owner, ("tok", tid)))[0] == "active":
                self.ctx.violation("dead-active-introspection", "introspection reports %s %d active (%s)" % (t.token_class, tid, why), self.hist)
        self.ctx.count("probe:" + t.token_class)

    def finish(self, rs, rec):
        for tid, why in self.dead.items():
            self.probe(rs, tid, why)


class Isolation:
    """Status of every token outside the revoked / removed subtree is the same before and after a revocation or removal:
    the state of the token object, and what the endpoints answer for it (asked out of band, read-only, right before and
    right after the operation)."""

    REVOKING = ("revoke_ep", "api_revoke", "revoke_grant", "revoke_client", "remove_grant", "revoke_user")

    def __init__(self, ctx, live):
        self.ctx, self.live = ctx, live
        self.before_snap = None
        self.answers = None

    def snapshot(self, rs):
        snap = {}
        for i, t in enumerate(rs.tokobj):
            snap[i] = (bool(t.revoked), t.used, t.expires_at, tuple(t.scope))
        return snap

    def answer(self, rs, i):
        """what userinfo / introspection (asked by the owner) say about token i"""
        t = rs.tokobj[i]
        owner = rs.grants[rs.tok_grant[i]][3]
        if t.token_class not in ("access_token", "refresh_token"):
            return None
        o = rs.run(("introspect", owner, ("tok", i)))
        a = [o[0] if o[0] != "exc" else "exc:" + str(o[1])]
        if t.token_class == "access_token" and rs.oidc:
            o = rs.run(("userinfo", ("tok", i)))
            a.append(o[0] if o[0] != "exc" else "exc:" + str(o[1]))
        return tuple(a)

    def before(self, rs, op):
        self.answers = None
        if op[0] in self.REVOKING:
            self.answers = {i: self.answer(rs, i) for i in range(len(rs.tokobj))}
            self.ctx.count("isolation-answers-compared", len(self.answers))

    def __call__(self, rs, op, out, rec):
        k = op[0]
        cur = self.snapshot(rs)
        if self.before_snap is not None and k in self.REVOKING and out[0] != "skip":
            if out[0] != "ok":
                affected = set()        # the operation was refused or raised: nothing at all may have changed
            elif k in ("revoke_grant", "remove_grant"):
                affected = {i for i in cur if rs.tok_grant[i] == op[1]}
            elif k == "revoke_client":
                _, _, u, c = rs.grants[op[1]]
                affected = {i for i in cur if rs.grants[rs.tok_grant[i]][2] == u and rs.grants[rs.tok_grant[i]][3] == c}
            elif k == "revoke_user":
                u = rs.grants[op[1]][2]
                affected = {i for i in cur if rs.grants[rs.tok_grant[i]][2] == u}
            else:
                ref = op[1] if k == "api_revoke" else op[2]
                affected = {i for i in cur if ref[0] == "tok" and rs.tok_grant[i] == rs.tok_grant[ref[1]]} if ref[0] == "tok" else set()
            for i, v in self.before_snap.items():
                if i not in affected and cur.get(i) != v:
                    self.ctx.violation("isolation", "%r changed token %d of another grant: %r -> %r" % (op, i, v, cur.get(i)), self.live.hist)
            if self.answers is not None:
                for i, a in self.answers.items():
                    if i in affected or a is None:
                        continue
                    b = self.answer(rs, i)
                    if a != b:
                        g = rs.grants[rs.tok_grant[i]]
                        self.ctx.violation("isolation", "%r changed what the endpoints answer for %s %d of grant %d (%s at %s), which it "
                                           "does not concern: %r -> %r" % (op, rs.tokobj[i].token_class, i, rs.tok_grant[i], g[2], g[3], a, b),
                                           self.live.hist)
        self.before_snap = cur


def structured():
    sc = ["openid", "email", "offline_access"]
    cases = []
    for oidc in (True, False):
        base = [("authz", "diana", "client_1", sc), ("tparse", "client_1", ("tok", 0), "same"), ("proc", 0, None),
                ("authz", "babs", "client_2", sc), ("tparse", "client_2", ("tok", 4 if oidc else 3), "same"), ("proc", 1, None),
                ("authz", "diana", "client_1", sc)]
        a2 = 5 if oidc else 4
        probes = [("introspect", "client_1", ("tok", 1)), ("introspect", "client_1", ("tok", 2)),
                  ("introspect", "client_2", ("tok", a2)), ("rparse", "client_1", ("tok", 2), None), ("proc", 2, None)]
        for name, rev in [("grant", [("revoke_grant", 0)]), ("client", [("revoke_client", 0)]),
                          ("api-rec", [("api_revoke", ("tok", 2), True)]), ("api-plain", [("api_revoke", ("tok", 2), False)]),
                          ("ep", [("revoke_ep", "client_1", ("tok", 1))]), ("ep-other-client", [("revoke_ep", "client_2", ("tok", 1))]),
                          ("refresh-then-rec", [("rparse", "client_1", ("tok", 2), None), ("proc", 2, None), ("api_revoke", ("tok", 2), True)]),
                          ("expire-access", [("tick", 601)]), ("expire-refresh", [("tick", 3601)]), ("expire-grant", [("tick", 43201)])]:
            cases.append(("cascade-%s-%s" % ("oidc" if oidc else "oauth2", name), oidc, False, base + rev + probes + probes))
    # revocation of a branch that is revoked already, and of a branch re-used by a later login of the same user
    # at the same client (the user / client nodes of a revoked session stay in the database and are re-used)
    for oidc in (True, False):
        a1 = 1
        relogin = [("authz", "diana", "client_1", sc), ("tparse", "client_1", ("tok", 0), "same"), ("proc", 0, None),
                   ("revoke_client", 0),
                   ("authz", "diana", "client_1", sc)]
        c2 = 4 if oidc else 3
        relogin += [("tparse", "client_1", ("tok", c2), "same"), ("proc", 1, None),
                    ("introspect", "client_1", ("tok", c2 + 1)), ("introspect", "client_1", ("tok", c2 + 2)),
                    ("revoke_client", 1),
                    ("introspect", "client_1", ("tok", c2 + 1)), ("introspect", "client_1", ("tok", c2 + 2)),
                    ("rparse", "client_1", ("tok", c2 + 2), None), ("proc", 2, None),
                    ("authz", "diana", "client_1", sc), ("revoke_grant", 2), ("revoke_grant", 2), ("revoke_client", 0), ("revoke_client", 2)]
        cases.append(("relogin-after-logout-%s" % ("oidc" if oidc else "oauth2"), oidc, False, relogin))
        twice = [("authz", "babs", "client_2", sc), ("authz", "babs", "client_2", sc), ("tparse", "client_2", ("tok", 1), "same"),
                 ("proc", 0, None), ("revoke_grant", 0), ("revoke_client", 0), ("introspect", "client_2", ("tok", 2)),
                 ("revoke_client", 1), ("introspect", "client_2", ("tok", 2))]
        cases.append(("revoke-twice-%s" % ("oidc" if oidc else "oauth2"), oidc, False, twice))
    cases += structured_removal()
    return cases


class Hist:
    """Builder of a structured history: every login is redeemed at once (with offline_access a redeemed grant holds
    code, access token, refresh token and - OIDC - ID token, in that order), so token and request indices are known."""
    SC = ["openid", "email", "offline_access"]

    def __init__(self, oidc):
        self.oidc, self.k = oidc, (4 if oidc else 3)
        self.ops, self.client, self.gone, self.np = [], [], set(), 0

    def login(self, u, c):
        gi = len(self.client)
        self.client.append(c)
        self.ops.append(("authz", u, c, self.SC))
        self.ops.append(("tparse", c, ("tok", gi * self.k), "same"))
        self.np += 1
        self.ops.append(("proc", self.np - 1, None))
        return gi

    def acc(self, gi):
        return ("tok", gi * self.k + 1)

    def ref(self, gi):
        return ("tok", gi * self.k + 2)

    def remove(self, gi):
        self.ops.append(("remove_grant", gi))
        self.gone.add(gi)

    def look(self, *gis):
        """read-only presentations of the tokens of the given grants"""
        for gi in gis:
            c = self.client[gi]
            if self.oidc:
                self.ops.append(("userinfo", self.acc(gi)))
            self.ops += [("introspect", c, self.acc(gi)), ("introspect", c, self.ref(gi))]

    def refresh(self, *gis):
        """the refresh grant with the refresh token of each grant (a removed session: the parse step raises, nothing is queued)"""
        for gi in gis:
            self.ops.append(("rparse", self.client[gi], self.ref(gi), None))
            if gi not in self.gone:
                self.np += 1
                self.ops.append(("proc", self.np - 1, None))

    def revoke_at_ep(self, *gis):
        for gi in gis:
            self.ops.append(("revoke_ep", self.client[gi], self.acc(gi)))
            self.ops.append(("introspect", self.client[gi], self.acc(gi)))


def structured_removal():
    """remove-session and user-session revocation: a user with several grants at one client and grants at two clients, a
    bystander; what survives and what does not is then presented everywhere."""
    cases = []
    for oidc in (True, False):
        fl = "oidc" if oidc else "oauth2"
        # A: two grants at client_1, one at client_2, a bystander; one session removed, then the user session revoked
        for via in (1, 2, 0):
            for first in (0, 1):
                h = Hist(oidc)
                g0, g1 = h.login("diana", "client_1"), h.login("diana", "client_1")
                g2, b = h.login("diana", "client_2"), h.login("babs", "client_1")
                h.remove(first)
                h.look(g0, g1, g2, b)
                h.ops.append(("revoke_user", via))
                h.look(g0, g1, g2, b)
                h.refresh(g0, g1, g2, b)
                h.revoke_at_ep(g1, b)
                cases.append(("remove-%d-then-logout-everywhere-via-%d-%s" % (first, via, fl), oidc, False, h.ops))
        # B: the user has one client only; removing one session leaves the sibling grant as it was
        for first in (0, 1):
            h = Hist(oidc)
            g0, g1, b = h.login("diana", "client_2"), h.login("diana", "client_2"), h.login("babs", "client_2")
            h.refresh(g0)                      # a request parsed before the removal, processed after it
            h.ops.pop()
            pending = h.np - 1
            h.remove(first)
            h.ops.append(("proc", pending, None))
            h.look(g0, g1, b)
            h.refresh(1 - first, b)
            h.revoke_at_ep(1 - first)
            h.ops += [("revoke_grant", first), ("api_revoke", h.acc(first), True), ("api_revoke", h.ref(first), False),
                      ("revoke_ep", "client_2", h.ref(first)), ("remove_grant", first), ("revoke_client", first)]
            h.look(g0, g1, b)
            cases.append(("remove-%d-sibling-untouched-%s" % (first, fl), oidc, False, h.ops))
        # C: the last grant of a client session is removed (the client node goes with it), then the user logs out everywhere
        h = Hist(oidc)
        g0, g1, g2, b = h.login("diana", "client_1"), h.login("diana", "client_1"), h.login("diana", "client_12"), h.login("dian", "client_12")
        h.remove(g2)
        h.ops += [("revoke_client", g2), ("revoke_grant", g2)]
        h.look(g0, g1, g2, b)
        h.ops.append(("revoke_user", g2))
        h.look(g0, g1, b)
        h.refresh(g0, g1, g2, b)
        cases.append(("remove-last-of-client-then-logout-everywhere-%s" % fl, oidc, False, h.ops))
        # D: every session of the user is removed (the user node goes too); a later login starts a new user session
        h = Hist(oidc)
        g0, g1, b = h.login("diana", "client_1"), h.login("diana", "client_2"), h.login("babs", "client_1")
        h.remove(g0)
        h.remove(g1)
        h.ops += [("revoke_user", g0), ("revoke_client", g1)]
        h.look(g0, g1, b)
        g3 = h.login("diana", "client_1")
        h.look(g3, b)
        h.ops.append(("revoke_user", g0))
        h.look(g0, g3, b)
        h.refresh(g3, b)
        cases.append(("remove-all-relogin-logout-everywhere-%s" % fl, oidc, False, h.ops))
        # E: three grants at one client; the middle one removed; the client session revoked through the removed session's id
        h = Hist(oidc)
        g0, g1, g2, g3 = h.login("babs", "client_1"), h.login("babs", "client_1"), h.login("babs", "client_1"), h.login("babs", "client_2")
        h.remove(g1)
        h.look(g0, g1, g2, g3)
        h.ops.append(("revoke_client", g1))
        h.look(g0, g2, g3)
        h.refresh(g0, g2, g3)
        h.ops.append(("revoke_user", g3))
        h.look(g3)
        cases.append(("remove-middle-then-logout-one-client-%s" % fl, oidc, False, h.ops))
        # F: a session removed between the authorization and the redemption of its code, and between parse and process
        sc = Hist.SC
        ops = [("authz", "diana", "client_1", sc), ("authz", "diana", "client_1", sc), ("tparse", "client_1", ("tok", 1), "same"),
               ("authz", "diana", "client_1", sc), ("tparse", "client_1", ("tok", 2), "same"), ("proc", 1, None),
               ("remove_grant", 0), ("remove_grant", 1),
               ("tparse", "client_1", ("tok", 0), "same"), ("proc", 0, None), ("tparse", "client_1", ("tok", 1), "same"),
               ("introspect", "client_1", ("tok", 3)), ("introspect", "client_1", ("tok", 4)),
               ("rparse", "client_1", ("tok", 4), None), ("proc", 2, None)]
        cases.append(("remove-before-redemption-%s" % fl, oidc, False, ops))
    return cases


def exchange_expiry(ctx):
    """Token exchange leaves the SUBJECT token's lifetime alone: past the expires_in it was issued with, the subject
    token is refused everywhere, however often it was exchanged in the meantime (oracle on the real endpoints; token
    exchange is not an operation of Model/Session.v)."""
    import drv_C05
    for oidc in (False, True):
        for other_client in (False, True):
            old = sess.FIXED_AUTHZ
            sess.FIXED_AUTHZ = drv_C05.EXCH_AUTHZ
            try:
                rs = sess.RealSession(oidc=oidc, jwt_access=False)
            finally:
                sess.FIXED_AUTHZ = old
            try:
                c = "client_2"
                o = rs.run(("authz", "diana", c, ["openid", "email", "offline_access"]))
                if o[0] != "ok":
                    continue
                rs.run(("tparse", c, ("tok", o[1][0]), "same"))
                p = rs.run(("proc", len(rs.parsed) - 1, None))
                if p[0] != "ok":
                    continue
                at = p[1]["access_token"]
                issued = rs.clock.now
                life = 600          # expires_in of access tokens in the harness configuration
                rec = {"flow": "exchange-expiry", "oidc": oidc, "exchanged_by_other_client": other_client, "steps": []}
                holder = "client_1" if other_client else c
                for dt in (200, 300):       # exchanged twice while alive: at t=200 and t=500
                    rs.run(("tick", dt))
                    body = {"grant_type": drv_C05.TE, "subject_token": rs.tokens[at], "subject_token_type": drv_C05.TT + "access_token"}
                    if other_client:
                        body["audience"] = holder
                    resp, err = drv_C05.token_call(rs, holder, body)
                    rs.find_new_grants()
                    rs.harvest()
                    rec["steps"].append(["exchange@%d" % (rs.clock.now - issued), bool(resp)])
                    ctx.count("exchange-expiry:exchange:" + ("ok" if resp else "refused"))
                for dt in (101, 99, 300):   # t=601, 700, 1000: past the subject token's own lifetime
                    rs.run(("tick", dt))
                    age = rs.clock.now - issued
                    it = rs.run(("introspect", c, ("tok", at)))
                    rec["steps"].append(["introspect@%d" % age, it[0]])
                    if it[0] == "active":
                        ctx.violation("dead-token-active", "introspection reports an access token active %d s after it was issued with a lifetime of %d s (it had been exchanged)" % (age, life), rec)
                    if oidc:
                        ui = rs.run(("userinfo", ("tok", at)))
                        rec["steps"].append(["userinfo@%d" % age, ui[0]])
                        if ui[0] == "ok":
                            ctx.violation("dead-token-honoured", "userinfo honours an access token %d s after it was issued with a lifetime of %d s (it had been exchanged)" % (age, life), rec)
                    body = {"grant_type": drv_C05.TE, "subject_token": rs.tokens[at], "subject_token_type": drv_C05.TT + "access_token"}
                    resp, err = drv_C05.token_call(rs, c, body)
                    if resp:
                        ctx.violation("dead-token-minted", "an expired access token is accepted as exchange subject %d s after issuance" % age, rec)
                ctx.case_seen(rec, True)
            finally:
                rs.close()


def verified_logout(ctx):
    """Logout through the end-session endpoint's verified-logout step (Session.do_verified_logout: from one client, or
    from all clients) on providers whose clients registered a logout URI, after random prefixes of logins (one user with
    one to three redeemed grants per client at two clients, a bystander) and, in most runs, remove-session on one or two
    of the user's grants first.  Oracle from the property text: afterwards every token of every session the logout
    covers - and every token of a removed session - is refused by userinfo, reported inactive (or not at all) by
    introspection and mints nothing at the refresh grant; everything else answers exactly as before.  (The end-session
    endpoint is not an operation of Model/Session.v; the user-level revocation it amounts to is: RevokeUser.)"""
    rng = ctx.rng
    n = 24 if ctx.quick else 400
    for i in range(n):
        alla = (i % 3 != 2)
        over = {c: {("frontchannel_logout_uri" if (i + j) % 2 else "backchannel_logout_uri"): "https://%s.example.com/logout" % c}
                for j, c in enumerate(sess.CLIENTS)}
        rs = sess.RealSession(oidc=True, client_over=over, rules=["explicit", "implied", "per-client", "handler", "partial"][i % 5])
        try:
            rs.server.context.httpc = lambda *a, **kw: type("R", (), {"status_code": 200, "text": ""})()
            u = rng.choice(sess.USERS)
            other = rng.choice([x for x in sess.USERS if x != u])
            a, b = rng.sample(sess.CLIENTS, 2)
            logins = [(u, a)] * rng.choice([1, 2, 2, 3]) + [(u, b)] * rng.choice([1, 1, 2]) + [(other, rng.choice([a, b]))]
            rng.shuffle(logins)
            rec = {"flow": "verified-logout", "all_clients": alla, "steps": []}
            sc = ["openid", "email", "offline_access"]
            ok = True
            for (uu, cc) in logins:
                o = rs.run(("authz", uu, cc, sc))
                rs.run(("tparse", cc, ("tok", o[1][0]), "same")) if o[0] == "ok" and o[1] else None
                p = rs.run(("proc", len(rs.parsed) - 1, None))
                rec["steps"].append(["login+redeem", uu, cc, p[0]])
                ok = ok and p[0] == "ok"
            if not ok:
                ctx.count("verified-logout:prefix-failed")
                continue
            # time passes between the logins and the logout: nothing, or long enough for the ID Tokens (300 s) to have
            # expired while access and refresh tokens are still alive
            wait = rng.choice([0, 0, 10, 301, 400, 550])
            if wait:
                rs.run(("tick", wait))
                rec["steps"].append(["tick", wait])
            ctx.count("verified-logout:wait-%d" % wait)
            mine = [gi for gi, g in enumerate(rs.grants) if g[2] == u]
            removed = rng.sample(mine, rng.choice([0, 1, 1, 1, 2])) if len(mine) > 2 else rng.sample(mine, rng.choice([0, 1]))

            def answers():
                out = {}
                for t in range(len(rs.tokobj)):
                    cls = rs.tokobj[t].token_class
                    owner = rs.grants[rs.tok_grant[t]][3]
                    if cls == "access_token":
                        out[t] = (rs.run(("userinfo", ("tok", t)))[0], rs.run(("introspect", owner, ("tok", t)))[0])
                    elif cls == "refresh_token":
                        out[t] = (rs.run(("introspect", owner, ("tok", t)))[0],)
                return out

            def honoured(t, ans):
                return "ok" in ans[t] or "active" in ans[t]

            a0 = answers()
            for t, v in a0.items():
                if not honoured(t, a0):
                    ctx.count("verified-logout:prefix-token-not-live")
            for gi in removed:
                rs.run(("remove_grant", gi))
                rec["steps"].append(["remove-session", gi])
            a1 = answers()
            for t in a1:
                gi = rs.tok_grant[t]
                if gi in removed and honoured(t, a1):
                    ctx.violation("removed-honoured", "token %d of the removed session %d is still honoured: %r" % (t, gi, a1[t]), rec)
                if gi not in removed and a1[t] != a0[t]:
                    ctx.violation("isolation", "remove-session of %r changed what the endpoints answer for token %d of grant %d "
                                  "(%s at %s): %r -> %r" % (removed, t, gi, rs.grants[gi][2], rs.grants[gi][3], a0[t], a1[t]), rec)
            left = [gi for gi in mine if gi not in removed]
            if not left:
                ctx.count("verified-logout:nothing-left")
                ctx.case_seen(rec, True)
                continue
            via = rng.choice(left)
            rec["steps"].append(["verified-logout", "all" if alla else "one", via, rs.grants[via][3]])
            try:
                rs.server.get_endpoint("session").do_verified_logout(rs.grants[via][0], alla=alla)
            except Exception as e:      # the logout itself failed: what it should have ended is judged below all the same
                rec["steps"].append(["verified-logout raised", type(e).__name__, str(e)[:200]])
                ctx.count("verified-logout:raised:" + type(e).__name__)
            a2 = answers()
            covered = {gi for gi in mine if alla or rs.grants[gi][3] == rs.grants[via][3]}
            for t in a2:
                gi = rs.tok_grant[t]
                if gi in covered or gi in removed:
                    if honoured(t, a2):
                        ctx.violation("dead-honoured-after-logout", "after logout from %s clients (via grant %d) %s %d of grant %d (%s at %s) is "
                                      "still honoured: %r" % ("all" if alla else "one of the", via, rs.tokobj[t].token_class, t, gi,
                                                              rs.grants[gi][2], rs.grants[gi][3], a2[t]), rec)
                elif a2[t] != a1[t]:
                    ctx.violation("isolation", "logout of %s (via grant %d, all clients: %s) changed what the endpoints answer for token %d of "
                                  "grant %d (%s at %s): %r -> %r" % (u, via, alla, t, gi, rs.grants[gi][2], rs.grants[gi][3], a1[t], a2[t]), rec)
            # the refresh grant: mints for nobody the logout covers, still mints for the others
            for t in list(a2):
                if rs.tokobj[t].token_class != "refresh_token":
                    continue
                gi = rs.tok_grant[t]
                o = rs.run(("rparse", rs.grants[gi][3], ("tok", t), None))
                p = rs.run(("proc", len(rs.parsed) - 1, None)) if o[0] == "ok" else o
                minted = (p[0] == "ok")
                rec["steps"].append(["refresh", t, gi, p[0]])
                if (gi in covered or gi in removed) and minted:
                    ctx.violation("dead-minted-after-logout", "the refresh token %d of grant %d (%s at %s) still mints after the logout"
                                  % (t, gi, rs.grants[gi][2], rs.grants[gi][3]), rec)
                if gi not in covered and gi not in removed and not minted:
                    ctx.violation("isolation", "the refresh token %d of grant %d (%s at %s), which the logout does not cover, no longer "
                                  "mints: %r" % (t, gi, rs.grants[gi][2], rs.grants[gi][3], p), rec)
            ctx.count("verified-logout:" + ("all" if alla else "one") + ":removed-%d" % len(removed))
            ctx.case_seen(rec, True)
        finally:
            rs.close()


def run(ctx):
    exchange_expiry(ctx)
    verified_logout(ctx)
    def factory():
        live = Liveness(ctx)
        return [live, Isolation(ctx, live)]
    # 3 of 5 random histories as before ("mixed"), 2 of 5 start with the several-grants-per-user prefix ("multi")
    n = 50 if ctx.quick else 2000
    common.run_histories(ctx, n, (20, 70), factory, structured=structured(),
                         focus_of=lambda i: "multi" if i % 5 in (1, 4) else "mixed")


def replay(ctx, rp):
    run(ctx)
