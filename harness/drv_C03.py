"""C03 driver — expiry and revocation are final, cascade to every endpoint, and are isolated."""
import sess
import drv_session_common as common

RULE = ("random histories (length 20-70) over 3 users x 3 clients on real OIDC and OAuth2 providers with the full operation "
        "alphabet (authorize, code/refresh parse+process, userinfo, introspection, revocation endpoint, recursive and plain "
        "token revocation API, grant and client-session revocation, clock ticks across every lifetime boundary) plus structured "
        "cascade/isolation scenarios; after every operation the oracle probes (out of band, read-only) every token its reference "
        "liveness says is dead at userinfo, introspection and the token endpoint's parse step, and compares the status of all "
        "tokens outside a revoked subtree before/after. A history is non-trivial when a token exchange succeeded.")
ASSUMPTIONS = ["token values abstracted to identifiers (C04)", "client authentication succeeds for the authenticating client (C01)",
               "revocation of the parent token is 'recursive' only through Grant.revoke_token(recursive=True) / the OIDC replay path; "
               "the revocation endpoint's default policy revokes exactly the presented token"]


class Liveness:
    """Reference liveness computed from the history alone (what was announced at issuance + the revocations seen)."""

    def __init__(self, ctx):
        self.ctx = ctx
        self.dead = {}            # token id -> reason
        self.hist = []
        self.parsed = []
        self.probed = {}
        self.dead_before = {}

    # --- reference bookkeeping
    def kill(self, tid, why):
        self.dead.setdefault(tid, why)

    def descendants(self, rs, tid):
        out, todo = set(), [tid]
        while todo:
            v = todo.pop()
            for i, t in enumerate(rs.tokobj):
                if i not in out and rs.tok_grant[i] == rs.tok_grant[v] and t.based_on == rs.tokens[v]:
                    out.add(i)
                    todo.append(i)
        return out

    def status(self, rs, tid):
        t = rs.tokobj[tid]
        owner = rs.grants[rs.tok_grant[tid]][3]
        if t.token_class in ("access_token", "refresh_token"):
            return rs.run(("introspect", owner, ("tok", tid)))[0]
        return None

    def __call__(self, rs, op, out, rec):
        self.hist.append([list(op), out])
        k = op[0]
        now = rs.clock.now
        if k in ("tparse", "rparse") and len(rs.parsed) > len(self.parsed):
            self.parsed.append((k, op[1], op[2]))
        # ---- before judging this op: was a dead token honoured by it?
        if k == "userinfo" and out[0] == "ok" and op[1][0] == "tok" and op[1][1] in self.dead:
            self.ctx.violation("dead-honoured-userinfo", "userinfo honoured token %d dead since: %s" % (op[1][1], self.dead[op[1][1]]), self.hist)
        if k == "introspect" and out[0] == "active" and op[2][0] == "tok" and op[2][1] in self.dead:
            self.ctx.violation("dead-active-introspection", "introspection reports token %d active, dead since: %s" % (op[2][1], self.dead[op[2][1]]), self.hist)
        if k == "proc" and out[0] == "ok" and op[1] < len(self.parsed):
            kind, client, ref = self.parsed[op[1]]
            if ref[0] == "tok" and ref[1] in self.dead_before:
                self.ctx.violation("dead-minted", "%s with token %d minted tokens although dead since: %s"
                                   % (kind, ref[1], self.dead_before[ref[1]]), self.hist)
        # ---- update the reference
        if k == "proc" and out[0] == "ok" and op[1] < len(self.parsed):
            kind, client, ref = self.parsed[op[1]]
            if kind == "tparse" and ref[0] == "tok":
                self.kill(ref[1], "code exchanged (max_usage 1)")
            if kind == "rparse" and ref[0] == "tok" and rs.ctx.cdb[client].get("revoke_refresh_on_issue", rs.ep["token"].revoke_refresh_on_issue):
                self.kill(ref[1], "refresh token rotated (revoke_refresh_on_issue)")
        if k == "revoke_ep" and out[0] == "ok" and op[2][0] == "tok":
            t = rs.tokobj[op[2][1]]
            if rs.grants[rs.tok_grant[op[2][1]]][3] == op[1] and t.token_class != "id_token":
                self.kill(op[2][1], "revoked at the revocation endpoint")
        if k == "api_revoke" and out[0] == "ok":
            self.kill(op[1][1], "revoked through the API")
            if op[2]:
                for d in self.descendants(rs, op[1][1]):
                    self.kill(d, "parent token %d revoked recursively" % op[1][1])
        if k == "revoke_grant" and out[0] == "ok":
            for i in range(len(rs.tokens)):
                if rs.tok_grant[i] == op[1]:
                    self.kill(i, "grant %d revoked" % op[1])
        if k == "revoke_client" and out[0] == "ok":
            _, _, u, c = rs.grants[op[1]]
            for i in range(len(rs.tokens)):
                g = rs.grants[rs.tok_grant[i]]
                if g[2] == u and g[3] == c:
                    self.kill(i, "client session (%s,%s) revoked" % (u, c))
        if k == "tparse" and rs.oidc and op[2][0] == "tok" and out[0] == "err":
            t = rs.tokobj[op[2][1]]
            if t.token_class == "authorization_code" and op[2][1] in self.dead and "exchanged" in self.dead[op[2][1]]:
                for d in self.descendants(rs, op[2][1]):
                    self.kill(d, "code %d presented again at the OIDC token endpoint" % op[2][1])
        for i, t in enumerate(rs.tokobj):
            if t.expires_at and now > t.expires_at:
                self.kill(i, "expired at %d" % t.expires_at)
        self.dead_before = dict(self.dead)
        # ---- out-of-band probes of dead tokens (each at most 3 times, plus at the end)
        for tid, why in list(self.dead.items()):
            if self.probed.get(tid, 0) < 3:
                self.probed[tid] = self.probed.get(tid, 0) + 1
                self.probe(rs, tid, why)

    def probe(self, rs, tid, why):
        t = rs.tokobj[tid]
        owner = rs.grants[rs.tok_grant[tid]][3]
        if t.token_class == "access_token" and rs.oidc:
            if rs.run(("userinfo", ("tok", tid)))[0] == "ok":
                self.ctx.violation("dead-honoured-userinfo", "userinfo honours token %d (%s)" % (tid, why), self.hist)
        if t.token_class in ("access_token", "refresh_token"):
            if rs.run(("introspect", owner, ("tok", tid)))[0] == "active":
                self.ctx.violation("dead-active-introspection", "introspection reports %s %d active (%s)" % (t.token_class, tid, why), self.hist)
        self.ctx.count("probe:" + t.token_class)

    def finish(self, rs, rec):
        for tid, why in self.dead.items():
            self.probe(rs, tid, why)


class Isolation:
    """Status of every token outside the revoked subtree is the same before and after a revocation."""

    def __init__(self, ctx, live):
        self.ctx, self.live = ctx, live
        self.before = None

    def snapshot(self, rs):
        snap = {}
        for i, t in enumerate(rs.tokobj):
            snap[i] = (bool(t.revoked), t.used, t.expires_at, tuple(t.scope))
        return snap

    def __call__(self, rs, op, out, rec):
        k = op[0]
        cur = self.snapshot(rs)
        if self.before is not None and k in ("revoke_ep", "api_revoke", "revoke_grant", "revoke_client") and out[0] == "ok":
            if k == "revoke_grant":
                affected = {i for i in cur if rs.tok_grant[i] == op[1]}
            elif k == "revoke_client":
                _, _, u, c = rs.grants[op[1]]
                affected = {i for i in cur if rs.grants[rs.tok_grant[i]][2] == u and rs.grants[rs.tok_grant[i]][3] == c}
            else:
                ref = op[1] if k == "api_revoke" else op[2]
                affected = {i for i in cur if ref[0] == "tok" and rs.tok_grant[i] == rs.tok_grant[ref[1]]} if ref[0] == "tok" else set()
            for i, v in self.before.items():
                if i not in affected and cur.get(i) != v:
                    self.ctx.violation("isolation", "%r changed token %d of another grant: %r -> %r" % (op, i, v, cur.get(i)), self.live.hist)
        self.before = cur


def structured():
    sc = ["openid", "email", "offline_access"]
    cases = []
    for oidc in (True, False):
        base = [("authz", "diana", "client_1", sc), ("tparse", "client_1", ("tok", 0), "same"), ("proc", 0, None),
                ("authz", "babs", "client_2", sc), ("tparse", "client_2", ("tok", 4 if oidc else 3), "same"), ("proc", 1, None),
                ("authz", "diana", "client_1", sc)]
        a2 = 5 if oidc else 4
        probes = [("introspect", "client_1", ("tok", 1)), ("introspect", "client_1", ("tok", 2)),
                  ("introspect", "client_2", ("tok", a2)), ("rparse", "client_1", ("tok", 2), None), ("proc", 2, None)]
        for name, rev in [("grant", [("revoke_grant", 0)]), ("client", [("revoke_client", 0)]),
                          ("api-rec", [("api_revoke", ("tok", 2), True)]), ("api-plain", [("api_revoke", ("tok", 2), False)]),
                          ("ep", [("revoke_ep", "client_1", ("tok", 1))]), ("ep-other-client", [("revoke_ep", "client_2", ("tok", 1))]),
                          ("refresh-then-rec", [("rparse", "client_1", ("tok", 2), None), ("proc", 2, None), ("api_revoke", ("tok", 2), True)]),
                          ("expire-access", [("tick", 601)]), ("expire-refresh", [("tick", 3601)]), ("expire-grant", [("tick", 43201)])]:
            cases.append(("cascade-%s-%s" % ("oidc" if oidc else "oauth2", name), oidc, False, base + rev + probes + probes))
    # revocation of a branch that is revoked already, and of a branch re-used by a later login of the same user
    # at the same client (the user / client nodes of a revoked session stay in the database and are re-used)
    for oidc in (True, False):
        a1 = 1
        relogin = [("authz", "diana", "client_1", sc), ("tparse", "client_1", ("tok", 0), "same"), ("proc", 0, None),
                   ("revoke_client", 0),
                   ("authz", "diana", "client_1", sc)]
        c2 = 4 if oidc else 3
        relogin += [("tparse", "client_1", ("tok", c2), "same"), ("proc", 1, None),
                    ("introspect", "client_1", ("tok", c2 + 1)), ("introspect", "client_1", ("tok", c2 + 2)),
                    ("revoke_client", 1),
                    ("introspect", "client_1", ("tok", c2 + 1)), ("introspect", "client_1", ("tok", c2 + 2)),
                    ("rparse", "client_1", ("tok", c2 + 2), None), ("proc", 2, None),
                    ("authz", "diana", "client_1", sc), ("revoke_grant", 2), ("revoke_grant", 2), ("revoke_client", 0), ("revoke_client", 2)]
        cases.append(("relogin-after-logout-%s" % ("oidc" if oidc else "oauth2"), oidc, False, relogin))
        twice = [("authz", "babs", "client_2", sc), ("authz", "babs", "client_2", sc), ("tparse", "client_2", ("tok", 1), "same"),
                 ("proc", 0, None), ("revoke_grant", 0), ("revoke_client", 0), ("introspect", "client_2", ("tok", 2)),
                 ("revoke_client", 1), ("introspect", "client_2", ("tok", 2))]
        cases.append(("revoke-twice-%s" % ("oidc" if oidc else "oauth2"), oidc, False, twice))
    return cases


def exchange_expiry(ctx):
    """Token exchange leaves the SUBJECT token's lifetime alone: past the expires_in it was issued with, the subject
    token is refused everywhere, however often it was exchanged in the meantime (oracle on the real endpoints; token
    exchange is not an operation of Model/Session.v)."""
    import drv_C05
    for oidc in (False, True):
        for other_client in (False, True):
            old = sess.FIXED_AUTHZ
            sess.FIXED_AUTHZ = drv_C05.EXCH_AUTHZ
            try:
                rs = sess.RealSession(oidc=oidc, jwt_access=False)
            finally:
                sess.FIXED_AUTHZ = old
            try:
                c = "client_2"
                o = rs.run(("authz", "diana", c, ["openid", "email", "offline_access"]))
                if o[0] != "ok":
                    continue
                rs.run(("tparse", c, ("tok", o[1][0]), "same"))
                p = rs.run(("proc", len(rs.parsed) - 1, None))
                if p[0] != "ok":
                    continue
                at = p[1]["access_token"]
                issued = rs.clock.now
                life = 600          # expires_in of access tokens in the harness configuration
                rec = {"flow": "exchange-expiry", "oidc": oidc, "exchanged_by_other_client": other_client, "steps": []}
                holder = "client_1" if other_client else c
                for dt in (200, 300):       # exchanged twice while alive: at t=200 and t=500
                    rs.run(("tick", dt))
                    body = {"grant_type": drv_C05.TE, "subject_token": rs.tokens[at], "subject_token_type": drv_C05.TT + "access_token"}
                    if other_client:
                        body["audience"] = holder
                    resp, err = drv_C05.token_call(rs, holder, body)
                    rs.find_new_grants()
                    rs.harvest()
                    rec["steps"].append(["exchange@%d" % (rs.clock.now - issued), bool(resp)])
                    ctx.count("exchange-expiry:exchange:" + ("ok" if resp else "refused"))
                for dt in (101, 99, 300):   # t=601, 700, 1000: past the subject token's own lifetime
                    rs.run(("tick", dt))
                    age = rs.clock.now - issued
                    it = rs.run(("introspect", c, ("tok", at)))
                    rec["steps"].append(["introspect@%d" % age, it[0]])
                    if it[0] == "active":
                        ctx.violation("dead-token-active", "introspection reports an access token active %d s after it was issued with a lifetime of %d s (it had been exchanged)" % (age, life), rec)
                    if oidc:
                        ui = rs.run(("userinfo", ("tok", at)))
                        rec["steps"].append(["userinfo@%d" % age, ui[0]])
                        if ui[0] == "ok":
                            ctx.violation("dead-token-honoured", "userinfo honours an access token %d s after it was issued with a lifetime of %d s (it had been exchanged)" % (age, life), rec)
                    body = {"grant_type": drv_C05.TE, "subject_token": rs.tokens[at], "subject_token_type": drv_C05.TT + "access_token"}
                    resp, err = drv_C05.token_call(rs, c, body)
                    if resp:
                        ctx.violation("dead-token-minted", "an expired access token is accepted as exchange subject %d s after issuance" % age, rec)
                ctx.case_seen(rec, True)
            finally:
                rs.close()


def run(ctx):
    exchange_expiry(ctx)
    def factory():
        live = Liveness(ctx)
        return [live, Isolation(ctx, live)]
    n = 30 if ctx.quick else 1200
    common.run_histories(ctx, n, (20, 70), factory, structured=structured())


def replay(ctx, rp):
    run(ctx)
