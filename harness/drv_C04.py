"""C04 driver — tokens are unforgeable, class-separated and bound to their session."""
import base64
import json

import sess
import srv
from engine import coq_str, coq_list, coq_bool, coq_nat, coq_opt

RULE = ("(a) plaintext correspondence: real opaque tokens of every class are decrypted with the handler's own key and compared with "
        "the model's lv_pack(rnd, class, sid, exp) for hostile session ids; (b) the info() outcome of every (handler x minted class) "
        "cell with shared and with distinct handler keys vs. the model; (c) endpoint oracle on providers with shared keys, distinct keys "
        "and JWT access tokens: every genuine token in every slot (userinfo, introspection, revocation, code slot, refresh slot), tokens "
        "of a second provider instance, and byte-level mutants of every genuine token (truncation, every sampled 1-char substitution / "
        "insertion / deletion, base64 re-encoding and padding games, JWT segment swaps, alg none, foreign signature) in their own slot. "
        "(d) the bearer CLIENT CREDENTIAL: on providers whose revocation / introspection / token / PAR / userinfo endpoints allow the client "
        "authentication methods bearer_header / bearer_body (three method-list configurations, JWT, opaque and alias handler variants), every "
        "genuine token of every class (fresh and spent code, access, refresh, ID Token) of several live sessions and clients, the tokens of a "
        "second provider instance, byte-level mutants and key-confusion forgeries of access tokens are offered as `Authorization: Bearer` / "
        "`authorization: Bearer` / body access_token credential, before and after a class-agnostic lookup of the same value: only an unmodified "
        "access token of this provider authenticates, as the client it was minted for; a full revocation request under a refused credential "
        "leaves its target alone, under an accepted one it acts for that client only; the outcomes of the genuine tokens in the userinfo, bearer "
        "and generic slot are compared with Model/TokenFmt.v slot_client. "
        "A case is one presentation; non-trivial when the presented string derives from a genuine token.")
ASSUMPTIONS = ["Fernet is an authenticated encryption and JWS signatures are unforgeable (symbolic model); byte-level mutations are exercised on the real libraries",
               "rndstr(32) / uuid values are fresh"]

CLASSES = ["authorization_code", "access_token", "refresh_token"]


def plain_cases(ctx, rng, server, n):
    from idpyoidc.server.util import lv_unpack
    th = server.context.session_manager.token_handler
    cases = []
    alpha = ["a", ":", ";", "1", "3", " ", "\n", "å", "=", "/", "+", "x;;y", "12:", "0:"]
    for i in range(n):
        cls = rng.choice(CLASSES)
        sid = "".join(rng.choice(alpha) for _ in range(rng.randint(0, 12)))
        h = th.handler[cls]
        tok = h(session_id=sid)
        plain = h.crypt.decrypt(base64.b64decode(tok)).decode()
        parts = lv_unpack(plain)
        rec = {"class": cls, "sid": sid, "fields": parts}
        ctx.case_seen(rec, True)
        if len(parts) != 4 or parts[1] != cls or parts[2] != sid:
            ctx.violation("plaintext-binding", "token minted for (%s, %r) carries %r" % (cls, sid, parts), rec)
        info = h.info(tok)
        if info["sid"] != sid:
            ctx.violation("sid-resolution", "info() of a token minted for sid %r gives %r" % (sid, info["sid"]), rec)
        cases.append(("(%s, %s, %s, %s, %s)" % (coq_str(parts[0]), coq_str(cls), coq_str(sid), coq_str(parts[3]), coq_str(plain)), rec))
    ctx.coq_check_cases(["Lib.Base", "Lib.PyStr", "Lib.Crypto", "Model.Lv", "Model.TokenFmt"],
                        "pystr * pystr * pystr * pystr * pystr", "chk_plain", cases, shard=300, label="plain")


def info_matrix(ctx, shared):
    from idpyoidc.server.token.exception import UnknownToken, WrongTokenClass
    server = srv.make_server(pinned=shared)
    th = server.context.session_manager.token_handler
    cases = []
    for hi, hc in enumerate(CLASSES):
        for mi, mc in enumerate(CLASSES):
            tok = th.handler[mc](session_id="sid")
            try:
                r = th.handler[hc].info(tok)
                code = 0 if r.get("sid") else 1
            except WrongTokenClass:
                code = 3
            except UnknownToken:
                code = 2
            except KeyError:
                code = 5
            rec = {"handler": hc, "minted": mc, "shared_key": shared, "outcome": code}
            ctx.case_seen(rec, True)
            if hc != mc and code == 0:
                ctx.violation("class-confusion", "handler %s accepts a token minted as %s" % (hc, mc), rec)
            if hc == mc and code != 0:
                ctx.violation("own-token-refused", "handler %s refuses its own token (%d)" % (hc, code), rec)
            cases.append(("(%s, %s, %s, %s)" % (coq_nat(hi), coq_nat(mi), coq_bool(shared), coq_nat(code)), rec))
    ctx.coq_check_cases(["Lib.Base", "Lib.PyStr", "Lib.Crypto", "Model.Lv", "Model.TokenFmt"],
                        "nat * nat * bool * nat", "chk_info", cases, shard=50, label="info_%s" % ("shared" if shared else "distinct"))


def mutants(rng, tok, other):
    """byte-level variants of a genuine token string"""
    out = []
    n = len(tok)
    out += [("truncate-%d" % k, tok[:k]) for k in (0, 1, n // 2, n - 2, n - 1)]
    out += [("append", tok + "A"), ("append-eq", tok + "="), ("prepend", "A" + tok), ("space", " " + tok), ("newline", tok + "\n")]
    for _ in range(12):
        i = rng.randrange(n)
        c = rng.choice("ABCDEFGHabcdefgh0123456789-_+/")
        if c != tok[i]:
            out.append(("subst-%d" % i, tok[:i] + c + tok[i + 1:]))
        out.append(("delete-%d" % i, tok[:i] + tok[i + 1:]))
        out.append(("insert-%d" % i, tok[:i] + c + tok[i:]))
    if "." in tok:
        h, p, s = tok.split(".")
        oh, op, os_ = other.split(".") if other and other.count(".") == 2 else (h, p, s)
        none_h = base64.urlsafe_b64encode(json.dumps({"alg": "none"}).encode()).decode().rstrip("=")
        out += [("swap-sig", ".".join([h, p, os_])), ("swap-payload", ".".join([h, op, s])), ("alg-none", ".".join([none_h, p, ""])),
                ("alg-none-sig", ".".join([none_h, p, s])), ("no-sig", ".".join([h, p, ""])), ("two-parts", ".".join([h, p]))]
    else:
        try:
            raw = base64.b64decode(tok)
            out += [("reencode-urlsafe", base64.urlsafe_b64encode(raw).decode()), ("reencode-nopad", tok.rstrip("=")),
                    ("inner-truncated", base64.b64encode(raw[:-1]).decode()), ("inner-flipped", base64.b64encode(raw[:-1] + bytes([raw[-1] ^ 1])).decode()),
                    ("double-b64", base64.b64encode(tok.encode()).decode())]
        except Exception:
            pass
    return [(k, v) for k, v in out if v != tok]


def jwt_forgeries(rs, tok, clients):
    """re-signed variants of a genuine JWT token: keys the provider's key jar holds for OTHER issuers (the
    client secrets that registration stores under the client id), a fresh foreign key, the provider's own
    public key used as an HMAC secret; iss rewritten or not, class / expiry rewritten"""
    from cryptojwt.jws.jws import JWS
    from cryptojwt.jwk.hmac import SYMKey
    from cryptojwt.jwk.rsa import new_rsa_key
    out = []
    if tok.count(".") != 2:
        return out
    h, p, s = tok.split(".")
    try:
        pay = json.loads(base64.urlsafe_b64decode(p + "=" * (-len(p) % 4)))
    except Exception:
        return out
    def sign(payload, key, alg):
        return JWS(json.dumps(payload), alg=alg).sign_compact([key])
    for c in clients[:2]:
        key = SYMKey(key=rs.secret(c), use="sig")
        for alg in ("HS256", "HS512"):
            out.append(("resign-%s-client-secret-iss-kept" % alg, sign(pay, key, alg)))
            q = dict(pay, iss=c)
            out.append(("resign-%s-client-secret-iss-client" % alg, sign(q, key, alg)))
        q = dict(pay, iss=c, exp=pay.get("exp", 0) + 10 ** 7)
        out.append(("resign-HS256-client-secret-iss-client-exp", sign(q, key, "HS256")))
        for cls in ("authorization_code", "access_token", "refresh_token"):
            if pay.get("token_class") not in (None, cls):
                out.append(("resign-HS256-client-secret-iss-client-class", sign(dict(pay, iss=c, token_class=cls), key, "HS256")))
    # a key a client REGISTERED (registration with jwks imports it into the provider's key jar under the client id)
    cks = getattr(rs, "_c04_client_keys", None)
    if cks is None:
        from cryptojwt.jwk.ec import new_ec_key
        cks = rs._c04_client_keys = {"RS256": new_rsa_key(kid="c04-client-rsa"), "ES256": new_ec_key("P-256", kid="c04-client-ec")}
        rs.server.keyjar.import_jwks({"keys": [k.serialize(private=False) for k in cks.values()]}, clients[0])
    try:
        own_alg = json.loads(base64.urlsafe_b64decode(h + "=" * (-len(h) % 4))).get("alg")
    except Exception:
        own_alg = None
    for alg, ck in cks.items():
        tag = "same-alg" if alg == own_alg else "other-alg"
        out.append(("resign-registered-client-key-%s-iss-client" % tag, sign(dict(pay, iss=clients[0]), ck, alg)))
        out.append(("resign-registered-client-key-%s-iss-kept" % tag, sign(pay, ck, alg)))
        out.append(("resign-registered-client-key-%s-iss-client-exp" % tag, sign(dict(pay, iss=clients[0], exp=pay.get("exp", 0) + 10 ** 7), ck, alg)))
        for cls in ("authorization_code", "access_token", "refresh_token"):
            if pay.get("token_class") not in (None, cls):
                out.append(("resign-registered-client-key-%s-iss-client-class" % tag,
                            sign(dict(pay, iss=clients[0], token_class=cls), ck, alg)))
    fk = new_rsa_key()
    out.append(("resign-RS256-fresh-key", sign(pay, fk, "RS256")))
    out.append(("resign-RS256-fresh-key-iss-client", sign(dict(pay, iss=clients[0]), fk, "RS256")))
    try:
        pub = rs.server.keyjar.export_jwks_as_json(issuer_id="")
        out.append(("resign-HS256-own-public-jwks-as-secret", sign(pay, SYMKey(key=pub, use="sig"), "HS256")))
    except Exception:
        pass
    return [(k, v) for k, v in out if v != tok]


ALG_CODE = {"RS256": "(AlgAsym 0 0)", "RS384": "(AlgAsym 0 1)", "RS512": "(AlgAsym 0 2)", "PS256": "(AlgAsym 0 3)",
            "ES256": "(AlgAsym 1 0)", "ES384": "(AlgAsym 2 0)", "HS256": "(AlgHS 0)", "HS384": "(AlgHS 1)", "HS512": "(AlgHS 2)",
            "none": "AlgNone"}


def key_kind(k):
    n = type(k).__name__
    if n == "SYMKey":
        return "KSym"
    if n == "RSAKey":
        return "(KAsym 0)"
    if n == "ECKey":
        return "(KAsym %d)" % {"P-256": 1, "P-384": 2, "P-521": 3}.get(getattr(k, "crv", ""), 9)
    return "(KAsym 8)"


def key_ident(k):
    """the same number for a private key and the public key the jar holds for it"""
    if type(k).__name__ == "SYMKey":
        import hashlib
        raw = k.key if isinstance(k.key, bytes) else str(k.key).encode()
        return "sym:" + hashlib.sha256(raw).hexdigest()
    return "asym:" + k.thumbprint("SHA-256").decode()


def jwt_key_cases(ctx, rs, tok, clients, cases):
    """Model/JwtKeys.v against JWTToken.get_payload: a genuine token and re-signed variants (who signs, under which
    algorithm, naming whom as issuer) presented to every JWT class handler of the real provider"""
    from cryptojwt.jws.jws import JWS
    from cryptojwt.jwk.hmac import SYMKey
    from cryptojwt.jwk.rsa import new_rsa_key
    from cryptojwt.jwk.ec import new_ec_key
    if tok.count(".") != 2:
        return
    h, p, _ = tok.split(".")
    pay = json.loads(base64.urlsafe_b64decode(p + "=" * (-len(p) % 4)))
    hdr = json.loads(base64.urlsafe_b64decode(h + "=" * (-len(h) % 4)))
    kj = rs.server.keyjar
    cks = getattr(rs, "_c04_client_keys", None)
    if cks is None:
        cks = rs._c04_client_keys = {"RS256": new_rsa_key(kid="c04-client-rsa"), "ES256": new_ec_key("P-256", kid="c04-client-ec")}
        kj.import_jwks({"keys": [k.serialize(private=False) for k in cks.values()]}, clients[0])
    num = {}

    def kn(k):
        return num.setdefault(key_ident(k), len(num))
    jar = []
    for owner in kj.owners():
        for k in kj.get_issuer_keys(owner):
            jar.append("mkJarkey %s %d %s" % (coq_str(owner), kn(k), key_kind(k)))
    own = {("RS256" if type(k).__name__ == "RSAKey" else "ES256"): k for k in kj.get_issuer_keys("") if k.use in ("sig", "", None)}
    signers = [("provider-%s" % a, k, a) for a, k in own.items()]
    signers += [("client-secret-%s" % a, SYMKey(key=rs.secret(clients[1]), use="sig"), a) for a in ("HS256", "HS512")]
    signers += [("client-registered-%s" % a, k, a) for a, k in cks.items()]
    signers += [("fresh-ES256", new_ec_key("P-256"), "ES256"), ("fresh-RS256", new_rsa_key(), "RS256")]
    issuers = [("kept", pay.get("iss")), ("client-with-keys", clients[0]), ("client-with-secret", clients[1]), ("absent", None), ("own-keys-owner", "")]
    th = rs.sm.token_handler
    for sname, key, alg in signers:
        for iname, iss in issuers:
            q = dict(pay)
            if iss is None:
                q.pop("iss", None)
            else:
                q["iss"] = iss
            try:
                value = JWS(json.dumps(q), alg=alg).sign_compact([key])
            except Exception as e:
                ctx.notes.append("could not sign %s/%s: %r" % (sname, iname, e))
                continue
            body = "(%s %d (Atom (PS \"payload\")))" % ("Mac" if alg.startswith("HS") else "Sig", kn(key))
            jt = "mkJtok %s %s %s" % (ALG_CODE[alg], coq_opt(iss, coq_str, "pystr"), body)
            for hk, hd in th.handler.items():
                if type(hd).__name__ != "JWTToken" or hd.alg not in ALG_CODE:
                    continue
                try:
                    hd.get_payload(value)
                    acc = True
                except Exception:
                    acc = False
                rec = {"jwt_keys": True, "handler": hk, "handler_alg": hd.alg, "signer": sname, "alg": alg, "iss": iname, "accepted": acc}
                ctx.case_seen(rec, True)
                ctx.count("jwt-keys:%s:iss-%s:%s" % (sname, iname, "accepted" if acc else "refused"))
                if acc and not (sname.startswith("provider-") and iname == "kept"):
                    ctx.violation("mutant-accepted", "a token signed by %s (alg %s) naming issuer %s verifies at the %s handler" % (sname, alg, iname, hk), rec)
                cases.append(("(%s, %s, %s, %s, %s)" % (coq_list(jar, "jarkey"), coq_str(hd.issuer), ALG_CODE[hd.alg], jt, coq_bool(acc)), rec))


def present(rs, slot, value, client):
    """present a raw string in a slot of the real endpoints; returns ('accepted', detail) or ('refused', why)"""
    try:
        if slot == "userinfo":
            ep = rs.ep["userinfo"]
            p = ep.parse_request({}, http_info={"headers": {"authorization": "Bearer " + value}})
            if "error" in p:
                return "refused", p["error"]
            r = ep.process_request(p)
            ra = r.get("response_args", r) if isinstance(r, dict) else r
            return ("refused", ra["error"]) if "error" in ra else ("accepted", {"sub": ra.get("sub"), "client": r.get("client_id")})
        if slot == "introspection":
            ep = rs.ep["introspection"]
            p = ep.parse_request(rs._token_req(client, {"token": value}))
            if "error" in p:
                return "refused", p["error"]
            ra = ep.process_request(p)["response_args"]
            return ("accepted", {"sub": ra.get("sub"), "client": ra.get("client_id")}) if ra.get("active") else ("refused", "inactive")
        if slot == "code":
            ep = rs.ep["token"]
            p = ep.parse_request(rs._token_req(client, {"grant_type": "authorization_code", "code": value,
                                                        "redirect_uri": "https://%s.example.com/cb" % client}))
            if "error" in p:
                return "refused", p["error"]
            r = ep.process_request(p)
            ra = r.get("response_args", r) if isinstance(r, dict) else r
            return ("refused", ra["error"]) if "error" in ra else ("accepted", {"tokens": sorted(k for k in ra.keys() if k.endswith("token"))})
        if slot == "refresh":
            ep = rs.ep["token"]
            p = ep.parse_request(rs._token_req(client, {"grant_type": "refresh_token", "refresh_token": value}))
            if "error" in p:
                return "refused", p["error"]
            r = ep.process_request(p)
            ra = r.get("response_args", r) if isinstance(r, dict) else r
            return ("refused", ra["error"]) if "error" in ra else ("accepted", {"tokens": sorted(k for k in ra.keys() if k.endswith("token"))})
    except Exception as e:      # a crash is a refusal
        return "refused", "exc:" + type(e).__name__
    raise ValueError(slot)


SLOT_OF = {"access_token": ["userinfo", "introspection"], "refresh_token": ["refresh", "introspection"], "authorization_code": ["code"],
           "id_token": []}


def endpoint_oracle(ctx, rng, variant, n_flows, n_mut):
    shared, jwt, idt_alg = variant[:3]
    alias = len(variant) > 3 and variant[3] == "alias"
    jwt_refresh = len(variant) > 4 and variant[4]
    old = srv.make_server

    def mk(*a, **k):
        k.setdefault("pinned", shared)
        return old(*a, **k)
    srv.make_server = mk
    try:
        over = {c: {"id_token_signed_response_alg": idt_alg} for c in sess.CLIENTS} if idt_alg else None
        rs = sess.RealSession(oidc=True, jwt_access=jwt, client_over=over, alias_kwargs=alias, jwt_refresh=jwt_refresh)
        rs2 = sess.RealSession(oidc=True, jwt_access=jwt, client_over=over, alias_kwargs=alias, jwt_refresh=jwt_refresh)      # a second instance; with pinned keys it shares them
    finally:
        srv.make_server = old
    try:
        flows = []
        for i in range(n_flows):
            u, c = rng.choice(sess.USERS), rng.choice(sess.CLIENTS)
            o = rs.run(("authz", u, c, ["openid", "email", "offline_access"]))
            code = o[1][0]
            spare = rs.run(("authz", u, c, ["openid", "email", "offline_access"]))[1][0]     # an unredeemed code of the same session pair
            rs.run(("tparse", c, ("tok", code), "same"))
            p = rs.run(("proc", len(rs.parsed) - 1, None))
            flows.append({"user": u, "client": c, "sub": rs.grants[rs.tok_grant[code]][1].sub, "code": spare,
                          "access_token": p[1]["access_token"], "refresh_token": p[1]["refresh_token"], "id_token": p[1]["id_token"]})
        # tokens of the other provider instance
        o2 = rs2.run(("authz", "diana", "client_1", ["openid", "offline_access"]))
        rs2.run(("tparse", "client_1", ("tok", o2[1][0]), "same"))
        p2 = rs2.run(("proc", 0, None))
        foreign = {"access_token": rs2.tokens[p2[1]["access_token"]], "refresh_token": rs2.tokens[p2[1]["refresh_token"]]}
        th = rs.sm.token_handler
        if jwt:
            jk = []
            jwt_key_cases(ctx, rs, rs.tokens[flows[0]["access_token"]], sess.CLIENTS, jk)
            ctx.coq_check_cases(["Lib.Base", "Lib.PyStr", "Lib.Crypto", "Model.JwtKeys"], "jar * pystr * jalg * jtok * bool", "chk_jwt_keys", jk, label="jwtkeys")
        for f in flows:
            # ---- handler level: no handler may resolve a token of another class (ID Tokens included)
            for cls in ("access_token", "refresh_token", "id_token", "code"):
                tid = f[cls]
                real_cls = rs.tokobj[tid].token_class
                for hk in ("authorization_code", "access_token", "refresh_token"):
                    try:
                        info = th.handler[hk].info(rs.tokens[tid])
                        ok = bool(info.get("sid"))
                    except Exception:
                        ok = False
                    rec = {"variant": variant, "handler": hk, "token_class": real_cls, "resolved": ok}
                    ctx.case_seen(rec, True)
                    if ok and hk != real_cls:
                        ctx.violation("class-confusion", "handler %s resolves a %s (id_token alg %s, jwt access %s)" % (hk, real_cls, idt_alg, jwt), rec)
                # the token itself as bearer credential at the revocation endpoint
                if real_cls != "access_token":
                    try:
                        ep = rs.server.get_endpoint("token_revocation")
                        saved = ep.client_authn_method
                        ep.client_authn_method = ["bearer_header"]       # the endpoint holds method names
                        try:
                            p = ep.parse_request({"token": rs.tokens[f["access_token"]]},
                                                 http_info={"headers": {"authorization": "Bearer " + rs.tokens[tid]}})
                            accepted = "error" not in p
                        finally:
                            ep.client_authn_method = saved
                    except Exception:
                        accepted = False
                    if accepted:
                        ctx.violation("wrong-class-accepted", "%s accepted as bearer credential at the revocation endpoint" % real_cls,
                                      {"variant": variant, "class": real_cls, "endpoint": "token_revocation", "form": "header",
                                       "credential": rs.tokens[tid][:200], "owner": [f["user"], f["client"]]})
            # ---- every genuine token in every slot
            for cls in ("access_token", "refresh_token", "id_token", "code"):
                tid = f[cls]
                real_cls = rs.tokobj[tid].token_class
                val = rs.tokens[tid]
                for slot in ("userinfo", "introspection", "refresh", "code"):
                    if slot in ("refresh", "code") and real_cls in ("refresh_token", "authorization_code") and slot in SLOT_OF.get(real_cls, []):
                        continue        # using it up is done last, below
                    verdict, detail = present(rs, slot, val, f["client"])
                    rec = {"variant": variant, "class": real_cls, "slot": slot, "verdict": verdict, "detail": detail}
                    ctx.case_seen(rec, True)
                    ctx.count("genuine:%s@%s:%s" % (real_cls, slot, verdict))
                    right = slot in SLOT_OF.get(real_cls, [])
                    if verdict == "accepted" and not right:
                        ctx.violation("wrong-class-accepted", "%s accepted in the %s slot" % (real_cls, slot), rec)
                    if verdict == "refused" and right:
                        ctx.violation("genuine-refused", "%s refused in its own slot %s: %s" % (real_cls, slot, detail), rec)
                    if verdict == "accepted" and slot in ("userinfo", "introspection"):
                        if detail.get("sub") != f["sub"] or (detail.get("client") not in (None, f["client"])):
                            ctx.violation("resolves-elsewhere", "token of (%s,%s) resolved to %r" % (f["user"], f["client"], detail), rec)
            # ---- history: once a value has been looked up without a class slot (introspection, revocation do that),
            #      it must still be refused in every other class slot - at the session manager as the endpoints ask it,
            #      and as bearer credential
            for cls in ("access_token", "refresh_token", "id_token", "code"):
                tid = f[cls]
                real_cls = rs.tokobj[tid].token_class
                val = rs.tokens[tid]
                present(rs, "introspection", val, f["client"])
                try:
                    rs.sm.get_session_info_by_token(val, grant=True)
                except Exception:
                    pass
                for hk in ("authorization_code", "access_token", "refresh_token"):
                    if hk == real_cls:
                        continue
                    try:
                        si = rs.sm.get_session_info_by_token(val, grant=True, handler_key=hk)
                        ok = bool(si.get("grant"))
                    except Exception:
                        ok = False
                    rec = {"variant": variant, "token_class": real_cls, "asked_as": hk, "after_generic_lookup": True, "resolved": ok}
                    ctx.case_seen(rec, True)
                    ctx.count("after-lookup:%s-as-%s:%s" % (real_cls, hk, "resolved" if ok else "refused"))
                    if ok:
                        ctx.violation("wrong-class-accepted", "after an introspection of the value, the session manager resolves a %s asked for as %s"
                                      % (real_cls, hk), rec)
                for slot in ("userinfo", "refresh", "code"):
                    if slot in SLOT_OF.get(real_cls, []):
                        continue
                    verdict, detail = present(rs, slot, val, f["client"])
                    ctx.case_seen({"variant": variant, "class": real_cls, "slot": slot, "second_pass": True, "verdict": verdict}, True)
                    if verdict == "accepted":
                        ctx.violation("wrong-class-accepted", "%s accepted in the %s slot after it had been introspected" % (real_cls, slot),
                                      {"variant": variant, "class": real_cls, "slot": slot})
            # ---- mutants in their own slot
            for cls in ("access_token", "refresh_token", "code"):
                tid = f[cls]
                real_cls = rs.tokobj[tid].token_class
                val = rs.tokens[tid]
                other = rs.tokens[flows[0][cls]] if flows[0] is not f else None
                muts = mutants(rng, val, other)
                forged = jwt_forgeries(rs, val, sess.CLIENTS)
                for name, m in forged:
                    # handler level: a forged value must not resolve at any class handler, nor at the session manager
                    for hk in ("authorization_code", "access_token", "refresh_token"):
                        try:
                            info = th.handler[hk].info(m)
                            ok = bool(info.get("sid"))
                        except Exception:
                            ok = False
                        rec = {"variant": variant, "class": real_cls, "handler": hk, "mutation": name, "resolved": ok}
                        ctx.case_seen(rec, True)
                        ctx.count("forged:%s:%s" % (name, "resolved" if ok else "refused"))
                        if ok:
                            ctx.violation("mutant-accepted", "%s forgery of a %s resolves at handler %s to session %s"
                                          % (name, real_cls, hk, info.get("sid", "")[:20]), rec)
                    for hk in ("authorization_code", "access_token", "refresh_token"):      # the way the endpoints call it
                        try:
                            si = rs.sm.get_session_info_by_token(m, grant=True, handler_key=hk)
                            ok = bool(si.get("grant"))
                        except Exception:
                            ok = False
                        if ok:
                            ctx.violation("mutant-accepted", "%s forgery of a %s resolves to a session at the session manager (handler %s)"
                                          % (name, real_cls, hk), {"variant": variant, "class": real_cls, "mutation": name})
                    try:        # observation only: the generic lookup also asks the ID Token handler, which is outside C04's three classes
                        si = rs.sm.get_session_info_by_token(m, grant=True)
                        ctx.count("forged-generic-lookup:%s:%s" % (name, "resolves" if si.get("grant") else "refused"))
                    except Exception:
                        ctx.count("forged-generic-lookup:%s:refused" % name)
                for name, m in rng.sample(muts, min(n_mut, len(muts))) + forged:
                    for slot in SLOT_OF[real_cls]:
                        verdict, detail = present(rs, slot, m, f["client"])
                        rec = {"variant": variant, "class": real_cls, "slot": slot, "mutation": name, "verdict": verdict}
                        ctx.case_seen(rec, True)
                        ctx.count("mutant:%s:%s" % (name.split("-")[0], verdict))
                        if verdict == "accepted":
                            ctx.violation("mutant-accepted", "%s mutant (%s) of a %s accepted in slot %s" % (name, m[:40], real_cls, slot), rec)
            # ---- another instance's tokens
            for cls, val in foreign.items():
                for slot in SLOT_OF[cls]:
                    verdict, detail = present(rs, slot, val, f["client"])
                    rec = {"variant": variant, "class": cls, "slot": slot, "foreign_instance": True, "verdict": verdict, "shared_keys": shared}
                    ctx.case_seen(rec, True)
                    if verdict == "accepted":
                        # with keys shared between instances the token decrypts; it must still not resolve to a session of this instance
                        ctx.violation("foreign-accepted", "a %s minted by another provider instance accepted in slot %s" % (cls, slot), rec)
            # ---- finally the genuine refresh token and code work in their own slot, once
            v, d = present(rs, "refresh", rs.tokens[f["refresh_token"]], f["client"])
            if v != "accepted":
                ctx.violation("genuine-refused", "genuine refresh token refused: %s" % (d,), {"variant": variant})
            v, d = present(rs, "code", rs.tokens[f["code"]], f["client"])
            if v != "accepted":
                ctx.violation("genuine-refused", "genuine code refused: %s" % (d,), {"variant": variant})
    finally:
        rs.close()
        rs2.close()


# ---------------------------------------------------------------------------------------------------------------
# the bearer CLIENT CREDENTIAL slot: `Authorization: Bearer <value>` (bearer_header) and body `access_token`
# (bearer_body) as client authentication at the endpoints that allow those methods
MIXED_AUTHN = ["client_secret_post", "client_secret_basic", "bearer_header", "bearer_body"]
BEARER_ENDPOINTS = ["token_revocation", "introspection", "token", "pushed_authorization", "userinfo"]
FORMS = ["header", "Header", "body"]
MCLS = {"authorization_code": 0, "access_token": 1, "refresh_token": 2, "id_token": 3}


def revocation_authn_configs():
    """the method lists the revocation endpoint is configured with, in turn: bearer next to the secret methods,
    bearer only, and the list the endpoint class itself declares as its default"""
    out = [("mixed", list(MIXED_AUTHN)), ("bearer-only", ["bearer_header", "bearer_body"])]
    try:
        from idpyoidc.server.oauth2.token_revocation import TokenRevocation
        dflt = list(TokenRevocation.default_capabilities["client_authn_method"])
        if any(m.startswith("bearer") for m in dflt):
            out.append(("class-default", dflt))
    except Exception:
        pass
    return out


def bearer_auth(ep, value, form, body=None):
    """client authentication of the real endpoint with `value` as bearer credential.
    -> (client_id or None, method or detail)"""
    req = dict(body or {})
    http_info = {}
    if form == "body":
        req["access_token"] = value
    else:
        http_info = {"headers": {("authorization" if form == "header" else "Authorization"): "Bearer " + value}}
    try:
        ai = ep.client_authentication(ep.request_cls(**req), http_info, endpoint=ep)
    except Exception as e:
        return None, "exc:" + type(e).__name__
    cid = ai.get("client_id") if isinstance(ai, dict) else None
    if cid and ai.get("method") not in (None, "none", "public"):
        return cid, ai.get("method")
    return None, "no-client"


def userinfo_under(rs, value, form):
    """a complete userinfo request with `value` as the bearer token (header or body access_token): the endpoint's answer
    counts, not the client-authentication stage alone (process_request looks the value up again).
    -> (client the response is for or None, detail)"""
    ep = rs.ep["userinfo"]
    req, http_info = {}, {}
    if form == "body":
        req["access_token"] = value
    else:
        http_info = {"headers": {("authorization" if form == "header" else "Authorization"): "Bearer " + value}}
    try:
        p = ep.parse_request(req, http_info=http_info)
        if "error" in p:
            return None, "parse:" + str(p["error"])
        r = ep.process_request(p)
        ra = r.get("response_args", r) if isinstance(r, dict) else r
        if "error" in ra or not ra.get("sub"):
            return None, "process:" + str(ra.get("error"))
        return (r.get("client_id") or p.get("client_id")), "userinfo-response"
    except Exception as e:
        return None, "exc:" + type(e).__name__


def revoke_under(rs, value, form, target):
    """a complete revocation request (parse_request, process_request) whose only credential is `value`.
    -> (authenticated client or None, carried_out)"""
    ep = rs.ep["token_revocation"]
    req = {"token": target}
    http_info = {}
    if form == "body":
        req["access_token"] = value
    else:
        http_info = {"headers": {("authorization" if form == "header" else "Authorization"): "Bearer " + value}}
    try:
        p = ep.parse_request(req, http_info=http_info)
        if "error" in p:
            return None, False
        who = p.get("client_id") if p.get("authenticated") else None
        r = ep.process_request(p)
        ra = r.get("response_args", r) if isinstance(r, dict) else r
        return who, "error" not in ra
    except Exception:
        return None, False


def bearer_oracle(ctx, rng, variant, authn, n_flows, n_mut):
    shared, jwt, idt_alg = variant[:3]
    alias = len(variant) > 3 and variant[3] == "alias"
    jwt_refresh = len(variant) > 4 and variant[4]
    authn_name, authn_list = authn
    old_mk, old_conf = srv.make_server, srv.op_conf

    def mk(*a, **k):
        k.setdefault("pinned", shared)
        return old_mk(*a, **k)

    def conf_with_bearer(*a, **k):
        conf = old_conf(*a, **k)
        for name, spec in conf["endpoint"].items():
            if name not in BEARER_ENDPOINTS:
                continue
            cur = spec["kwargs"].get("client_authn_method") or []
            if name == "token_revocation":
                spec["kwargs"]["client_authn_method"] = list(authn_list)
            else:
                spec["kwargs"]["client_authn_method"] = list(cur) + [m for m in ("bearer_header", "bearer_body") if m not in cur]
        return conf
    srv.make_server, srv.op_conf = mk, conf_with_bearer
    try:
        over = {c: {"id_token_signed_response_alg": idt_alg} for c in sess.CLIENTS} if idt_alg else None
        rs = sess.RealSession(oidc=True, jwt_access=jwt, client_over=over, alias_kwargs=alias, jwt_refresh=jwt_refresh)
        rs2 = sess.RealSession(oidc=True, jwt_access=jwt, client_over=over, alias_kwargs=alias, jwt_refresh=jwt_refresh)
    finally:
        srv.make_server, srv.op_conf = old_mk, old_conf
    cfg_term = "(%s, %s, %s, %s, %s)" % (coq_nat(0), coq_nat(1 if jwt else 0), coq_nat(1 if jwt_refresh else 0), coq_bool(not shared),
                                          coq_bool((idt_alg or "RS256") != "ES256"))
    model_cases = []
    try:
        def flow(r, u, c):
            r.find_new_grants()
            r.harvest()        # what direct presentations minted meanwhile is registered first: o[1] is then the new code alone
            o = r.run(("authz", u, c, ["openid", "email", "offline_access"]))
            code = o[1][0]
            spare = r.run(("authz", u, c, ["openid", "email", "offline_access"]))[1][0]
            tp = r.run(("tparse", c, ("tok", code), "same"))
            p = r.run(("proc", len(r.parsed) - 1, None))
            if p[0] != "ok":
                raise RuntimeError("flow of (%s, %s) did not complete: %r after %r / %r / %r" % (u, c, p, o, tp, r.parsed[-1]))
            return {"user": u, "client": c, "spent_code": code, "code": spare, "access_token": p[1]["access_token"],
                    "refresh_token": p[1]["refresh_token"], "id_token": p[1]["id_token"]}
        # many sessions live at once: two users at one client, one user at two clients, then random ones
        pairs = [("diana", "client_1"), ("babs", "client_1"), ("diana", "client_2")]
        pairs += [(rng.choice(sess.USERS), rng.choice(sess.CLIENTS)) for _ in range(max(0, n_flows - len(pairs)))]
        flows = [flow(rs, u, c) for u, c in pairs]
        f2 = flow(rs2, "diana", "client_1")
        targets = {}

        def live(tid):
            t = rs.tokobj[tid]
            return (not t.revoked) and t.is_active()

        def target_for(client, not_flow=None):
            """a live access token of ANOTHER session of that client"""
            tid = targets.get(client)
            if tid is None or not live(tid):
                u = rng.choice([x for x in sess.USERS if not_flow is None or x != not_flow["user"]])
                tid = targets[client] = flow(rs, u, client)["access_token"]
            return tid

        # ---- the credentials
        creds = []       # (label, value, kind, class, owner flow)
        for f in flows:
            for key in ("spent_code", "code", "access_token", "refresh_token", "id_token"):
                tid = f[key]
                creds.append((key, rs.tokens[tid], "genuine", rs.tokobj[tid].token_class, f))
        for key in ("spent_code", "code", "access_token", "refresh_token", "id_token"):
            creds.append(("foreign-" + key, rs2.tokens[f2[key]], "foreign", rs2.tokobj[f2[key]].token_class, None))
        for f in flows[:2]:
            val = rs.tokens[f["access_token"]]
            other = rs.tokens[flows[2]["access_token"]]
            muts = mutants(rng, val, other)
            for name, m in rng.sample(muts, min(n_mut, len(muts))):
                creds.append(("mutant-" + name, m, "mutant", "access_token", f))
            for name, m in jwt_forgeries(rs, val, sess.CLIENTS):
                creds.append(("forged-" + name, m, "mutant", "access_token", f))
        # a wrong-class value of one session spliced with the access token of another (JWT: payload / signature swaps are
        # in the mutants; opaque: the halves of two ciphertexts)
        a, b = rs.tokens[flows[0]["access_token"]], rs.tokens[flows[0]["refresh_token"]]
        creds.append(("mutant-splice-access-refresh", a[:len(a) // 2] + b[len(b) // 2:], "mutant", "access_token", flows[0]))
        creds.append(("mutant-splice-refresh-access", b[:len(b) // 2] + a[len(a) // 2:], "mutant", "access_token", flows[0]))
        genuine_values = {rs.tokens[i]: i for i in range(len(rs.tokens))}

        def mutant_key(value, f):
            """an altered value that a non-validating base64 decoder maps to the bytes of the owner's genuine opaque access
            token (characters outside the alphabet, data after the padding) has a signature of its own"""
            try:
                gen = rs.tokens[f["access_token"]]
                if "." not in gen and value != gen and base64.b64decode(value) == base64.b64decode(gen):
                    return "reencoded-bearer-credential"
            except Exception:
                pass
            return "mutant-accepted"

        def judge(where, label, value, kind, cls, f, form, phase, who, rec):
            """the oracle of one offering: who = the client the provider authenticated (None: refused)"""
            if who is None:
                return
            tid = genuine_values.get(value)
            if kind == "genuine" and cls == "access_token" and tid is not None:
                if who != f["client"]:
                    ctx.violation("resolves-elsewhere", "access token of (%s,%s) as bearer credential at %s authenticates client %s"
                                  % (f["user"], f["client"], where, who), rec)
                return
            if kind == "foreign":
                ctx.violation("foreign-accepted", "a %s of another provider instance authenticates client %s as bearer credential (%s) at %s"
                              % (cls, who, form, where), rec)
            elif kind == "mutant":
                ctx.violation(mutant_key(value, f), "%s of an access token authenticates client %s as bearer credential (%s) at %s"
                              % (label, who, form, where), rec)
            else:
                ctx.violation("wrong-class-accepted", "%s (%s) authenticates client %s as bearer credential (%s) at %s, %s a class-agnostic lookup"
                              % (cls, label, who, form, where, phase), rec)

        resolving = [n for n in BEARER_ENDPOINTS if n in rs.ep or n in ("pushed_authorization",)]
        eps = {}
        for n in resolving:
            try:
                eps[n] = rs.server.get_endpoint(n)
            except Exception:
                pass
        for phase in ("before", "after"):
            if phase == "after":
                # the class-agnostic lookups: introspection with the client's secret, the session manager's own
                for label, value, kind, cls, f in creds:
                    present(rs, "introspection", value, f["client"] if f else "client_1")
                    try:
                        si = rs.sm.get_session_info_by_token(value, grant=True)
                        gen_client = si.get("client_id")
                    except Exception:
                        gen_client = None
                    if kind in ("genuine", "foreign") and label not in ("spent_code", "foreign-spent_code"):
                        rec = {"variant": variant, "slot": "generic", "class": cls, "kind": kind, "client": gen_client}
                        model_cases.append(("(%s, (%s, %s, %s), %s, %s, %s)" % (
                            cfg_term, coq_nat(MCLS[cls]), coq_bool(kind == "foreign"), coq_bool(not shared), coq_nat(4),
                            coq_str(f["client"] if f else "client_1"), coq_opt(gen_client, coq_str, "pystr")), rec))
            # ---- client authentication with the value as only credential, at every endpoint that allows bearer methods
            for label, value, kind, cls, f in creds:
                for epn, ep in eps.items():
                    body = {"token": rs.tokens[flows[0]["access_token"]]} if epn in ("token_revocation", "introspection") else {}
                    for form in FORMS:
                        if kind == "mutant" and form == "Header":
                            continue
                        who, how = bearer_auth(ep, value, form, body)
                        if epn == "userinfo":
                            # the stage alone is an observation; the endpoint's verdict is that of the whole request
                            ctx.count("bearer-cred:userinfo-authn-stage:%s:%s" % (kind, "authenticated" if who else "refused"))
                            who, how = userinfo_under(rs, value, form)
                        rec = {"variant": variant, "authn": authn_name, "endpoint": epn, "form": form, "phase": phase, "credential": label,
                               "class": cls, "kind": kind, "authenticated": who, "how": how,
                               "owner": [f["user"], f["client"]] if f else None, "value": value[:200]}
                        ctx.case_seen(rec, True)
                        ctx.count("bearer-cred:%s:%s@%s:%s" % (kind, cls if kind != "mutant" else "mutant", epn, "authenticated" if who else "refused"))
                        judge(epn, label, value, kind, cls, f, form, phase, who, rec)
                        if kind == "genuine" and cls == "access_token" and epn in ("token_revocation", "userinfo") and who is None \
                                and ((form == "body" and "bearer_body" in ep.client_authn_method) or
                                     (form != "body" and "bearer_header" in ep.client_authn_method)):
                            ctx.violation("genuine-refused", "a live access token is refused as bearer credential (%s) at %s: %s" % (form, epn, how), rec)
                        if form == "header" and phase == "before" and kind in ("genuine", "foreign") and label not in ("spent_code", "foreign-spent_code") \
                                and epn in ("token_revocation", "userinfo") and "bearer_header" in ep.client_authn_method:
                            model_cases.append(("(%s, (%s, %s, %s), %s, %s, %s)" % (
                                cfg_term, coq_nat(MCLS[cls]), coq_bool(kind == "foreign"), coq_bool(not shared),
                                coq_nat(3 if epn == "token_revocation" else 2), coq_str(f["client"] if f else "client_1"),
                                coq_opt(who, coq_str, "pystr")), rec))
            # ---- the whole request: revocation of a live access token of ANOTHER session, the value being the only credential
            rev = rs.ep["token_revocation"]
            for label, value, kind, cls, f in creds:
                if kind == "mutant" and not (label.startswith("mutant-splice") or rng.random() < 0.25):
                    continue
                owner_client = f["client"] if f else "client_1"
                for form in ("header", "body"):
                    if (form == "body" and "bearer_body" not in rev.client_authn_method) or (form == "header" and "bearer_header" not in rev.client_authn_method):
                        continue
                    for tclient in (owner_client, [c for c in sess.CLIENTS if c != owner_client][0]):
                        tid = target_for(tclient, f)
                        who, done = revoke_under(rs, value, form, rs.tokens[tid])
                        gone = not live(tid)
                        rec = {"variant": variant, "authn": authn_name, "endpoint": "token_revocation", "whole_request": True, "form": form,
                               "phase": phase, "credential": label, "class": cls, "kind": kind, "authenticated": who, "carried_out": done,
                               "target_client": tclient, "target_revoked": gone, "owner": [f["user"], f["client"]] if f else None,
                               "value": value[:200]}
                        ctx.case_seen(rec, True)
                        ctx.count("bearer-revocation:%s:%s:%s" % (kind, cls if kind != "mutant" else "mutant",
                                                                    "revoked" if gone else ("authenticated" if who else "refused")))
                        judge("token_revocation (whole request)", label, value, kind, cls, f, form, phase, who, rec)
                        ok_cred = kind == "genuine" and cls == "access_token" and value in genuine_values
                        if gone and not ok_cred:
                            ctx.violation("wrong-class-accepted" if kind == "genuine" else mutant_key(value, f) if kind == "mutant" else "foreign-accepted",
                                          "a revocation request whose only credential is %s (%s, %s) revoked the access token of another session of %s"
                                          % (label, cls, form, tclient), rec)
                        if gone and ok_cred and tclient != f["client"]:
                            ctx.violation("resolves-elsewhere", "the access token of client %s as bearer credential revoked a token of client %s"
                                          % (f["client"], tclient), rec)
                        if ok_cred and tclient == f["client"] and not gone:
                            ctx.violation("genuine-refused", "a live access token of %s as bearer credential (%s) does not let it revoke its own token"
                                          % (tclient, form), rec)
        # ---- nothing of the above used anything up: the fresh codes and the refresh tokens still work, the spent codes do not
        for f in flows:
            for slot, key in (("userinfo", "access_token"), ("refresh", "refresh_token"), ("code", "code")):
                v, d = present(rs, slot, rs.tokens[f[key]], f["client"])
                if v != "accepted":
                    ctx.violation("genuine-refused", "%s refused in its slot after having been offered as bearer credential: %s" % (key, d),
                                  {"variant": variant, "authn": authn_name, "class": key})
        # ---- only a LIVE access token speaks for a client: histories that end a genuine access token (revoked through the
        #      session manager / at the revocation endpoint with the client's secret, its grant revoked, the client's session
        #      revoked, the clock past its lifetime), then the token as the only credential - at every endpoint's client
        #      authentication, in a whole userinfo request, and in a whole revocation request aimed at a live refresh token of
        #      another session of the same client
        rev = rs.ep["token_revocation"]
        secret_ok = "client_secret_post" in rev.client_authn_method
        histories = ["revoked-api", "revoked-endpoint" if secret_ok else "revoked-api-recursive", "grant-revoked", "client-session-revoked", "expired"]
        dead = []
        for how in histories:
            c = rng.choice(sess.CLIENTS)
            f = flow(rs, rng.choice(["diana", "dian"]), c)
            tgt = flow(rs, "babs", c)["refresh_token"]
            dead.append((how, f, tgt))
        for how, f, tgt in dead:
            tid = f["access_token"]
            gi = rs.tok_grant[tid]
            if how == "revoked-api":
                out = rs.run(("api_revoke", ("tok", tid), False))
            elif how == "revoked-api-recursive":
                out = rs.run(("api_revoke", ("tok", tid), True))
            elif how == "revoked-endpoint":
                out = rs.run(("revoke_ep", f["client"], ("tok", tid)))
            elif how == "grant-revoked":
                out = rs.run(("revoke_grant", gi))
            elif how == "client-session-revoked":
                out = rs.run(("revoke_client", gi))
            else:
                rs.run(("tick", 700))
                out = rs2.run(("tick", 700))       # the clock installed last is the one the library reads
            if out[0] != "ok":
                ctx.notes.append("bearer history %s could not be run: %r" % (how, out))
                continue
            value = rs.tokens[tid]
            for epn, ep in eps.items():
                body = {"token": rs.tokens[tgt]} if epn in ("token_revocation", "introspection") else {}
                for form in FORMS:
                    who, stage = bearer_auth(ep, value, form, body)
                    if epn == "userinfo":
                        ctx.count("bearer-cred:userinfo-authn-stage:dead:%s" % ("authenticated" if who else "refused"))
                        who, stage = userinfo_under(rs, value, form)
                    rec = {"variant": variant, "authn": authn_name, "endpoint": epn, "form": form, "history": how, "credential": "access_token",
                           "class": "access_token", "kind": "dead", "authenticated": who, "how": stage, "owner": [f["user"], f["client"]],
                           "value": value[:200]}
                    ctx.case_seen(rec, True)
                    ctx.count("bearer-cred:dead:%s@%s:%s" % (how, epn, "authenticated" if who else "refused"))
                    if who is not None:
                        ctx.violation("dead-bearer-credential", "an access token that is %s authenticates client %s as bearer credential (%s) at %s"
                                      % (how, who, form, epn), rec)
            for form in ("header", "body"):
                if (form == "body" and "bearer_body" not in rev.client_authn_method) or (form == "header" and "bearer_header" not in rev.client_authn_method):
                    continue
                if not live(tgt):
                    ctx.notes.append("bearer history %s: the target is not live before the request" % how)
                    continue
                who, done = revoke_under(rs, value, form, rs.tokens[tgt])
                gone = not live(tgt)
                rec = {"variant": variant, "authn": authn_name, "endpoint": "token_revocation", "whole_request": True, "form": form, "history": how,
                       "credential": "access_token", "class": "access_token", "kind": "dead", "authenticated": who, "carried_out": done,
                       "target_client": f["client"], "target_revoked": gone, "owner": [f["user"], f["client"]], "value": value[:200]}
                ctx.case_seen(rec, True)
                ctx.count("bearer-revocation:dead:%s:%s" % (how, "revoked" if gone else ("authenticated" if who else "refused")))
                if who is not None or gone:
                    ctx.violation("dead-bearer-credential", "a revocation request whose only credential is an access token that is %s (%s) %s"
                                  % (how, form, "revoked the refresh token of another session of %s" % f["client"] if gone else
                                     "is taken as authenticated by %s" % who), rec)
    finally:
        rs.close()
        rs2.close()
    ctx.coq_check_cases(["Lib.Base", "Lib.PyStr", "Lib.Crypto", "Model.Lv", "Model.TokenFmt"],
                        "(nat * nat * nat * bool * bool) * (nat * bool * bool) * nat * pystr * option pystr", "chk_slot", model_cases,
                        label="slot_%s" % authn_name.replace("-", "_"))


VARIANTS = [(True, False, None), (False, False, None), (True, True, None), (True, True, "ES256"),
            (True, False, None, "alias", False), (True, True, None, "alias", True)]


def run(ctx):
    rng = ctx.rng
    server = srv.make_server()
    plain_cases(ctx, rng, server, 200 if ctx.quick else 5000)
    info_matrix(ctx, True)
    info_matrix(ctx, False)
    # the last two: the handler slots of one kind reference one kwargs dict (opaque x3; JWT access + JWT refresh)
    for variant in VARIANTS:
        endpoint_oracle(ctx, rng, variant, 2 if ctx.quick else 12, 14 if ctx.quick else 80)
    configs = revocation_authn_configs()
    for i, variant in enumerate(VARIANTS):
        for j, authn in enumerate(configs):
            if ctx.quick and j != i % len(configs):
                continue
            bearer_oracle(ctx, rng, variant, authn, 3 if ctx.quick else 8, 10 if ctx.quick else 60)


def replay(ctx, rp):
    run(ctx)
