"""C04 driver — tokens are unforgeable, class-separated and bound to their session."""
import base64
import copy
import json
import random

import sess
import srv
import c04_claims
from engine import coq_str, coq_list, coq_bool, coq_nat, coq_opt

RULE = ("(a) plaintext correspondence: real opaque tokens of every class are decrypted with the handler's own key and compared with "
        "the model's lv_pack(rnd, class, sid, exp) for hostile session ids; (b) the info() outcome of every (handler x minted class) "
        "cell with shared and with distinct handler keys vs. the model; (c) endpoint oracle on providers with shared keys, distinct keys "
        "and JWT access tokens: every genuine token in every slot (userinfo, introspection, revocation, code slot, refresh slot), tokens "
        "of a second provider instance, and byte-level mutants of every genuine token (truncation, every sampled 1-char substitution / "
        "insertion / deletion, base64 re-encoding and padding games, JWT segment swaps, alg none, foreign signature) in their own slot. "
        "(d) the bearer CLIENT CREDENTIAL: on providers whose revocation / introspection / token / PAR / userinfo endpoints allow the client "
        "authentication methods bearer_header / bearer_body (three method-list configurations, JWT, opaque and alias handler variants), every "
        "genuine token of every class (fresh and spent code, access, refresh, ID Token) of several live sessions and clients, the tokens of a "
        "second provider instance, byte-level mutants and key-confusion forgeries of access tokens are offered as `Authorization: Bearer` / "
        "`authorization: Bearer` / body access_token credential, before and after a class-agnostic lookup of the same value: only an unmodified "
        "access token of this provider authenticates, as the client it was minted for; a full revocation request under a refused credential "
        "leaves its target alone, under an accepted one it acts for that client only; the outcomes of the genuine tokens in the userinfo, bearer "
        "and generic slot are compared with Model/TokenFmt.v slot_client. "
        "(e) REQUESTS IN FLIGHT: the endpoint objects, the session manager and the handlers are shared, long-lived instances; flights of 2-4 "
        "requests that present tokens of different sessions (two users at one client, one user at two clients, distinct grants; own, wrong-class, "
        "altered, other-instance and other-client presentations) at userinfo (header / body), introspection, token revocation and the token "
        "endpoint (refresh, code), on every handler variant, with the calls parse_request / process_request / do_response of the requests "
        "interleaved - every interleaving for two requests at one endpoint, sampled ones for two endpoints and for 3-4 requests; around every "
        "single call the inventory of all tokens of all grants is taken. Oracle: what an answer states (sub, user claims, client_id, scope, "
        "active, the ID Token's sub / aud / nonce / claims, the grant and parent of what was minted, what was revoked / used) belongs to the "
        "session the PRESENTED token was minted for, nothing outside that grant changes, values that are no genuine token of the slot's class "
        "and the authenticated client stay refused, and the whole canonical answer equals the answer the same request gets when it runs alone "
        "(a token the request uses up is replaced by a sibling of the same session); the session each answer stands for is compared with "
        "Model/TokenFmt.v run_tflight / tanswer1. "
        "(f) THE ASKER OF AN INTROSPECTION: the client that introspects a token need not be the client it was minted for. On providers "
        "with resource servers registered as clients - one with enforce_audience_restriction off, two that tokens' audiences list, one that "
        "is never admitted, one that switches the restriction on again where the endpoint's own setting is off - and four ways of admitting "
        "a third party (the asker's registration, the endpoint's setting, a per-client token_args method that adds the client's resource "
        "servers to the audience, tokens minted through the grant with an explicit audience that may even leave the session's own client out), "
        "user claims released at introspection by scope and per client from a user database whose answer depends on the client it is asked "
        "for, opaque and JWT handlers: the access and the refresh token of every live session (two users x two applications among six) is "
        "introspected by its owner, by every resource server and by another application, with and without release of the username, alone "
        "and in flight with the owner's request, with third-party requests for other sessions' tokens, with the other endpoints, and among "
        "wrong-class / altered / other-instance values presented by third parties. Oracle: whoever asks, every statement of an active answer "
        "(client_id, sub, username, scope, aud, exp, iat, iss, token_type, every user claim) is that of the token and the session on record "
        "it was minted for, the answer equals the answer the token's own client gets for the same value (says and body, nothing excepted), "
        "an asker the configured audience rule does not admit gets no active answer; who is answered at all and with which session is "
        "compared with Model/TokenFmt.v may_ask / tprocess (the asker is an argument of the introspection answer there). "
        "(g) WHERE THE HANDLER KEYS COME FROM: histories of 2-3 provider instances built independently in one process - real providers with "
        "sessions, the handlers of handler.factory, DefaultToken objects built directly - whose opaque class handlers and session manager "
        "get their key from the deployment (crypt_conf with a key / a password and a salt) or from the LIBRARY (the documented "
        "`code: {lifetime: 600}`, `kwargs: {}`, a crypt_conf that names only the class / only a password / only a salt / key_defs without "
        "a key file, one configuration object shared by all handlers, session_params absent / empty / without key material; 16 + 6 ways), "
        "other encrypter-building library calls in between, JWT handlers next to opaque ones.  The key material is read off every built "
        "handler and compared with Model/TokenFmt.v ibuild_all under a supply of distinct draws (chk_ifresh); every code, access token and "
        "refresh token of every instance, and every genuine token with its plaintext encrypted anew under every other handler / session "
        "manager key of the history, is offered at the class handlers, TokenHandler.info, the session manager with and without handler_key "
        "and the endpoints, and compared with the model (chk_icross).  Oracle: an instance accepts a value only if it minted it; instances "
        "whose keys the library generated accept nothing of each other and nothing made with each other's keys (control: instances the "
        "harness gave the same keys read each other's tokens at the handler, and still resolve none). "
        "(h) ONE ACCEPTED STRING, TWO READERS: on providers with a JWT handler in the access and / or refresh slot (OIDC and OAuth2, public "
        "and pairwise subjects, one kwargs object shared by both JWT handlers) every token handed out on every minting path of the token "
        "endpoint - code redemption, refresh (also narrowed), RFC 8693 token exchange asked for by the subject token's own client and by "
        "ANOTHER client (exchange session), down-scoped, audience-restricted, refresh token as subject / requested, chains (exchange of an "
        "exchanged token by a third client, by the second again, back by the first; refresh with an exchanged refresh token), "
        "client_credentials - with several users and clients live at once, is read by both readers: the provider (session manager, "
        "introspection by the receiving client) and a resource server that validates the JWT with the provider's public keys. Oracle: the "
        "provider resolves the value to the user and the client it was handed to; introspection names that client and the grant's sub; the "
        "sid claim is a session id of that very (user, client, grant); every claim that names a party or a right (client_id, sub, scope, "
        "aud), where stated, is that of this session, iss / token_class are the provider / the slot's class, and no other live session has "
        "the (client_id, sub) the claims state; the views are compared with Model/TokenClaims.v (grant_of, payload_arguments, "
        "introspection_of: chk_claims). "
        "A case is one presentation; non-trivial when the presented string derives from a genuine token.")
ASSUMPTIONS = ["Fernet is an authenticated encryption and JWS signatures are unforgeable (symbolic model); byte-level mutations are exercised on the real libraries",
               "rndstr(32) / uuid values are fresh",
               "freshness: two different draws from the process's random source (os.urandom, Fernet.generate_key, the key jar's generated "
               "OCT keys) never yield the same key material - hypothesis `draws_distinct sup` of C04_generated_keys_fresh / "
               "C04_independent_instances_refuse / C04_other_instance_cannot_forge; that the library draws anew for every handler of every "
               "instance it builds is checked on every run (chk_ifresh on the key material read off independently built real instances)"]

CLASSES = ["authorization_code", "access_token", "refresh_token"]


def plain_cases(ctx, rng, server, n):
    from idpyoidc.server.util import lv_unpack
    th = server.context.session_manager.token_handler
    cases = []
    alpha = ["a", ":", ";", "1", "3", " ", "\n", "å", "=", "/", "+", "x;;y", "12:", "0:"]
    for i in range(n):
        cls = rng.choice(CLASSES)
        sid = "".join(rng.choice(alpha) for _ in range(rng.randint(0, 12)))
        h = th.handler[cls]
        tok = h(session_id=sid)
        plain = h.crypt.decrypt(base64.b64decode(tok)).decode()
        parts = lv_unpack(plain)
        rec = {"class": cls, "sid": sid, "fields": parts}
        ctx.case_seen(rec, True)
        if len(parts) != 4 or parts[1] != cls or parts[2] != sid:
            ctx.violation("plaintext-binding", "token minted for (%s, %r) carries %r" % (cls, sid, parts), rec)
        info = h.info(tok)
        if info["sid"] != sid:
            ctx.violation("sid-resolution", "info() of a token minted for sid %r gives %r" % (sid, info["sid"]), rec)
        cases.append(("(%s, %s, %s, %s, %s)" % (coq_str(parts[0]), coq_str(cls), coq_str(sid), coq_str(parts[3]), coq_str(plain)), rec))
    ctx.coq_check_cases(["Lib.Base", "Lib.PyStr", "Lib.Crypto", "Model.Lv", "Model.TokenFmt"],
                        "pystr * pystr * pystr * pystr * pystr", "chk_plain", cases, shard=300, label="plain")


def info_matrix(ctx, shared):
    from idpyoidc.server.token.exception import UnknownToken, WrongTokenClass
    server = srv.make_server(pinned=shared)
    th = server.context.session_manager.token_handler
    cases = []
    for hi, hc in enumerate(CLASSES):
        for mi, mc in enumerate(CLASSES):
            tok = th.handler[mc](session_id="sid")
            try:
                r = th.handler[hc].info(tok)
                code = 0 if r.get("sid") else 1
            except WrongTokenClass:
                code = 3
            except UnknownToken:
                code = 2
            except KeyError:
                code = 5
            rec = {"handler": hc, "minted": mc, "shared_key": shared, "outcome": code}
            ctx.case_seen(rec, True)
            if hc != mc and code == 0:
                ctx.violation("class-confusion", "handler %s accepts a token minted as %s" % (hc, mc), rec)
            if hc == mc and code != 0:
                ctx.violation("own-token-refused", "handler %s refuses its own token (%d)" % (hc, code), rec)
            cases.append(("(%s, %s, %s, %s)" % (coq_nat(hi), coq_nat(mi), coq_bool(shared), coq_nat(code)), rec))
    ctx.coq_check_cases(["Lib.Base", "Lib.PyStr", "Lib.Crypto", "Model.Lv", "Model.TokenFmt"],
                        "nat * nat * bool * nat", "chk_info", cases, shard=50, label="info_%s" % ("shared" if shared else "distinct"))


def mutants(rng, tok, other):
    """byte-level variants of a genuine token string"""
    out = []
    n = len(tok)
    out += [("truncate-%d" % k, tok[:k]) for k in (0, 1, n // 2, n - 2, n - 1)]
    out += [("append", tok + "A"), ("append-eq", tok + "="), ("prepend", "A" + tok), ("space", " " + tok), ("newline", tok + "\n")]
    for _ in range(12):
        i = rng.randrange(n)
        c = rng.choice("ABCDEFGHabcdefgh0123456789-_+/")
        if c != tok[i]:
            out.append(("subst-%d" % i, tok[:i] + c + tok[i + 1:]))
        out.append(("delete-%d" % i, tok[:i] + tok[i + 1:]))
        out.append(("insert-%d" % i, tok[:i] + c + tok[i:]))
    if "." in tok:
        h, p, s = tok.split(".")
        oh, op, os_ = other.split(".") if other and other.count(".") == 2 else (h, p, s)
        none_h = base64.urlsafe_b64encode(json.dumps({"alg": "none"}).encode()).decode().rstrip("=")
        out += [("swap-sig", ".".join([h, p, os_])), ("swap-payload", ".".join([h, op, s])), ("alg-none", ".".join([none_h, p, ""])),
                ("alg-none-sig", ".".join([none_h, p, s])), ("no-sig", ".".join([h, p, ""])), ("two-parts", ".".join([h, p]))]
    else:
        try:
            raw = base64.b64decode(tok)
            out += [("reencode-urlsafe", base64.urlsafe_b64encode(raw).decode()), ("reencode-nopad", tok.rstrip("=")),
                    ("inner-truncated", base64.b64encode(raw[:-1]).decode()), ("inner-flipped", base64.b64encode(raw[:-1] + bytes([raw[-1] ^ 1])).decode()),
                    ("double-b64", base64.b64encode(tok.encode()).decode())]
        except Exception:
            pass
    return [(k, v) for k, v in out if v != tok]


def jwt_forgeries(rs, tok, clients):
    """re-signed variants of a genuine JWT token: keys the provider's key jar holds for OTHER issuers (the
    client secrets that registration stores under the client id), a fresh foreign key, the provider's own
    public key used as an HMAC secret; iss rewritten or not, class / expiry rewritten"""
    from cryptojwt.jws.jws import JWS
    from cryptojwt.jwk.hmac import SYMKey
    from cryptojwt.jwk.rsa import new_rsa_key
    out = []
    if tok.count(".") != 2:
        return out
    h, p, s = tok.split(".")
    try:
        pay = json.loads(base64.urlsafe_b64decode(p + "=" * (-len(p) % 4)))
    except Exception:
        return out
    def sign(payload, key, alg):
        return JWS(json.dumps(payload), alg=alg).sign_compact([key])
    for c in clients[:2]:
        key = SYMKey(key=rs.secret(c), use="sig")
        for alg in ("HS256", "HS512"):
            out.append(("resign-%s-client-secret-iss-kept" % alg, sign(pay, key, alg)))
            q = dict(pay, iss=c)
            out.append(("resign-%s-client-secret-iss-client" % alg, sign(q, key, alg)))
        q = dict(pay, iss=c, exp=pay.get("exp", 0) + 10 ** 7)
        out.append(("resign-HS256-client-secret-iss-client-exp", sign(q, key, "HS256")))
        for cls in ("authorization_code", "access_token", "refresh_token"):
            if pay.get("token_class") not in (None, cls):
                out.append(("resign-HS256-client-secret-iss-client-class", sign(dict(pay, iss=c, token_class=cls), key, "HS256")))
    # a key a client REGISTERED (registration with jwks imports it into the provider's key jar under the client id)
    cks = getattr(rs, "_c04_client_keys", None)
    if cks is None:
        from cryptojwt.jwk.ec import new_ec_key
        cks = rs._c04_client_keys = {"RS256": new_rsa_key(kid="c04-client-rsa"), "ES256": new_ec_key("P-256", kid="c04-client-ec")}
        rs.server.keyjar.import_jwks({"keys": [k.serialize(private=False) for k in cks.values()]}, clients[0])
    try:
        own_alg = json.loads(base64.urlsafe_b64decode(h + "=" * (-len(h) % 4))).get("alg")
    except Exception:
        own_alg = None
    for alg, ck in cks.items():
        tag = "same-alg" if alg == own_alg else "other-alg"
        out.append(("resign-registered-client-key-%s-iss-client" % tag, sign(dict(pay, iss=clients[0]), ck, alg)))
        out.append(("resign-registered-client-key-%s-iss-kept" % tag, sign(pay, ck, alg)))
        out.append(("resign-registered-client-key-%s-iss-client-exp" % tag, sign(dict(pay, iss=clients[0], exp=pay.get("exp", 0) + 10 ** 7), ck, alg)))
        for cls in ("authorization_code", "access_token", "refresh_token"):
            if pay.get("token_class") not in (None, cls):
                out.append(("resign-registered-client-key-%s-iss-client-class" % tag,
                            sign(dict(pay, iss=clients[0], token_class=cls), ck, alg)))
    fk = new_rsa_key()
    out.append(("resign-RS256-fresh-key", sign(pay, fk, "RS256")))
    out.append(("resign-RS256-fresh-key-iss-client", sign(dict(pay, iss=clients[0]), fk, "RS256")))
    try:
        pub = rs.server.keyjar.export_jwks_as_json(issuer_id="")
        out.append(("resign-HS256-own-public-jwks-as-secret", sign(pay, SYMKey(key=pub, use="sig"), "HS256")))
    except Exception:
        pass
    return [(k, v) for k, v in out if v != tok]


ALG_CODE = {"RS256": "(AlgAsym 0 0)", "RS384": "(AlgAsym 0 1)", "RS512": "(AlgAsym 0 2)", "PS256": "(AlgAsym 0 3)",
            "ES256": "(AlgAsym 1 0)", "ES384": "(AlgAsym 2 0)", "HS256": "(AlgHS 0)", "HS384": "(AlgHS 1)", "HS512": "(AlgHS 2)",
            "none": "AlgNone"}


def key_kind(k):
    n = type(k).__name__
    if n == "SYMKey":
        return "KSym"
    if n == "RSAKey":
        return "(KAsym 0)"
    if n == "ECKey":
        return "(KAsym %d)" % {"P-256": 1, "P-384": 2, "P-521": 3}.get(getattr(k, "crv", ""), 9)
    return "(KAsym 8)"


def key_ident(k):
    """the same number for a private key and the public key the jar holds for it"""
    if type(k).__name__ == "SYMKey":
        import hashlib
        raw = k.key if isinstance(k.key, bytes) else str(k.key).encode()
        return "sym:" + hashlib.sha256(raw).hexdigest()
    return "asym:" + k.thumbprint("SHA-256").decode()


def jwt_key_cases(ctx, rs, tok, clients, cases):
    """Model/JwtKeys.v against JWTToken.get_payload: a genuine token and re-signed variants (who signs, under which
    algorithm, naming whom as issuer) presented to every JWT class handler of the real provider"""
    from cryptojwt.jws.jws import JWS
    from cryptojwt.jwk.hmac import SYMKey
    from cryptojwt.jwk.rsa import new_rsa_key
    from cryptojwt.jwk.ec import new_ec_key
    if tok.count(".") != 2:
        return
    h, p, _ = tok.split(".")
    pay = json.loads(base64.urlsafe_b64decode(p + "=" * (-len(p) % 4)))
    hdr = json.loads(base64.urlsafe_b64decode(h + "=" * (-len(h) % 4)))
    kj = rs.server.keyjar
    cks = getattr(rs, "_c04_client_keys", None)
    if cks is None:
        cks = rs._c04_client_keys = {"RS256": new_rsa_key(kid="c04-client-rsa"), "ES256": new_ec_key("P-256", kid="c04-client-ec")}
        kj.import_jwks({"keys": [k.serialize(private=False) for k in cks.values()]}, clients[0])
    num = {}

    def kn(k):
        return num.setdefault(key_ident(k), len(num))
    jar = []
    for owner in kj.owners():
        for k in kj.get_issuer_keys(owner):
            jar.append("mkJarkey %s %d %s" % (coq_str(owner), kn(k), key_kind(k)))
    own = {("RS256" if type(k).__name__ == "RSAKey" else "ES256"): k for k in kj.get_issuer_keys("") if k.use in ("sig", "", None)}
    signers = [("provider-%s" % a, k, a) for a, k in own.items()]
    signers += [("client-secret-%s" % a, SYMKey(key=rs.secret(clients[1]), use="sig"), a) for a in ("HS256", "HS512")]
    signers += [("client-registered-%s" % a, k, a) for a, k in cks.items()]
    signers += [("fresh-ES256", new_ec_key("P-256"), "ES256"), ("fresh-RS256", new_rsa_key(), "RS256")]
    issuers = [("kept", pay.get("iss")), ("client-with-keys", clients[0]), ("client-with-secret", clients[1]), ("absent", None), ("own-keys-owner", "")]
    th = rs.sm.token_handler
    for sname, key, alg in signers:
        for iname, iss in issuers:
            q = dict(pay)
            if iss is None:
                q.pop("iss", None)
            else:
                q["iss"] = iss
            try:
                value = JWS(json.dumps(q), alg=alg).sign_compact([key])
            except Exception as e:
                ctx.notes.append("could not sign %s/%s: %r" % (sname, iname, e))
                continue
            body = "(%s %d (Atom (PS \"payload\")))" % ("Mac" if alg.startswith("HS") else "Sig", kn(key))
            jt = "mkJtok %s %s %s" % (ALG_CODE[alg], coq_opt(iss, coq_str, "pystr"), body)
            for hk, hd in th.handler.items():
                if type(hd).__name__ != "JWTToken" or hd.alg not in ALG_CODE:
                    continue
                try:
                    hd.get_payload(value)
                    acc = True
                except Exception:
                    acc = False
                rec = {"jwt_keys": True, "handler": hk, "handler_alg": hd.alg, "signer": sname, "alg": alg, "iss": iname, "accepted": acc}
                ctx.case_seen(rec, True)
                ctx.count("jwt-keys:%s:iss-%s:%s" % (sname, iname, "accepted" if acc else "refused"))
                if acc and not (sname.startswith("provider-") and iname == "kept"):
                    ctx.violation("mutant-accepted", "a token signed by %s (alg %s) naming issuer %s verifies at the %s handler" % (sname, alg, iname, hk), rec)
                cases.append(("(%s, %s, %s, %s, %s)" % (coq_list(jar, "jarkey"), coq_str(hd.issuer), ALG_CODE[hd.alg], jt, coq_bool(acc)), rec))


def present(rs, slot, value, client):
    """present a raw string in a slot of the real endpoints; returns ('accepted', detail) or ('refused', why)"""
    try:
        if slot == "userinfo":
            ep = rs.ep["userinfo"]
            p = ep.parse_request({}, http_info={"headers": {"authorization": "Bearer " + value}})
            if "error" in p:
                return "refused", p["error"]
            r = ep.process_request(p)
            ra = r.get("response_args", r) if isinstance(r, dict) else r
            return ("refused", ra["error"]) if "error" in ra else ("accepted", {"sub": ra.get("sub"), "client": r.get("client_id")})
        if slot == "introspection":
            ep = rs.ep["introspection"]
            p = ep.parse_request(rs._token_req(client, {"token": value}))
            if "error" in p:
                return "refused", p["error"]
            ra = ep.process_request(p)["response_args"]
            return ("accepted", {"sub": ra.get("sub"), "client": ra.get("client_id")}) if ra.get("active") else ("refused", "inactive")
        if slot == "code":
            ep = rs.ep["token"]
            p = ep.parse_request(rs._token_req(client, {"grant_type": "authorization_code", "code": value,
                                                        "redirect_uri": "https://%s.example.com/cb" % client}))
            if "error" in p:
                return "refused", p["error"]
            r = ep.process_request(p)
            ra = r.get("response_args", r) if isinstance(r, dict) else r
            return ("refused", ra["error"]) if "error" in ra else ("accepted", {"tokens": sorted(k for k in ra.keys() if k.endswith("token"))})
        if slot == "refresh":
            ep = rs.ep["token"]
            p = ep.parse_request(rs._token_req(client, {"grant_type": "refresh_token", "refresh_token": value}))
            if "error" in p:
                return "refused", p["error"]
            r = ep.process_request(p)
            ra = r.get("response_args", r) if isinstance(r, dict) else r
            return ("refused", ra["error"]) if "error" in ra else ("accepted", {"tokens": sorted(k for k in ra.keys() if k.endswith("token"))})
    except Exception as e:      # a crash is a refusal
        return "refused", "exc:" + type(e).__name__
    raise ValueError(slot)


SLOT_OF = {"access_token": ["userinfo", "introspection"], "refresh_token": ["refresh", "introspection"], "authorization_code": ["code"],
           "id_token": []}


def endpoint_oracle(ctx, rng, variant, n_flows, n_mut):
    shared, jwt, idt_alg = variant[:3]
    alias = len(variant) > 3 and variant[3] == "alias"
    jwt_refresh = len(variant) > 4 and variant[4]
    old = srv.make_server

    def mk(*a, **k):
        k.setdefault("pinned", shared)
        return old(*a, **k)
    srv.make_server = mk
    try:
        over = {c: {"id_token_signed_response_alg": idt_alg} for c in sess.CLIENTS} if idt_alg else None
        rs = sess.RealSession(oidc=True, jwt_access=jwt, client_over=over, alias_kwargs=alias, jwt_refresh=jwt_refresh)
        rs2 = sess.RealSession(oidc=True, jwt_access=jwt, client_over=over, alias_kwargs=alias, jwt_refresh=jwt_refresh)      # a second instance; with pinned keys it shares them
    finally:
        srv.make_server = old
    try:
        flows = []
        for i in range(n_flows):
            u, c = rng.choice(sess.USERS), rng.choice(sess.CLIENTS)
            o = rs.run(("authz", u, c, ["openid", "email", "offline_access"]))
            code = o[1][0]
            spare = rs.run(("authz", u, c, ["openid", "email", "offline_access"]))[1][0]     # an unredeemed code of the same session pair
            rs.run(("tparse", c, ("tok", code), "same"))
            p = rs.run(("proc", len(rs.parsed) - 1, None))
            flows.append({"user": u, "client": c, "sub": rs.grants[rs.tok_grant[code]][1].sub, "code": spare,
                          "access_token": p[1]["access_token"], "refresh_token": p[1]["refresh_token"], "id_token": p[1]["id_token"]})
        # tokens of the other provider instance
        o2 = rs2.run(("authz", "diana", "client_1", ["openid", "offline_access"]))
        rs2.run(("tparse", "client_1", ("tok", o2[1][0]), "same"))
        p2 = rs2.run(("proc", 0, None))
        foreign = {"access_token": rs2.tokens[p2[1]["access_token"]], "refresh_token": rs2.tokens[p2[1]["refresh_token"]]}
        th = rs.sm.token_handler
        if jwt:
            jk = []
            jwt_key_cases(ctx, rs, rs.tokens[flows[0]["access_token"]], sess.CLIENTS, jk)
            ctx.coq_check_cases(["Lib.Base", "Lib.PyStr", "Lib.Crypto", "Model.JwtKeys"], "jar * pystr * jalg * jtok * bool", "chk_jwt_keys", jk, label="jwtkeys")
        for f in flows:
            # ---- handler level: no handler may resolve a token of another class (ID Tokens included)
            for cls in ("access_token", "refresh_token", "id_token", "code"):
                tid = f[cls]
                real_cls = rs.tokobj[tid].token_class
                for hk in ("authorization_code", "access_token", "refresh_token"):
                    try:
                        info = th.handler[hk].info(rs.tokens[tid])
                        ok = bool(info.get("sid"))
                    except Exception:
                        ok = False
                    rec = {"variant": variant, "handler": hk, "token_class": real_cls, "resolved": ok}
                    ctx.case_seen(rec, True)
                    if ok and hk != real_cls:
                        ctx.violation("class-confusion", "handler %s resolves a %s (id_token alg %s, jwt access %s)" % (hk, real_cls, idt_alg, jwt), rec)
                # the token itself as bearer credential at the revocation endpoint
                if real_cls != "access_token":
                    try:
                        ep = rs.server.get_endpoint("token_revocation")
                        saved = ep.client_authn_method
                        ep.client_authn_method = ["bearer_header"]       # the endpoint holds method names
                        try:
                            p = ep.parse_request({"token": rs.tokens[f["access_token"]]},
                                                 http_info={"headers": {"authorization": "Bearer " + rs.tokens[tid]}})
                            accepted = "error" not in p
                        finally:
                            ep.client_authn_method = saved
                    except Exception:
                        accepted = False
                    if accepted:
                        ctx.violation("wrong-class-accepted", "%s accepted as bearer credential at the revocation endpoint" % real_cls,
                                      {"variant": variant, "class": real_cls, "endpoint": "token_revocation", "form": "header",
                                       "credential": rs.tokens[tid][:200], "owner": [f["user"], f["client"]]})
            # ---- every genuine token in every slot
            for cls in ("access_token", "refresh_token", "id_token", "code"):
                tid = f[cls]
                real_cls = rs.tokobj[tid].token_class
                val = rs.tokens[tid]
                for slot in ("userinfo", "introspection", "refresh", "code"):
                    if slot in ("refresh", "code") and real_cls in ("refresh_token", "authorization_code") and slot in SLOT_OF.get(real_cls, []):
                        continue        # using it up is done last, below
                    verdict, detail = present(rs, slot, val, f["client"])
                    rec = {"variant": variant, "class": real_cls, "slot": slot, "verdict": verdict, "detail": detail}
                    ctx.case_seen(rec, True)
                    ctx.count("genuine:%s@%s:%s" % (real_cls, slot, verdict))
                    right = slot in SLOT_OF.get(real_cls, [])
                    if verdict == "accepted" and not right:
                        ctx.violation("wrong-class-accepted", "%s accepted in the %s slot" % (real_cls, slot), rec)
                    if verdict == "refused" and right:
                        ctx.violation("genuine-refused", "%s refused in its own slot %s: %s" % (real_cls, slot, detail), rec)
                    if verdict == "accepted" and slot in ("userinfo", "introspection"):
                        if detail.get("sub") != f["sub"] or (detail.get("client") not in (None, f["client"])):
                            ctx.violation("resolves-elsewhere", "token of (%s,%s) resolved to %r" % (f["user"], f["client"], detail), rec)
            # ---- history: once a value has been looked up without a class slot (introspection, revocation do that),
            #      it must still be refused in every other class slot - at the session manager as the endpoints ask it,
            #      and as bearer credential
            for cls in ("access_token", "refresh_token", "id_token", "code"):
                tid = f[cls]
                real_cls = rs.tokobj[tid].token_class
                val = rs.tokens[tid]
                present(rs, "introspection", val, f["client"])
                try:
                    rs.sm.get_session_info_by_token(val, grant=True)
                except Exception:
                    pass
                for hk in ("authorization_code", "access_token", "refresh_token"):
                    if hk == real_cls:
                        continue
                    try:
                        si = rs.sm.get_session_info_by_token(val, grant=True, handler_key=hk)
                        ok = bool(si.get("grant"))
                    except Exception:
                        ok = False
                    rec = {"variant": variant, "token_class": real_cls, "asked_as": hk, "after_generic_lookup": True, "resolved": ok}
                    ctx.case_seen(rec, True)
                    ctx.count("after-lookup:%s-as-%s:%s" % (real_cls, hk, "resolved" if ok else "refused"))
                    if ok:
                        ctx.violation("wrong-class-accepted", "after an introspection of the value, the session manager resolves a %s asked for as %s"
                                      % (real_cls, hk), rec)
                for slot in ("userinfo", "refresh", "code"):
                    if slot in SLOT_OF.get(real_cls, []):
                        continue
                    verdict, detail = present(rs, slot, val, f["client"])
                    ctx.case_seen({"variant": variant, "class": real_cls, "slot": slot, "second_pass": True, "verdict": verdict}, True)
                    if verdict == "accepted":
                        ctx.violation("wrong-class-accepted", "%s accepted in the %s slot after it had been introspected" % (real_cls, slot),
                                      {"variant": variant, "class": real_cls, "slot": slot})
            # ---- mutants in their own slot
            for cls in ("access_token", "refresh_token", "code"):
                tid = f[cls]
                real_cls = rs.tokobj[tid].token_class
                val = rs.tokens[tid]
                other = rs.tokens[flows[0][cls]] if flows[0] is not f else None
                muts = mutants(rng, val, other)
                forged = jwt_forgeries(rs, val, sess.CLIENTS)
                for name, m in forged:
                    # handler level: a forged value must not resolve at any class handler, nor at the session manager
                    for hk in ("authorization_code", "access_token", "refresh_token"):
                        try:
                            info = th.handler[hk].info(m)
                            ok = bool(info.get("sid"))
                        except Exception:
                            ok = False
                        rec = {"variant": variant, "class": real_cls, "handler": hk, "mutation": name, "resolved": ok}
                        ctx.case_seen(rec, True)
                        ctx.count("forged:%s:%s" % (name, "resolved" if ok else "refused"))
                        if ok:
                            ctx.violation("mutant-accepted", "%s forgery of a %s resolves at handler %s to session %s"
                                          % (name, real_cls, hk, info.get("sid", "")[:20]), rec)
                    for hk in ("authorization_code", "access_token", "refresh_token"):      # the way the endpoints call it
                        try:
                            si = rs.sm.get_session_info_by_token(m, grant=True, handler_key=hk)
                            ok = bool(si.get("grant"))
                        except Exception:
                            ok = False
                        if ok:
                            ctx.violation("mutant-accepted", "%s forgery of a %s resolves to a session at the session manager (handler %s)"
                                          % (name, real_cls, hk), {"variant": variant, "class": real_cls, "mutation": name})
                    try:        # observation only: the generic lookup also asks the ID Token handler, which is outside C04's three classes
                        si = rs.sm.get_session_info_by_token(m, grant=True)
                        ctx.count("forged-generic-lookup:%s:%s" % (name, "resolves" if si.get("grant") else "refused"))
                    except Exception:
                        ctx.count("forged-generic-lookup:%s:refused" % name)
                for name, m in rng.sample(muts, min(n_mut, len(muts))) + forged:
                    for slot in SLOT_OF[real_cls]:
                        verdict, detail = present(rs, slot, m, f["client"])
                        rec = {"variant": variant, "class": real_cls, "slot": slot, "mutation": name, "verdict": verdict}
                        ctx.case_seen(rec, True)
                        ctx.count("mutant:%s:%s" % (name.split("-")[0], verdict))
                        if verdict == "accepted":
                            ctx.violation("mutant-accepted", "%s mutant (%s) of a %s accepted in slot %s" % (name, m[:40], real_cls, slot), rec)
            # ---- another instance's tokens
            for cls, val in foreign.items():
                for slot in SLOT_OF[cls]:
                    verdict, detail = present(rs, slot, val, f["client"])
                    rec = {"variant": variant, "class": cls, "slot": slot, "foreign_instance": True, "verdict": verdict, "shared_keys": shared}
                    ctx.case_seen(rec, True)
                    if verdict == "accepted":
                        # with keys shared between instances the token decrypts; it must still not resolve to a session of this instance
                        ctx.violation("foreign-accepted", "a %s minted by another provider instance accepted in slot %s" % (cls, slot), rec)
            # ---- finally the genuine refresh token and code work in their own slot, once
            v, d = present(rs, "refresh", rs.tokens[f["refresh_token"]], f["client"])
            if v != "accepted":
                ctx.violation("genuine-refused", "genuine refresh token refused: %s" % (d,), {"variant": variant})
            v, d = present(rs, "code", rs.tokens[f["code"]], f["client"])
            if v != "accepted":
                ctx.violation("genuine-refused", "genuine code refused: %s" % (d,), {"variant": variant})
    finally:
        rs.close()
        rs2.close()


# ---------------------------------------------------------------------------------------------------------------
# the bearer CLIENT CREDENTIAL slot: `Authorization: Bearer <value>` (bearer_header) and body `access_token`
# (bearer_body) as client authentication at the endpoints that allow those methods
MIXED_AUTHN = ["client_secret_post", "client_secret_basic", "bearer_header", "bearer_body"]
BEARER_ENDPOINTS = ["token_revocation", "introspection", "token", "pushed_authorization", "userinfo"]
FORMS = ["header", "Header", "body"]
MCLS = {"authorization_code": 0, "access_token": 1, "refresh_token": 2, "id_token": 3}


def revocation_authn_configs():
    """the method lists the revocation endpoint is configured with, in turn: bearer next to the secret methods,
    bearer only, and the list the endpoint class itself declares as its default"""
    out = [("mixed", list(MIXED_AUTHN)), ("bearer-only", ["bearer_header", "bearer_body"])]
    try:
        from idpyoidc.server.oauth2.token_revocation import TokenRevocation
        dflt = list(TokenRevocation.default_capabilities["client_authn_method"])
        if any(m.startswith("bearer") for m in dflt):
            out.append(("class-default", dflt))
    except Exception:
        pass
    return out


def bearer_auth(ep, value, form, body=None):
    """client authentication of the real endpoint with `value` as bearer credential.
    -> (client_id or None, method or detail)"""
    req = dict(body or {})
    http_info = {}
    if form == "body":
        req["access_token"] = value
    else:
        http_info = {"headers": {("authorization" if form == "header" else "Authorization"): "Bearer " + value}}
    try:
        ai = ep.client_authentication(ep.request_cls(**req), http_info, endpoint=ep)
    except Exception as e:
        return None, "exc:" + type(e).__name__
    cid = ai.get("client_id") if isinstance(ai, dict) else None
    if cid and ai.get("method") not in (None, "none", "public"):
        return cid, ai.get("method")
    return None, "no-client"


def userinfo_under(rs, value, form):
    """a complete userinfo request with `value` as the bearer token (header or body access_token): the endpoint's answer
    counts, not the client-authentication stage alone (process_request looks the value up again).
    -> (client the response is for or None, detail)"""
    ep = rs.ep["userinfo"]
    req, http_info = {}, {}
    if form == "body":
        req["access_token"] = value
    else:
        http_info = {"headers": {("authorization" if form == "header" else "Authorization"): "Bearer " + value}}
    try:
        p = ep.parse_request(req, http_info=http_info)
        if "error" in p:
            return None, "parse:" + str(p["error"])
        r = ep.process_request(p)
        ra = r.get("response_args", r) if isinstance(r, dict) else r
        if "error" in ra or not ra.get("sub"):
            return None, "process:" + str(ra.get("error"))
        return (r.get("client_id") or p.get("client_id")), "userinfo-response"
    except Exception as e:
        return None, "exc:" + type(e).__name__


def revoke_under(rs, value, form, target):
    """a complete revocation request (parse_request, process_request) whose only credential is `value`.
    -> (authenticated client or None, carried_out)"""
    ep = rs.ep["token_revocation"]
    req = {"token": target}
    http_info = {}
    if form == "body":
        req["access_token"] = value
    else:
        http_info = {"headers": {("authorization" if form == "header" else "Authorization"): "Bearer " + value}}
    try:
        p = ep.parse_request(req, http_info=http_info)
        if "error" in p:
            return None, False
        who = p.get("client_id") if p.get("authenticated") else None
        r = ep.process_request(p)
        ra = r.get("response_args", r) if isinstance(r, dict) else r
        return who, "error" not in ra
    except Exception:
        return None, False


def bearer_oracle(ctx, rng, variant, authn, n_flows, n_mut):
    shared, jwt, idt_alg = variant[:3]
    alias = len(variant) > 3 and variant[3] == "alias"
    jwt_refresh = len(variant) > 4 and variant[4]
    authn_name, authn_list = authn
    old_mk, old_conf = srv.make_server, srv.op_conf

    def mk(*a, **k):
        k.setdefault("pinned", shared)
        return old_mk(*a, **k)

    def conf_with_bearer(*a, **k):
        conf = old_conf(*a, **k)
        for name, spec in conf["endpoint"].items():
            if name not in BEARER_ENDPOINTS:
                continue
            cur = spec["kwargs"].get("client_authn_method") or []
            if name == "token_revocation":
                spec["kwargs"]["client_authn_method"] = list(authn_list)
            else:
                spec["kwargs"]["client_authn_method"] = list(cur) + [m for m in ("bearer_header", "bearer_body") if m not in cur]
        return conf
    srv.make_server, srv.op_conf = mk, conf_with_bearer
    try:
        over = {c: {"id_token_signed_response_alg": idt_alg} for c in sess.CLIENTS} if idt_alg else None
        rs = sess.RealSession(oidc=True, jwt_access=jwt, client_over=over, alias_kwargs=alias, jwt_refresh=jwt_refresh)
        rs2 = sess.RealSession(oidc=True, jwt_access=jwt, client_over=over, alias_kwargs=alias, jwt_refresh=jwt_refresh)
    finally:
        srv.make_server, srv.op_conf = old_mk, old_conf
    cfg_term = "(%s, %s, %s, %s, %s)" % (coq_nat(0), coq_nat(1 if jwt else 0), coq_nat(1 if jwt_refresh else 0), coq_bool(not shared),
                                          coq_bool((idt_alg or "RS256") != "ES256"))
    model_cases = []
    try:
        def flow(r, u, c):
            r.find_new_grants()
            r.harvest()        # what direct presentations minted meanwhile is registered first: o[1] is then the new code alone
            o = r.run(("authz", u, c, ["openid", "email", "offline_access"]))
            code = o[1][0]
            spare = r.run(("authz", u, c, ["openid", "email", "offline_access"]))[1][0]
            tp = r.run(("tparse", c, ("tok", code), "same"))
            p = r.run(("proc", len(r.parsed) - 1, None))
            if p[0] != "ok":
                raise RuntimeError("flow of (%s, %s) did not complete: %r after %r / %r / %r" % (u, c, p, o, tp, r.parsed[-1]))
            return {"user": u, "client": c, "spent_code": code, "code": spare, "access_token": p[1]["access_token"],
                    "refresh_token": p[1]["refresh_token"], "id_token": p[1]["id_token"]}
        # many sessions live at once: two users at one client, one user at two clients, then random ones
        pairs = [("diana", "client_1"), ("babs", "client_1"), ("diana", "client_2")]
        pairs += [(rng.choice(sess.USERS), rng.choice(sess.CLIENTS)) for _ in range(max(0, n_flows - len(pairs)))]
        flows = [flow(rs, u, c) for u, c in pairs]
        f2 = flow(rs2, "diana", "client_1")
        targets = {}

        def live(tid):
            t = rs.tokobj[tid]
            return (not t.revoked) and t.is_active()

        def target_for(client, not_flow=None):
            """a live access token of ANOTHER session of that client"""
            tid = targets.get(client)
            if tid is None or not live(tid):
                u = rng.choice([x for x in sess.USERS if not_flow is None or x != not_flow["user"]])
                tid = targets[client] = flow(rs, u, client)["access_token"]
            return tid

        # ---- the credentials
        creds = []       # (label, value, kind, class, owner flow)
        for f in flows:
            for key in ("spent_code", "code", "access_token", "refresh_token", "id_token"):
                tid = f[key]
                creds.append((key, rs.tokens[tid], "genuine", rs.tokobj[tid].token_class, f))
        for key in ("spent_code", "code", "access_token", "refresh_token", "id_token"):
            creds.append(("foreign-" + key, rs2.tokens[f2[key]], "foreign", rs2.tokobj[f2[key]].token_class, None))
        for f in flows[:2]:
            val = rs.tokens[f["access_token"]]
            other = rs.tokens[flows[2]["access_token"]]
            muts = mutants(rng, val, other)
            for name, m in rng.sample(muts, min(n_mut, len(muts))):
                creds.append(("mutant-" + name, m, "mutant", "access_token", f))
            for name, m in jwt_forgeries(rs, val, sess.CLIENTS):
                creds.append(("forged-" + name, m, "mutant", "access_token", f))
        # a wrong-class value of one session spliced with the access token of another (JWT: payload / signature swaps are
        # in the mutants; opaque: the halves of two ciphertexts)
        a, b = rs.tokens[flows[0]["access_token"]], rs.tokens[flows[0]["refresh_token"]]
        creds.append(("mutant-splice-access-refresh", a[:len(a) // 2] + b[len(b) // 2:], "mutant", "access_token", flows[0]))
        creds.append(("mutant-splice-refresh-access", b[:len(b) // 2] + a[len(a) // 2:], "mutant", "access_token", flows[0]))
        genuine_values = {rs.tokens[i]: i for i in range(len(rs.tokens))}

        def mutant_key(value, f):
            """an altered value that a non-validating base64 decoder maps to the bytes of the owner's genuine opaque access
            token (characters outside the alphabet, data after the padding) has a signature of its own"""
            try:
                gen = rs.tokens[f["access_token"]]
                if "." not in gen and value != gen and base64.b64decode(value) == base64.b64decode(gen):
                    return "reencoded-bearer-credential"
            except Exception:
                pass
            return "mutant-accepted"

        def judge(where, label, value, kind, cls, f, form, phase, who, rec):
            """the oracle of one offering: who = the client the provider authenticated (None: refused)"""
            if who is None:
                return
            tid = genuine_values.get(value)
            if kind == "genuine" and cls == "access_token" and tid is not None:
                if who != f["client"]:
                    ctx.violation("resolves-elsewhere", "access token of (%s,%s) as bearer credential at %s authenticates client %s"
                                  % (f["user"], f["client"], where, who), rec)
                return
            if kind == "foreign":
                ctx.violation("foreign-accepted", "a %s of another provider instance authenticates client %s as bearer credential (%s) at %s"
                              % (cls, who, form, where), rec)
            elif kind == "mutant":
                ctx.violation(mutant_key(value, f), "%s of an access token authenticates client %s as bearer credential (%s) at %s"
                              % (label, who, form, where), rec)
            else:
                ctx.violation("wrong-class-accepted", "%s (%s) authenticates client %s as bearer credential (%s) at %s, %s a class-agnostic lookup"
                              % (cls, label, who, form, where, phase), rec)

        resolving = [n for n in BEARER_ENDPOINTS if n in rs.ep or n in ("pushed_authorization",)]
        eps = {}
        for n in resolving:
            try:
                eps[n] = rs.server.get_endpoint(n)
            except Exception:
                pass
        for phase in ("before", "after"):
            if phase == "after":
                # the class-agnostic lookups: introspection with the client's secret, the session manager's own
                for label, value, kind, cls, f in creds:
                    present(rs, "introspection", value, f["client"] if f else "client_1")
                    try:
                        si = rs.sm.get_session_info_by_token(value, grant=True)
                        gen_client = si.get("client_id")
                    except Exception:
                        gen_client = None
                    if kind in ("genuine", "foreign") and label not in ("spent_code", "foreign-spent_code"):
                        rec = {"variant": variant, "slot": "generic", "class": cls, "kind": kind, "client": gen_client}
                        model_cases.append(("(%s, (%s, %s, %s), %s, %s, %s)" % (
                            cfg_term, coq_nat(MCLS[cls]), coq_bool(kind == "foreign"), coq_bool(not shared), coq_nat(4),
                            coq_str(f["client"] if f else "client_1"), coq_opt(gen_client, coq_str, "pystr")), rec))
            # ---- client authentication with the value as only credential, at every endpoint that allows bearer methods
            for label, value, kind, cls, f in creds:
                for epn, ep in eps.items():
                    body = {"token": rs.tokens[flows[0]["access_token"]]} if epn in ("token_revocation", "introspection") else {}
                    for form in FORMS:
                        if kind == "mutant" and form == "Header":
                            continue
                        who, how = bearer_auth(ep, value, form, body)
                        if epn == "userinfo":
                            # the stage alone is an observation; the endpoint's verdict is that of the whole request
                            ctx.count("bearer-cred:userinfo-authn-stage:%s:%s" % (kind, "authenticated" if who else "refused"))
                            who, how = userinfo_under(rs, value, form)
                        rec = {"variant": variant, "authn": authn_name, "endpoint": epn, "form": form, "phase": phase, "credential": label,
                               "class": cls, "kind": kind, "authenticated": who, "how": how,
                               "owner": [f["user"], f["client"]] if f else None, "value": value[:200]}
                        ctx.case_seen(rec, True)
                        ctx.count("bearer-cred:%s:%s@%s:%s" % (kind, cls if kind != "mutant" else "mutant", epn, "authenticated" if who else "refused"))
                        judge(epn, label, value, kind, cls, f, form, phase, who, rec)
                        if kind == "genuine" and cls == "access_token" and epn in ("token_revocation", "userinfo") and who is None \
                                and ((form == "body" and "bearer_body" in ep.client_authn_method) or
                                     (form != "body" and "bearer_header" in ep.client_authn_method)):
                            ctx.violation("genuine-refused", "a live access token is refused as bearer credential (%s) at %s: %s" % (form, epn, how), rec)
                        if form == "header" and phase == "before" and kind in ("genuine", "foreign") and label not in ("spent_code", "foreign-spent_code") \
                                and epn in ("token_revocation", "userinfo") and "bearer_header" in ep.client_authn_method:
                            model_cases.append(("(%s, (%s, %s, %s), %s, %s, %s)" % (
                                cfg_term, coq_nat(MCLS[cls]), coq_bool(kind == "foreign"), coq_bool(not shared),
                                coq_nat(3 if epn == "token_revocation" else 2), coq_str(f["client"] if f else "client_1"),
                                coq_opt(who, coq_str, "pystr")), rec))
            # ---- the whole request: revocation of a live access token of ANOTHER session, the value being the only credential
            rev = rs.ep["token_revocation"]
            for label, value, kind, cls, f in creds:
                if kind == "mutant" and not (label.startswith("mutant-splice") or rng.random() < 0.25):
                    continue
                owner_client = f["client"] if f else "client_1"
                for form in ("header", "body"):
                    if (form == "body" and "bearer_body" not in rev.client_authn_method) or (form == "header" and "bearer_header" not in rev.client_authn_method):
                        continue
                    for tclient in (owner_client, [c for c in sess.CLIENTS if c != owner_client][0]):
                        tid = target_for(tclient, f)
                        who, done = revoke_under(rs, value, form, rs.tokens[tid])
                        gone = not live(tid)
                        rec = {"variant": variant, "authn": authn_name, "endpoint": "token_revocation", "whole_request": True, "form": form,
                               "phase": phase, "credential": label, "class": cls, "kind": kind, "authenticated": who, "carried_out": done,
                               "target_client": tclient, "target_revoked": gone, "owner": [f["user"], f["client"]] if f else None,
                               "value": value[:200]}
                        ctx.case_seen(rec, True)
                        ctx.count("bearer-revocation:%s:%s:%s" % (kind, cls if kind != "mutant" else "mutant",
                                                                    "revoked" if gone else ("authenticated" if who else "refused")))
                        judge("token_revocation (whole request)", label, value, kind, cls, f, form, phase, who, rec)
                        ok_cred = kind == "genuine" and cls == "access_token" and value in genuine_values
                        if gone and not ok_cred:
                            ctx.violation("wrong-class-accepted" if kind == "genuine" else mutant_key(value, f) if kind == "mutant" else "foreign-accepted",
                                          "a revocation request whose only credential is %s (%s, %s) revoked the access token of another session of %s"
                                          % (label, cls, form, tclient), rec)
                        if gone and ok_cred and tclient != f["client"]:
                            ctx.violation("resolves-elsewhere", "the access token of client %s as bearer credential revoked a token of client %s"
                                          % (f["client"], tclient), rec)
                        if ok_cred and tclient == f["client"] and not gone:
                            ctx.violation("genuine-refused", "a live access token of %s as bearer credential (%s) does not let it revoke its own token"
                                          % (tclient, form), rec)
        # ---- nothing of the above used anything up: the fresh codes and the refresh tokens still work, the spent codes do not
        for f in flows:
            for slot, key in (("userinfo", "access_token"), ("refresh", "refresh_token"), ("code", "code")):
                v, d = present(rs, slot, rs.tokens[f[key]], f["client"])
                if v != "accepted":
                    ctx.violation("genuine-refused", "%s refused in its slot after having been offered as bearer credential: %s" % (key, d),
                                  {"variant": variant, "authn": authn_name, "class": key})
        # ---- only a LIVE access token speaks for a client: histories that end a genuine access token (revoked through the
        #      session manager / at the revocation endpoint with the client's secret, its grant revoked, the client's session
        #      revoked, the clock past its lifetime), then the token as the only credential - at every endpoint's client
        #      authentication, in a whole userinfo request, and in a whole revocation request aimed at a live refresh token of
        #      another session of the same client
        rev = rs.ep["token_revocation"]
        secret_ok = "client_secret_post" in rev.client_authn_method
        histories = ["revoked-api", "revoked-endpoint" if secret_ok else "revoked-api-recursive", "grant-revoked", "client-session-revoked", "expired"]
        dead = []
        for how in histories:
            c = rng.choice(sess.CLIENTS)
            f = flow(rs, rng.choice(["diana", "dian"]), c)
            tgt = flow(rs, "babs", c)["refresh_token"]
            dead.append((how, f, tgt))
        for how, f, tgt in dead:
            tid = f["access_token"]
            gi = rs.tok_grant[tid]
            if how == "revoked-api":
                out = rs.run(("api_revoke", ("tok", tid), False))
            elif how == "revoked-api-recursive":
                out = rs.run(("api_revoke", ("tok", tid), True))
            elif how == "revoked-endpoint":
                out = rs.run(("revoke_ep", f["client"], ("tok", tid)))
            elif how == "grant-revoked":
                out = rs.run(("revoke_grant", gi))
            elif how == "client-session-revoked":
                out = rs.run(("revoke_client", gi))
            else:
                rs.run(("tick", 700))
                out = rs2.run(("tick", 700))       # the clock installed last is the one the library reads
            if out[0] != "ok":
                ctx.notes.append("bearer history %s could not be run: %r" % (how, out))
                continue
            value = rs.tokens[tid]
            for epn, ep in eps.items():
                body = {"token": rs.tokens[tgt]} if epn in ("token_revocation", "introspection") else {}
                for form in FORMS:
                    who, stage = bearer_auth(ep, value, form, body)
                    if epn == "userinfo":
                        ctx.count("bearer-cred:userinfo-authn-stage:dead:%s" % ("authenticated" if who else "refused"))
                        who, stage = userinfo_under(rs, value, form)
                    rec = {"variant": variant, "authn": authn_name, "endpoint": epn, "form": form, "history": how, "credential": "access_token",
                           "class": "access_token", "kind": "dead", "authenticated": who, "how": stage, "owner": [f["user"], f["client"]],
                           "value": value[:200]}
                    ctx.case_seen(rec, True)
                    ctx.count("bearer-cred:dead:%s@%s:%s" % (how, epn, "authenticated" if who else "refused"))
                    if who is not None:
                        ctx.violation("dead-bearer-credential", "an access token that is %s authenticates client %s as bearer credential (%s) at %s"
                                      % (how, who, form, epn), rec)
            for form in ("header", "body"):
                if (form == "body" and "bearer_body" not in rev.client_authn_method) or (form == "header" and "bearer_header" not in rev.client_authn_method):
                    continue
                if not live(tgt):
                    ctx.notes.append("bearer history %s: the target is not live before the request" % how)
                    continue
                who, done = revoke_under(rs, value, form, rs.tokens[tgt])
                gone = not live(tgt)
                rec = {"variant": variant, "authn": authn_name, "endpoint": "token_revocation", "whole_request": True, "form": form, "history": how,
                       "credential": "access_token", "class": "access_token", "kind": "dead", "authenticated": who, "carried_out": done,
                       "target_client": f["client"], "target_revoked": gone, "owner": [f["user"], f["client"]], "value": value[:200]}
                ctx.case_seen(rec, True)
                ctx.count("bearer-revocation:dead:%s:%s" % (how, "revoked" if gone else ("authenticated" if who else "refused")))
                if who is not None or gone:
                    ctx.violation("dead-bearer-credential", "a revocation request whose only credential is an access token that is %s (%s) %s"
                                  % (how, form, "revoked the refresh token of another session of %s" % f["client"] if gone else
                                     "is taken as authenticated by %s" % who), rec)
    finally:
        rs.close()
        rs2.close()
    ctx.coq_check_cases(["Lib.Base", "Lib.PyStr", "Lib.Crypto", "Model.Lv", "Model.TokenFmt"],
                        "(nat * nat * nat * bool * bool) * (nat * bool * bool) * nat * pystr * option pystr", "chk_slot", model_cases,
                        label="slot_%s" % authn_name.replace("-", "_"))


# ---------------------------------------------------------------------------------------------------------------
# REQUESTS IN FLIGHT.  The endpoint objects (userinfo, introspection, token_revocation, token), the session manager and
# the token handlers are the shared, long-lived instances of the server; a host that serves more than one request at
# a time runs parse_request / process_request / do_response of DIFFERENT requests through them in any order.  A flight is
# 2-4 requests that present tokens of different sessions (users / clients / grants), plus wrong-class, altered,
# foreign-instance and wrong-client presentations, and a schedule: an interleaving of their steps.  Oracle: what the
# answer to a request states belongs to the session the PRESENTED token was minted for, what it changed (minted,
# revoked, used) lies in that grant, and the whole canonical answer equals the answer the same request gets alone.
TF_ENDPOINTS = ["userinfo", "introspection", "revocation", "refresh", "code"]
TF_EP_NUM = {"userinfo": 0, "introspection": 1, "revocation": 2, "refresh": 3, "code": 4}
TF_STEPS = ["parse", "process", "respond"]
TF_PAIRS = [("diana", "client_1"), ("babs", "client_1"), ("diana", "client_2"), ("dian", "client_12"), ("babs", "client_2"), ("dian", "client_1")]
TF_SCOPES = {"client_1": [["openid", "email", "offline_access"], ["openid", "profile", "offline_access"]],
             "client_2": [["openid", "email", "address", "offline_access"], ["openid", "phone", "offline_access"]],
             "client_12": [["openid", "profile", "email", "offline_access"], ["openid", "address", "phone", "offline_access"]]}
TF_REAL_CLASS = {"access": "access_token", "refresh": "refresh_token", "code": "authorization_code", "id_token": "id_token"}
TF_VOLATILE = ("iat", "exp", "auth_time", "at_hash", "c_hash", "jti", "sid")


class FastSession(sess.RealSession):
    """RealSession with the same bookkeeping done incrementally: a flight run takes the inventory of all tokens
    around every single call"""

    def harvest(self):
        ids = self.__dict__.setdefault("_tok_ids", set())
        marks = self.__dict__.setdefault("_grant_marks", {})
        if len(ids) != len(self.tokobj):
            ids.clear()
            ids.update(id(o) for o in self.tokobj)
            marks.clear()
        new = []
        for gi, (sid, g, u, c) in enumerate(self.grants):
            it = g.issued_token
            mark = (len(it), id(it[-1]) if it else 0)
            if marks.get(gi) == mark:
                continue
            marks[gi] = mark
            for t in it:
                if id(t) not in ids:
                    ids.add(id(t))
                    self.tokobj.append(t)
                    self.tokens.append(t.value)
                    self.tok_grant.append(gi)
                    new.append(len(self.tokens) - 1)
        return new

    def find_new_grants(self):
        from idpyoidc.server.session.grant import Grant
        known = self.__dict__.setdefault("_grant_ids", set())
        if len(known) != len(self.grants):
            known.clear()
            known.update(id(g) for _, g, _, _ in self.grants)
        for k, n in self.sm.db.items():
            if isinstance(n, Grant) and id(n) not in known:
                if len(k.split(";;")) != 3:
                    continue
                u, c, gid = k.split(";;")
                known.add(id(n))
                self.grants.append((self.sm.encrypted_session_id(u, c, gid), n, u, c))


def all_interleavings(k, steps):
    """every order of the steps of k requests in which each request's own steps stay in order"""
    out = []

    def go(done, acc):
        if all(d == steps for d in done):
            out.append(list(acc))
            return
        for i in range(k):
            if done[i] < steps:
                done[i] += 1
                acc.append(i)
                go(done, acc)
                acc.pop()
                done[i] -= 1
    go([0] * k, [])
    return out


def random_interleaving(rng, k, steps):
    seq = [i for i in range(k) for _ in range(steps)]
    rng.shuffle(seq)
    return seq


def sched_text(sched):
    seen = {}
    out = []
    for i in sched:
        n = seen.get(i, 0)
        seen[i] = n + 1
        out.append("%s %d" % (TF_STEPS[n], i))
    return ", ".join(out)


# THE ASKER OF AN INTROSPECTION.  The client that introspects a token need not be the client the token was minted for: a
# protected resource that validates the bearer tokens it is handed is a registered client of its own.  Who is answered at
# all is the audience rule (the endpoint's enforce_audience_restriction, the asker's own registration, the audience on
# record for the token); what an answer states is the session of the token, whoever asks.  The modes: how a third party
# comes to be admitted.
THIRD_MODES = ["open-rs", "endpoint-open", "token-args-aud", "minted-aud"]
THIRD_ASKERS = ["rs_open", "rs_aud", "rs_aud2", "rs_closed"]
INTROSPECTION_KEYS = ("active", "scope", "client_id", "username", "token_type", "exp", "iat", "nbf", "sub", "aud", "iss", "jti", "token_class")


class PerClientUserInfo:
    """a user database whose answer depends on the client it is asked for (per-client attribute release): every user has a
    `website` that names the client"""

    def __init__(self, base):
        self.base = base

    @staticmethod
    def website(user_id, client_id):
        return "https://%s.example.com/~%s" % (client_id, user_id)

    def __call__(self, user_id, client_id, user_info_claims=None):
        out = dict(self.base(user_id, client_id, user_info_claims))
        out["website"] = self.website(user_id, client_id)
        return out


def audience_token_args(context, client_id, token_args=None):
    """a token_args method: the tokens of a client are meant for the client and for the resource servers of its registration"""
    out = dict(token_args or {})
    out["aud"] = [client_id] + list(context.cdb[client_id].get("resource_servers", []))
    return out


class TFlights:
    def __init__(self, ctx, variant, third=None):
        self.ctx, self.variant, self.third = ctx, variant, third
        self.enforce_default = third != "endpoint-open"      # the audience rule as the harness configured it
        self.enforce = {}
        shared, jwt, idt_alg = variant[:3]
        alias = len(variant) > 3 and variant[3] == "alias"
        jwt_refresh = len(variant) > 4 and variant[4]
        self.shared, self.jwt, self.jwt_refresh, self.idt_alg = shared, jwt, jwt_refresh, idt_alg
        old, old_conf = srv.make_server, srv.op_conf

        def mk(*a, **k):
            k.setdefault("pinned", shared)
            return old(*a, **k)

        def conf_with_bearer(*a, **k):
            # the revocation endpoint also allows an access token as the client's credential (bearer_header), as userinfo does
            conf = old_conf(*a, **k)
            for name, spec in conf["endpoint"].items():
                if name == "token_revocation":
                    cur = spec["kwargs"].get("client_authn_method") or []
                    spec["kwargs"]["client_authn_method"] = list(cur) + [m for m in ("bearer_header",) if m not in cur]
                if name == "introspection" and third:
                    # user claims are released at introspection, by scope and per client
                    spec["kwargs"].update({"enable_claims_per_client": True, "add_claims_by_scope": True, "base_claims": {"website": None}})
                    if third == "endpoint-open":
                        spec["kwargs"]["enforce_audience_restriction"] = False
            return conf
        srv.make_server, srv.op_conf = mk, conf_with_bearer
        try:
            over = {c: {"id_token_signed_response_alg": idt_alg} for c in sess.CLIENTS} if idt_alg else None
            self.rs = FastSession(oidc=True, jwt_access=jwt, client_over=over, alias_kwargs=alias, jwt_refresh=jwt_refresh)
            self.rs2 = FastSession(oidc=True, jwt_access=jwt, client_over=over, alias_kwargs=alias, jwt_refresh=jwt_refresh)
        finally:
            srv.make_server, srv.op_conf = old, old_conf
        self.userdb = json.load(open(srv.USERS))
        if third:
            self._third_setup()
        self.pool = []
        self.foreign = None
        self.cases = []
        self._last = None       # the inventory after the latest call, if nothing happened since

    def close(self):
        self.rs.close()
        self.rs2.close()

    def _third_setup(self):
        """the clients that are no application: resource servers.  rs_open is registered with the audience restriction off;
        rs_aud / rs_aud2 are admitted where a token's audience lists them; rs_closed never is; with the endpoint's own
        setting off (endpoint-open) everybody is admitted but the registrations that switch it on again (rs_strict, client_2)"""
        rs = self.rs
        cdb = rs.ctx.cdb
        regs = [("rs_open", False), ("rs_aud", None), ("rs_aud2", None), ("rs_closed", None)]
        if self.third == "endpoint-open":
            regs.append(("rs_strict", True))
            cdb["client_2"]["enforce_audience_restriction"] = True
            self.enforce["client_2"] = True
        for cid, e in regs:
            cdb[cid] = srv.client_record(cid, **({} if e is None else {"enforce_audience_restriction": e}))
            rs.server.keyjar.add_symmetric(cid, cdb[cid]["client_secret"])
            if e is not None:
                self.enforce[cid] = e
        cdb["client_1"]["add_claims"] = {"always": {"introspection": ["nickname"]}, "by_scope": {"introspection": True}}
        cdb["client_2"]["add_claims"] = {"always": {"introspection": ["family_name"]}, "by_scope": {"introspection": False}}
        rs.ctx.userinfo = PerClientUserInfo(rs.ctx.userinfo)
        if self.third == "token-args-aud":
            cdb["client_1"]["resource_servers"] = ["rs_aud"]
            cdb["client_2"]["resource_servers"] = ["rs_aud", "rs_aud2"]
            rs.ctx.token_args_methods.append(audience_token_args)

    def askers(self):
        return THIRD_ASKERS + (["rs_strict"] if self.third == "endpoint-open" else [])

    def user_view(self, user, client):
        """what the user database says about the user when asked for that client"""
        out = dict(self.userdb[user])
        if self.third:
            out["website"] = PerClientUserInfo.website(user, client)
        return out

    def may_ask(self, q):
        """the audience rule of the introspection endpoint, from what the harness configured and the audience on record"""
        if q["spec"]["ep"] != "introspection" or q["tid"] is None:
            return False
        if not self.enforce.get(q["by"], self.enforce_default):
            return True
        return q["by"] in self.audience(q)

    def audience(self, q):
        tok = self.rs.tokobj[q["tid"]]
        return list(tok.resources or self.rs.grants[q["gi"]][1].resources or [])

    # ---- sessions and the supply of tokens
    def _login(self, rs, user, client, scope, nonce):
        rs.find_new_grants()
        rs.harvest()
        o = rs.run(("authz", user, client, scope, "code", {"nonce": nonce}))
        if o[0] != "ok" or len(o[1]) != 1:
            raise RuntimeError("authorization of (%s, %s) did not complete: %r" % (user, client, o))
        return o[1][0]

    def _redeem(self, rs, client, code):
        rs.parsed.append(rs.ep["token"].parse_request(rs._token_req(client, {
            "grant_type": "authorization_code", "code": rs.tokens[code], "redirect_uri": "https://%s.example.com/cb" % client})))
        p = rs.run(("proc", len(rs.parsed) - 1, None))
        if p[0] != "ok":
            raise RuntimeError("code of %s not redeemed: %r" % (client, p))
        return p[1]

    def open_session(self, k):
        user, client = TF_PAIRS[k % len(TF_PAIRS)]
        scope = TF_SCOPES[client][k % 2]
        nonce = "nonce-%s-%s-%d" % (user, client, k)
        code = self._login(self.rs, user, client, scope, nonce)
        t = self._redeem(self.rs, client, code)
        gi = self.rs.tok_grant[code]
        f = {"k": k, "user": user, "client": client, "scope": scope, "nonce": nonce, "gi": gi, "sub": self.rs.grants[gi][1].sub,
             "access": t["access_token"], "refresh": t["refresh_token"], "id_token": t["id_token"], "spent_code": code}
        if self.third == "minted-aud":
            # the session's access and refresh token are minted through the grant with an explicit audience (what the token
            # exchange helper and resource indicators do): the client and a resource server, a resource server alone (the
            # session's own client is then NOT in the audience), the client and two resource servers
            rs = self.rs
            aud = [[client, "rs_aud"], ["rs_aud"], [client, "rs_aud", "rs_aud2"]][k % 3]
            sid, g = rs.grants[gi][0], rs.grants[gi][1]
            parent = rs.tokobj[t["refresh_token"]]
            for cls, key in (("access_token", "access"), ("refresh_token", "refresh")):
                tok = g.mint_token(session_id=sid, context=rs.ctx, token_class=cls, token_handler=rs.sm.token_handler[cls],
                                   based_on=parent, resources=list(aud))
                rs.harvest()
                f[key] = next(i for i in range(len(rs.tokobj) - 1, -1, -1) if rs.tokobj[i] is tok)
        self.pool.append(f)
        return f

    def ensure_pool(self, n):
        while len(self.pool) < n:
            self.open_session(len(self.pool))
        if self.foreign is None:
            code = self._login(self.rs2, "diana", "client_1", TF_SCOPES["client_1"][0], "nonce-foreign")
            t = self._redeem(self.rs2, "client_1", code)
            spare = self._login(self.rs2, "diana", "client_1", TF_SCOPES["client_1"][0], "nonce-foreign")
            self.foreign = {"access": self.rs2.tokens[t["access_token"]], "refresh": self.rs2.tokens[t["refresh_token"]],
                            "code": self.rs2.tokens[spare], "id_token": self.rs2.tokens[t["id_token"]]}

    def supply(self, f, cls, consumed):
        """a live token of class cls of session f (index into rs.tokens).  consumed: the request will use it up - a fresh
        one is produced by a request of its own, run alone (a refresh for access / refresh tokens, an authorization for codes)"""
        rs = self.rs
        if cls == "code":
            # the same user, client, scope, nonce: a grant of its own
            if consumed:
                return self._login(rs, f["user"], f["client"], f["scope"], f["nonce"])
            t = f.get("spare_code")
            if t is None or rs.tokobj[t].used or rs.tokobj[t].revoked or not rs.tokobj[t].is_active():
                t = f["spare_code"] = self._login(rs, f["user"], f["client"], f["scope"], f["nonce"])
            return t
        if cls == "id_token" or not consumed:
            return f[cls]
        rs.parsed.append(rs.ep["token"].parse_request(rs._token_req(f["client"], {"grant_type": "refresh_token", "refresh_token": rs.tokens[f["refresh"]]})))
        p = rs.run(("proc", len(rs.parsed) - 1, True))
        if p[0] != "ok":
            raise RuntimeError("no fresh tokens for session %d: %r" % (f["k"], p))
        return p[1]["access_token" if cls == "access" else "refresh_token"]

    # ---- one request
    def materialise(self, spec):
        """spec -> the request as it is sent: endpoint object, body, http_info, the presented value, the session it was minted for"""
        rs = self.rs
        f = self.pool[spec["sess"]]
        ep_name = spec["ep"]
        cls = spec["cls"]
        what = spec["what"]
        tid, gi = None, None
        if what == "foreign":
            value = self.foreign[cls]
        elif what == "garbage":
            value = ["x", "Zm9vYmFy", "a.b.c", "eyJhbGciOiJub25lIn0.e30."][spec.get("n", 0) % 4]
        else:
            tid = self.supply(f, cls, consumed=(what == "own" and ep_name in ("revocation", "code")))
            value = rs.tokens[tid]
            gi = rs.tok_grant[tid]
            if what == "mutant":
                muts = mutants(random.Random(spec.get("n", 0)), value, rs.tokens[self.pool[(spec["sess"] + 1) % len(self.pool)][cls]] if cls != "code" else None)
                value = muts[spec.get("n", 0) % len(muts)][1]
                tid = None
        if spec.get("by", "owner") == "owner":
            by = f["client"]
        elif spec["by"] == "other":
            by = [c for c in sess.CLIENTS if c != f["client"]][spec.get("n", 0) % 2]
        else:
            by = spec["by"]          # a named third party (a resource server)
        http_info = {}
        if ep_name == "userinfo":
            ep = rs.ep["userinfo"]
            if spec.get("form", "header") == "body":
                body = {"access_token": value}
            else:
                body = {}
                http_info = {"headers": {("authorization" if spec.get("form", "header") == "header" else "Authorization"): "Bearer " + value}}
        else:
            ep = rs.ep[{"introspection": "introspection", "revocation": "token_revocation", "refresh": "token", "code": "token"}[ep_name]]
            if ep_name in ("introspection", "revocation"):
                body = {"token": value}
            elif ep_name == "refresh":
                body = {"grant_type": "refresh_token", "refresh_token": value}
            else:
                body = {"grant_type": "authorization_code", "code": value, "redirect_uri": "https://%s.example.com/cb" % f["client"]}
            if spec.get("authn", "post") == "basic":
                cred = base64.b64encode(("%s:%s" % (by, rs.secret(by))).encode()).decode()
                http_info = {"headers": {"authorization": "Basic " + cred}}
            elif spec.get("authn") == "bearer":
                # the client's credential is a live access token it holds: of the session itself (owner), or of another
                # session of the other client
                cf = f if by == f["client"] else next(x for x in self.pool if x["client"] == by)
                http_info = {"headers": {"authorization": "Bearer " + rs.tokens[cf["access"]]}}
            else:
                body = rs._token_req(by, body)
        self._last = None
        return {"spec": spec, "ep": ep, "body": body, "http_info": http_info, "value": value, "tid": tid, "gi": gi, "f": f, "by": by,
                "genuine": tid is not None, "parsed": None, "result": None, "answer": None, "done": 0, "delta": []}

    def snap(self):
        rs = self.rs
        rs.find_new_grants()
        rs.harvest()
        return (len(rs.tokens), [bool(t.revoked) for t in rs.tokobj], [t.used for t in rs.tokobj], [bool(g[1].revoked) for g in rs.grants])

    def tok_desc(self, q, i):
        """a token of this provider as seen from request q: relative to the presented value and the grant it sits in"""
        rs = self.rs
        g = rs.tok_grant[i]
        t = rs.tokobj[i]
        b = getattr(t, "based_on", None)
        return {"cls": t.token_class, "grant": "own" if g == q["gi"] else "other:%s/%s" % (rs.grants[g][2], rs.grants[g][3]),
                "rel": "presented" if rs.tokens[i] == q["value"] else "child" if b is not None and b == q["value"] else "-",
                "scope": sorted(t.scope or [])}

    def value_desc(self, q, v):
        rs = self.rs
        if v in rs.tokens:
            return self.tok_desc(q, rs.tokens.index(v))
        return {"cls": "?", "grant": "unknown value", "rel": "-", "scope": []}

    def delta(self, q, before, after):
        rs = self.rs
        out = []
        for i in range(before[0], after[0]):
            out.append(["minted", self.tok_desc(q, i)])
        for i in range(before[0]):
            if before[1][i] != after[1][i]:
                out.append(["revoked" if after[1][i] else "unrevoked", self.tok_desc(q, i)])
            if before[2][i] != after[2][i]:
                out.append(["used", self.tok_desc(q, i)])
        for g in range(len(before[3])):
            if before[3][g] != after[3][g]:
                out.append(["grant-revoked", "own" if g == q["gi"] else "other:%s/%s" % (rs.grants[g][2], rs.grants[g][3])])
        return out

    def canon_msg(self, q, d):
        """a response (arguments or decoded body): token values by what they are, the ID Token by what it states"""
        out = {}
        for k, v in d.items():
            if k in ("access_token", "refresh_token") and isinstance(v, str):
                out[k] = self.value_desc(q, v)
            elif k == "id_token" and isinstance(v, str) and v.count(".") == 2:
                try:
                    pl = v.split(".")[1]
                    c = json.loads(base64.urlsafe_b64decode(pl + "=" * (-len(pl) % 4)))
                    out[k] = {a: b for a, b in c.items() if a not in TF_VOLATILE}
                except Exception:
                    out[k] = "undecodable"
            elif k == "scope":
                out[k] = sorted(v.split(" ") if isinstance(v, str) else list(v))
            else:
                out[k] = v
        return json.loads(json.dumps(out, default=str, sort_keys=True))

    def step(self, q):
        """the next call that belongs to request q.  Returns True when q has its answer."""
        n = q["done"]
        q["done"] += 1
        ep = q["ep"]
        before = self._last or self.snap()
        try:
            if n == 0:
                p = ep.parse_request(dict(q["body"]), http_info=copy_info(q["http_info"]))
                q["parsed"] = p
                if sess.RealSession.err_of(p):
                    q["answer"] = {"stage": "parse", "status": "err:" + str(p["error"])}
            elif n == 1:
                kw = {"issue_refresh": True} if q["spec"].get("issue_refresh") else {}
                if q["spec"]["ep"] == "introspection" and q["spec"].get("release"):
                    kw["release"] = list(q["spec"]["release"])
                r = ep.process_request(q["parsed"], **kw)
                q["result"] = r
                ra = r.get("response_args", r) if isinstance(r, dict) else r
                e = sess.RealSession.err_of(ra)
                if e:
                    q["answer"] = {"stage": "process", "status": "err:" + e}
                else:
                    says = dict(ra.to_dict() if hasattr(ra, "to_dict") else ra)
                    if q["spec"]["ep"] == "userinfo":
                        says = {"sub": says.pop("sub", None), "client_id": r.get("client_id"), "claims": says}
                    q["says"] = says
            else:
                r = q["result"]
                d = ep.do_response(request=q["parsed"], **r) if isinstance(r, dict) else {"response": r.to_json()}
                body = d.get("response")
                try:
                    body = self.canon_msg(q, json.loads(body))
                except Exception:
                    pass
                q["answer"] = {"stage": "respond", "status": "ok", "says": q["says"], "body": body,
                               "headers": sorted("%s: %s" % (a, b) for a, b in d.get("http_headers", []))}
        except Exception as e:       # a crash is a refusal
            q["answer"] = {"stage": TF_STEPS[n], "status": "exc:" + type(e).__name__}
        after = self._last = self.snap()
        if n == 1 and "says" in q:
            q["says"] = self.canon_msg(q, q["says"])      # after the inventory: the values minted by this call are known
        q["delta"] += [[TF_STEPS[n]] + x for x in self.delta(q, before, after)]
        if q["answer"] is not None:
            q["answer"]["delta"] = q["delta"]
            q["done"] = len(TF_STEPS)
            return True
        return False

    def alone(self, spec):
        q = self.materialise(spec)
        while not self.step(q):
            pass
        return q

    # ---- the oracle of one answer, from the property text
    def judge(self, q, rec, how):
        ctx = self.ctx
        a, f, spec = q["answer"], q["f"], q["spec"]
        ok = a["status"] == "ok"
        who = "request %d (%s, %s %s of session %d = %s at %s, sent by %s)" % (
            q.get("i", 0), spec["ep"], spec["what"], spec["cls"], f["k"], f["user"], f["client"], q["by"])
        real_cls = TF_REAL_CLASS[spec["cls"]]
        says = a.get("says") or {}
        resolved = ok
        if spec["ep"] == "introspection":
            resolved = ok and bool(says.get("active"))
        if spec["ep"] == "revocation":
            resolved = any(d[1] == "revoked" for d in a["delta"])
        right_slot = {"userinfo": ["access_token"], "introspection": ["access_token", "refresh_token"],
                      "revocation": ["access_token", "refresh_token", "authorization_code"], "refresh": ["refresh_token"],
                      "code": ["authorization_code"]}[spec["ep"]]
        # everything a request changes lies in the grant of the token it presented
        for d in a["delta"]:
            where = d[2]["grant"] if isinstance(d[2], dict) else d[2]
            if where != "own":
                ctx.violation("resolves-elsewhere", "%s, %s: its %s step %s a token of %s" % (who, how, d[0], d[1], where), rec)
            if d[1] == "minted" and d[2]["rel"] != "child":
                ctx.violation("resolves-elsewhere", "%s, %s: minted a %s that is not based on the presented token" % (who, how, d[2]["cls"]), rec)
            if d[1] in ("revoked", "used") and spec["ep"] in ("userinfo", "introspection"):
                ctx.violation("resolves-elsewhere", "%s, %s: a %s request %s a token" % (who, how, spec["ep"], d[1]), rec)
        if not resolved:
            return
        if spec["what"] in ("mutant", "garbage"):
            ctx.violation("mutant-accepted", "%s, %s: an altered value is accepted: %r" % (who, how, says), rec)
            return
        if spec["what"] == "foreign":
            ctx.violation("foreign-accepted", "%s, %s: a token of another provider instance is accepted: %r" % (who, how, says), rec)
            return
        if real_cls not in right_slot:
            ctx.violation("wrong-class-accepted", "%s, %s: a %s is accepted: %r" % (who, how, real_cls, says), rec)
            return
        if spec["ep"] != "userinfo" and q["by"] != f["client"] and not self.may_ask(q):
            ctx.violation("resolves-elsewhere", "%s, %s: a token of %s serves %s: %r" % (who, how, f["client"], q["by"], says), rec)
            return
        # an accepted token: user, client and grant are those it was minted for
        user = self.user_view(f["user"], f["client"])

        def claims_of(d, skip):
            for k, v in d.items():
                if k in skip:
                    continue
                if (k in user and user[k] != v) or any(other != f["user"] and k in rec_ and rec_[k] == v and user.get(k) != v
                                                       for other, rec_ in self.userdb.items()):
                    yield k, v
        wrong = []
        if spec["ep"] == "userinfo":
            if says.get("sub") != f["sub"]:
                wrong.append("sub %r" % says.get("sub"))
            if says.get("client_id") != f["client"]:
                wrong.append("client %r" % says.get("client_id"))
            wrong += ["claim %s=%r" % kv for kv in claims_of(says.get("claims") or {}, ())]
            if isinstance(a.get("body"), dict):
                if a["body"].get("sub") != f["sub"]:
                    wrong.append("body sub %r" % a["body"].get("sub"))
                wrong += ["body claim %s=%r" % kv for kv in claims_of(a["body"], ("sub",))]
        elif spec["ep"] == "introspection":
            if says.get("sub") != f["sub"]:
                wrong.append("sub %r" % says.get("sub"))
            if says.get("client_id") != f["client"]:
                wrong.append("client %r" % says.get("client_id"))
            if says.get("token_class", real_cls) != real_cls:
                wrong.append("class %r" % says.get("token_class"))
            if sorted(says.get("scope") or []) != sorted(self.rs.tokobj[q["tid"]].scope or f["scope"]):
                wrong.append("scope %r" % says.get("scope"))
            if isinstance(a.get("body"), dict) and {k: a["body"].get(k) for k in ("sub", "client_id", "scope")} != {k: says.get(k) for k in ("sub", "client_id", "scope")}:
                wrong.append("body %r" % a["body"])
            # every other statement of the answer is that of the token / the session on record, whoever asks
            tok = self.rs.tokobj[q["tid"]]
            for part_name, part in (("", says), ("body ", a.get("body") if isinstance(a.get("body"), dict) else {})):
                if "aud" in part and sorted(part["aud"] if isinstance(part["aud"], list) else [part["aud"]]) != sorted(self.audience(q)):
                    wrong.append("%saud %r (on record: %r)" % (part_name, part["aud"], self.audience(q)))
                if "exp" in part and part["exp"] != tok.expires_at:
                    wrong.append("%sexp %r" % (part_name, part["exp"]))
                if "iat" in part and part["iat"] != tok.issued_at:
                    wrong.append("%siat %r" % (part_name, part["iat"]))
                if "iss" in part and part["iss"] != self.rs.ctx.issuer:
                    wrong.append("%siss %r" % (part_name, part["iss"]))
                if "token_type" in part and part["token_type"] != getattr(tok, "token_type", None):
                    wrong.append("%stoken_type %r" % (part_name, part["token_type"]))
                if "username" in part and part["username"] != f["user"]:
                    wrong.append("%susername %r" % (part_name, part["username"]))
                if part is says and "username" in (spec.get("release") or []) and "username" not in part:
                    wrong.append("no username")
                wrong += ["%sclaim %s=%r (of %s at %s: %r)" % (part_name, k, v, f["user"], f["client"], user.get(k))
                          for k, v in claims_of(part, INTROSPECTION_KEYS)]
        elif spec["ep"] == "revocation":
            gone = [d[2] for d in a["delta"] if d[1] == "revoked"]
            if any(g["rel"] != "presented" for g in gone):
                wrong.append("revoked %r" % gone)
        else:
            for part in (says, a.get("body") if isinstance(a.get("body"), dict) else {}):
                for k in ("access_token", "refresh_token"):
                    if k in part and (part[k]["grant"] != "own" or part[k]["rel"] != "child" or part[k]["cls"] != k):
                        wrong.append("%s %r" % (k, part[k]))
                idt = part.get("id_token")
                if isinstance(idt, dict):
                    if idt.get("sub") != f["sub"]:
                        wrong.append("id_token sub %r" % idt.get("sub"))
                    if f["client"] not in (idt.get("aud") if isinstance(idt.get("aud"), list) else [idt.get("aud")]):
                        wrong.append("id_token aud %r" % idt.get("aud"))
                    if idt.get("nonce") not in (None, f["nonce"]):
                        wrong.append("id_token nonce %r" % idt.get("nonce"))
                    wrong += ["id_token claim %s=%r" % kv for kv in claims_of(idt, ("sub", "aud", "nonce", "iss", "acr"))]
                elif "id_token" in part:
                    wrong.append("id_token %r" % idt)
        if wrong:
            ctx.violation("resolves-elsewhere", "%s, %s: the answer belongs to another session: %s" % (who, how, "; ".join(wrong)), rec)

    def observed_session(self, q):
        """the session (grant number) the answer to q stands for, from what it states alone; None: refused"""
        a, spec = q["answer"], q["spec"]
        says = a.get("says") or {}
        rs = self.rs
        if a["status"] != "ok":
            return None
        if spec["ep"] in ("refresh", "code", "revocation"):
            gs = set()
            for d in a["delta"]:
                if d[1] in ("minted", "revoked") and isinstance(d[2], dict):
                    gs.add(d[2]["grant"])
            if not gs:
                return None
            if gs == {"own"}:
                return q["gi"]
            return 9999
        if spec["ep"] == "introspection" and not says.get("active"):
            return None
        cands = [gi for gi, (sid, g, u, c) in enumerate(rs.grants) if g.sub == says.get("sub") and c == says.get("client_id")
                 and (spec["ep"] != "userinfo" or all(self.userdb[u].get(k) == v for k, v in (says.get("claims") or {}).items() if k in self.userdb[u]))]
        if q["gi"] in cands:
            return q["gi"]
        return cands[0] if cands else 9999

    # ---- one flight
    def fly(self, specs, sched, family):
        ctx = self.ctx
        self.ensure_pool(max(len(TF_PAIRS), max(s["sess"] for s in specs) + 2))
        rec = {"kind": "tflight", "variant": list(self.variant), "family": family, "specs": specs, "schedule": list(sched),
               "schedule_text": sched_text(sched)}
        if self.third:
            rec["third"] = self.third
        # every request alone (a token that the request uses up is replaced by a sibling of the same session)
        alone = []
        for i, sp in enumerate(specs):
            q = self.alone(sp)
            q["i"] = i
            alone.append(q)
            self.judge(q, rec, "alone")
        qs = []
        for i, sp in enumerate(specs):
            q = self.materialise(sp)
            q["i"] = i
            qs.append(q)
        for i in sched:
            if qs[i]["done"] < len(TF_STEPS):
                self.step(qs[i])
        rec["answers"] = [q["answer"] for q in qs]
        rec["presented"] = [q["value"][:120] for q in qs]
        ctx.case_seen(rec, True)
        ctx.count("flight:%s:k=%d" % (family, len(specs)))
        for i, q in enumerate(qs):
            ctx.count("flight-request:%s:%s:%s" % (q["spec"]["ep"], q["spec"]["what"], (q["answer"] or {}).get("status", "none").split(":")[0]))
            if q["answer"] is None:
                ctx.violation("flight-no-answer", "request %d gets no answer in schedule [%s]" % (i, sched_text(sched)), rec)
                continue
            self.judge(q, rec, "in flight [%s]" % sched_text(sched))
            if q["answer"] != alone[i]["answer"]:
                was_ok = alone[i]["answer"]["status"] == "ok"
                key = "genuine-refused" if was_ok and q["answer"]["status"] != "ok" else "resolves-elsewhere"
                ctx.violation(key, "request %d (%s with the %s of session %d: %s at %s) is answered otherwise in flight [%s] than alone: %s -- alone: %s"
                              % (i, q["spec"]["ep"], q["spec"]["cls"], q["f"]["k"], q["f"]["user"], q["f"]["client"], sched_text(sched),
                                 json.dumps(q["answer"], sort_keys=True)[:700], json.dumps(alone[i]["answer"], sort_keys=True)[:700]), rec)
        self.compare_askers(alone + qs, rec, sched)
        self.model_case(qs, sched, rec)

    def compare_askers(self, qlist, rec, sched):
        """whoever asks: the active answers to introspections of ONE value (same release) are the same answer - the one
        the client the token was minted for gets, when it is among the askers"""
        ctx = self.ctx
        groups = {}
        for q in qlist:
            a = q["answer"]
            if q["spec"]["ep"] != "introspection" or not a:
                continue
            active = a["status"] == "ok" and bool((a.get("says") or {}).get("active"))
            if q["genuine"]:
                kind = "owner" if q["by"] == q["f"]["client"] else "application" if q["by"] in sess.CLIENTS else q["by"]
                ctx.count("introspection-asker:%s:%s:%s" % (self.third or "default", kind, "active" if active else "inactive"))
            if active:
                groups.setdefault((q["value"], tuple(sorted(q["spec"].get("release") or []))), []).append(q)
        for g in groups.values():
            ref = next((q for q in g if q["by"] == q["f"]["client"]), g[0])
            for q in g:
                if q is ref or q["by"] == ref["by"]:
                    continue
                ctx.count("introspection-answers-compared:%s" % ("with-owner" if ref["by"] == ref["f"]["client"] else "third-parties"))
                for part in ("says", "body"):
                    if q["answer"].get(part) != ref["answer"].get(part):
                        ctx.violation("resolves-elsewhere", "the %s of session %d (%s at %s) introspected by %s and by %s [%s]: the answers differ (%s): %s -- %s"
                                      % (q["spec"]["cls"], q["f"]["k"], q["f"]["user"], q["f"]["client"], q["by"], ref["by"], sched_text(sched), part,
                                         json.dumps(q["answer"].get(part), sort_keys=True)[:500], json.dumps(ref["answer"].get(part), sort_keys=True)[:500]), rec)
                        break

    # ---- the same flight in the model (Model/TokenFmt.v run_tflight)
    def model_case(self, qs, sched, rec):
        rs = self.rs
        kc, ka, kr = 0, (1 if self.jwt else 0), (1 if self.jwt_refresh else 0)
        cfg = "(%s, %s, %s, %s, %s)" % (coq_nat(kc), coq_nat(ka), coq_nat(kr), coq_bool(not self.shared), coq_bool((self.idt_alg or "RS256") != "ES256"))
        db = {}
        reqs = []
        for q in qs:
            sp = q["spec"]
            if sp["what"] in ("mutant", "garbage"):
                tok = "TGarbage"
            elif sp["what"] == "foreign":
                tok = "TForeign %s %s" % (coq_nat(MCLS[TF_REAL_CLASS[sp["cls"]]]), coq_bool(not self.shared))
            else:
                gi = q["gi"]
                db[gi] = "(%s, mkSess %s %s %s)" % (coq_str("sid-%d" % gi), coq_nat(gi), coq_str(rs.grants[gi][2]), coq_str(rs.grants[gi][3]))
                tok = "TMinted %s %s" % (coq_nat(MCLS[TF_REAL_CLASS[sp["cls"]]]), coq_str("sid-%d" % gi))
            reqs.append("mkTspec %s (%s) %s" % (coq_nat(TF_EP_NUM[sp["ep"]]), tok, coq_str(q["by"])))
        obs = []
        for i, q in enumerate(qs):
            if q["answer"] is None:
                continue
            o = self.observed_session(q)
            obs.append("(%s, %s)" % (coq_nat(i), coq_opt(o, coq_nat, "nat")))
        ev = []
        seen = {}
        for i in sched:
            n = seen.get(i, 0)
            seen[i] = n + 1
            ev.append("%s %s" % (("TvParse", "TvProcess", "TvRespond")[n], coq_nat(i)))
        # the audience rule: the endpoint's setting, the registrations that override it, the audience on record for what is introspected
        auds = {}
        for q in qs:
            if q["spec"]["ep"] == "introspection" and q["tid"] is not None and rs.tokobj[q["tid"]].token_class in CLASSES:
                auds[(q["gi"], MCLS[rs.tokobj[q["tid"]].token_class])] = self.audience(q)
        ac = "(%s, %s, %s)" % (coq_bool(self.enforce_default),
                               coq_list(["(%s, %s)" % (coq_str(c), coq_bool(e)) for c, e in sorted(self.enforce.items())], "(pystr * bool)"),
                               coq_list(["(%s, %s, %s)" % (coq_nat(g), coq_nat(c), coq_list([coq_str(x) for x in a], "pystr"))
                                         for (g, c), a in sorted(auds.items())], "(nat * nat * list pystr)"))
        term = "(%s, %s, %s, %s, %s, %s)" % (cfg, coq_list([db[g] for g in sorted(db)], "(pystr * sess)"), ac, coq_list(reqs, "tspec"),
                                             coq_list(ev, "tevent"), coq_list(obs, "(nat * option nat)"))
        self.cases.append((term, rec))

    def check_model(self, label):
        self.ctx.coq_check_cases(["Lib.Base", "Lib.PyStr", "Lib.Crypto", "Model.Lv", "Model.TokenFmt"], "tfcase", "chk_tflight", self.cases,
                                 shard=120, label=label, diag="diag_tflight")
        self.cases = []

    # ---- the families
    def spec(self, rng, ep, sess_k, what="own", cls=None, **kw):
        if cls is None:
            cls = {"userinfo": "access", "refresh": "refresh", "code": "code"}.get(ep) or rng.choice(["access", "refresh"])
        sp = {"ep": ep, "sess": sess_k, "what": what, "cls": cls, "n": rng.randrange(1000)}
        if ep == "userinfo":
            sp["form"] = kw.pop("form", rng.choice(["header", "header", "body", "Header"]))
        else:
            sp["authn"] = kw.pop("authn", rng.choice(["post", "basic", "bearer"] if ep == "revocation" else ["post", "basic"]))
            sp["by"] = kw.pop("by", "owner")
        if ep == "refresh":
            sp["issue_refresh"] = kw.pop("issue_refresh", rng.random() < 0.5)
        sp.update(kw)
        return sp

    def hostile_spec(self, rng, ep, sess_k):
        """a presentation that must be refused: wrong class, altered, another instance's, another client's"""
        kind = rng.choice(["wrong-class", "mutant", "foreign", "garbage", "other-client"])
        right = {"userinfo": ["access"], "introspection": ["access", "refresh"], "revocation": ["access", "refresh"], "refresh": ["refresh"], "code": ["code"]}[ep]
        if kind == "wrong-class":
            wrong = [c for c in ("access", "refresh", "id_token", "code") if c not in right and not (ep == "revocation" and c == "code")]
            return self.spec(rng, ep, sess_k, "own", rng.choice(wrong))
        if kind == "other-client" and ep != "userinfo":
            return self.spec(rng, ep, sess_k, "own", rng.choice(right), by="other")
        if kind == "other-client":
            kind = "mutant"
        return self.spec(rng, ep, sess_k, kind, rng.choice(right))

    def families(self, rng, quick):
        n_sess = len(TF_PAIRS)
        self.ensure_pool(n_sess)

        def sessions(k):
            return rng.sample(range(n_sess), k)
        # (1) two requests at ONE endpoint, tokens of two sessions, every interleaving of parse / process / respond
        every2 = all_interleavings(2, len(TF_STEPS))
        for ep in TF_ENDPOINTS:
            for rep in range(1 if quick else 4):
                a, b = sessions(2)
                specs = [self.spec(rng, ep, a), self.spec(rng, ep, b)]
                for sched in every2:
                    self.fly(specs, sched, "same-endpoint")
        # (2) two requests at two endpoints (the session manager and the handlers are shared by all endpoints)
        pairs = [(x, y) for x in TF_ENDPOINTS for y in TF_ENDPOINTS if x < y]
        for x, y in pairs:
            a, b = sessions(2)
            specs = [self.spec(rng, x, a), self.spec(rng, y, b)]
            for sched in (rng.sample(every2, 4) if quick else every2):
                self.fly(specs, sched, "two-endpoints")
        # (3) a request that must be refused in flight with a good one of another session, same endpoint: every interleaving
        for ep in TF_ENDPOINTS:
            for rep in range(1 if quick else 6):
                a, b = sessions(2)
                specs = [self.hostile_spec(rng, ep, a), self.spec(rng, ep, b)]
                if rng.random() < 0.5:
                    specs.reverse()
                for sched in (rng.sample(every2, 8) if quick else every2):
                    self.fly(specs, sched, "hostile-and-good")
        # (4) one user at two clients, two users at one client, the same endpoint: the sessions differ in one coordinate only
        for ep in TF_ENDPOINTS:
            for a, b in ((0, 2), (0, 1)):
                specs = [self.spec(rng, ep, a), self.spec(rng, ep, b)]
                for sched in (rng.sample(every2, 3) if quick else every2):
                    self.fly(specs, sched, "one-coordinate")
        # (5) three and four requests, any endpoints, any interleaving
        for _ in range(30 if quick else 1500):
            k = rng.choice([3, 3, 4])
            ss = sessions(k)
            same = rng.random() < 0.4
            ep0 = rng.choice(TF_ENDPOINTS)
            specs = []
            for j in range(k):
                ep = ep0 if same else rng.choice(TF_ENDPOINTS)
                specs.append(self.hostile_spec(rng, ep, ss[j]) if rng.random() < 0.2 else self.spec(rng, ep, ss[j]))
            self.fly(specs, random_interleaving(rng, k, len(TF_STEPS)), "random-%d" % k)


    def ispec(self, rng, sess_k, cls, by, release):
        sp = self.spec(rng, "introspection", sess_k, "own", cls, by=by, authn=rng.choice(["post", "basic"]))
        if release:
            sp["release"] = list(release)
        return sp

    def third_families(self, rng, quick):
        """introspections by clients that are not the client the token was minted for, tokens of several live sessions (two
        users x two applications among them), alone and in flight"""
        n_sess = len(TF_PAIRS)
        self.ensure_pool(n_sess)
        every2 = all_interleavings(2, len(TF_STEPS))
        askers = self.askers() + ["other"]
        # (1) one token, its owner and somebody else ask: every asker x every session x access / refresh token
        for k in range(n_sess):
            for cls in ("access", "refresh"):
                for by in askers:
                    rel = rng.choice([None, ["username"]])
                    specs = [self.ispec(rng, k, cls, "owner", rel), self.ispec(rng, k, cls, by, rel)]
                    if rng.random() < 0.5:
                        specs.reverse()
                    for sched in ([rng.choice(every2)] if quick else every2):
                        self.fly(specs, sched, "owner-and-third-party")
        # (2) third parties ask about tokens of two sessions: two users at one application, one user at two applications,
        #     both different - the sessions 0..4 are diana/client_1, babs/client_1, diana/client_2, dian/client_12, babs/client_2
        for a, b in ((0, 1), (0, 2), (1, 2), (0, 4), (3, 4)):
            for rep in range(1 if quick else 4):
                x, y = rng.choice(self.askers()), rng.choice(self.askers()[:3])
                rel = rng.choice([None, ["username"]])
                specs = [self.ispec(rng, a, rng.choice(["access", "refresh"]), x, rel), self.ispec(rng, b, rng.choice(["access", "refresh"]), y, rel)]
                for sched in (rng.sample(every2, 5) if quick else every2):
                    self.fly(specs, sched, "two-sessions-third-parties")
        # (3) one resource server asks about the tokens of several sessions at once
        for rep in range(2 if quick else 12):
            by = rng.choice(self.askers()[:3])
            ks = rng.sample(range(n_sess), 3)
            specs = [self.ispec(rng, k, rng.choice(["access", "refresh"]), by, ["username"]) for k in ks]
            self.fly(specs, random_interleaving(rng, 3, len(TF_STEPS)), "one-asker-three-sessions")
        # (4) a third-party introspection of one session in flight with another endpoint serving another session
        for ep in ("userinfo", "revocation", "refresh", "code"):
            for rep in range(1 if quick else 4):
                a, b = rng.sample(range(n_sess), 2)
                specs = [self.ispec(rng, a, rng.choice(["access", "refresh"]), rng.choice(self.askers()), None), self.spec(rng, ep, b)]
                if rng.random() < 0.5:
                    specs.reverse()
                for sched in (rng.sample(every2, 3) if quick else every2):
                    self.fly(specs, sched, "third-party-and-endpoint")
        # (5) what must stay refused whoever asks: wrong-class, altered, other-instance values presented by third parties
        for rep in range(6 if quick else 40):
            a, b = rng.sample(range(n_sess), 2)
            bad = self.hostile_spec(rng, "introspection", a)
            if bad.get("by") != "other":
                bad["by"] = rng.choice(self.askers())
            specs = [bad, self.ispec(rng, b, rng.choice(["access", "refresh"]), rng.choice(askers), None)]
            self.fly(specs, rng.choice(every2), "hostile-third-party")
        # (6) three and four requests, any asker, any endpoint
        for _ in range(12 if quick else 600):
            k = rng.choice([3, 3, 4])
            ss = rng.sample(range(n_sess), k)
            specs = []
            for j in range(k):
                if rng.random() < 0.65:
                    specs.append(self.ispec(rng, ss[j], rng.choice(["access", "refresh"]), rng.choice(askers + ["owner"]), rng.choice([None, ["username"]])))
                else:
                    specs.append(self.spec(rng, rng.choice(TF_ENDPOINTS), ss[j]))
            self.fly(specs, random_interleaving(rng, k, len(TF_STEPS)), "third-party-random-%d" % k)


def copy_info(http_info):
    return json.loads(json.dumps(http_info)) if http_info else {}


def flight_oracle(ctx, rng, variant):
    """-> the model cases of the flights flown on this variant"""
    fl = TFlights(ctx, variant)
    try:
        fl.families(rng, ctx.quick)
        return fl.cases
    finally:
        fl.close()


def third_party_oracle(ctx, rng, variant, mode):
    """-> the model cases of the introspections by third parties on this variant, the third parties admitted as `mode` says"""
    fl = TFlights(ctx, variant, third=mode)
    try:
        fl.third_families(rng, ctx.quick)
        return fl.cases
    finally:
        fl.close()


# ---------------------------------------------------------------------------------------------------------------
# (g) INDEPENDENT INSTANCES: WHERE THE HANDLER KEYS COME FROM.  Several provider instances live in one process
# (tenants, federation entities, two Server objects in one test).  The key of every opaque class handler and of the
# session manager is either GIVEN by the deployment (crypt_conf with a key, or with a password and a salt) or the
# LIBRARY generates it (the documented `"code": {"lifetime": 600}`, `kwargs: {}`, a crypt_conf without key material,
# DefaultToken / init_encrypter / Database built with no configuration).  Histories of 2-3 independently built
# instances (real providers, handler.factory handlers, DefaultToken objects), other encrypter-building library calls in
# between; the key material is read off every handler (Model/TokenFmt.v chk_ifresh: every generated key is a new draw),
# every instance runs sessions, and every code / access token / refresh token of every instance - and every genuine
# token with its plaintext encrypted anew under every other key of the history - is offered to the handlers, the
# session manager and the endpoints in every class slot (chk_icross).  Oracle: a value is accepted by an instance only
# if that instance minted it; instances with library-generated keys accept nothing of each other (control: instances
# the harness gave the same explicit keys resolve each other's tokens at the handler).
import hashlib as _hashlib

GEN = "gen"
IK_PW, IK_SALT = "pw-verif-0123456789", "salt-verif-0123456789"          # = srv.crypt_config(): the pinned configuration
IK_PW2, IK_SALT2 = "another password 0123456789", "another salt 0123456789"
IK_RAW = {1: _hashlib.sha256(b"C04 given handler key 1").digest(), 2: _hashlib.sha256(b"C04 given handler key 2").digest(),
          6: _hashlib.sha256(b"C04 given session manager key").digest()}
IK_LOCAL_FIRST = 500            # numbers of key material the harness did not give (all below Model/TokenFmt.v gen_base)
I_SLOTS = [("code", "authorization_code", 600), ("token", "access_token", 3600), ("refresh", "refresh_token", 86400)]
I_OTHER_DRAWS = {"server": 7, "default-token": 1, "init_encrypter": 1, "default_crypt_config": 1, "session-database": 1, "cookie-handler": 1}
I_ABSENT = object()


def _derived_key(pw, salt):
    from cryptojwt.jwe.fernet import FernetEncrypter
    return base64.urlsafe_b64decode(FernetEncrypter(password=pw, salt=salt, iterations=1).key)


def ik_given():
    if 3 not in IK_RAW:
        IK_RAW[3] = _derived_key(IK_PW, IK_SALT)
        IK_RAW[4] = _derived_key(IK_PW2, IK_SALT2)
    return IK_RAW


class IEnv:
    """configuration OBJECTS that several handlers / instances of a history share (a module constant, a YAML anchor)"""

    def __init__(self):
        self.shared_spec = {"lifetime": 900, "kwargs": {}}
        self.shared_crypt = {"class": "cryptojwt.jwe.fernet.FernetEncrypter"}


def handler_sources():
    """how the specification of one opaque class handler (a token_handler_args entry) says - or does not say - where the
    key comes from: name -> (model: GEN | number of the given key, lt, env -> entry)"""
    from idpyoidc.encrypter import DEFAULT_CRYPTO, default_crypt_config
    cc = lambda lt, conf: {"lifetime": lt, "kwargs": {"crypt_conf": conf}}
    return {
        # ---- the library generates the key
        "lifetime-only": (GEN, lambda lt, e: {"lifetime": lt}),                                  # the documented set-up
        "empty-kwargs": (GEN, lambda lt, e: {"lifetime": lt, "kwargs": {}}),
        "kwargs-lifetime": (GEN, lambda lt, e: {"kwargs": {"lifetime": lt}}),
        "explicit-class": (GEN, lambda lt, e: {"class": "idpyoidc.server.token.DefaultToken", "lifetime": lt}),
        "explicit-class-kwargs": (GEN, lambda lt, e: {"class": "idpyoidc.server.token.DefaultToken", "kwargs": {"lifetime": lt, "token_type": "Bearer"}}),
        "legacy-password": (GEN, lambda lt, e: {"lifetime": lt, "password": IK_PW}),           # no encrypter configuration
        "crypt-none": (GEN, lambda lt, e: cc(lt, None)),
        "crypt-class-only": (GEN, lambda lt, e: cc(lt, {"class": DEFAULT_CRYPTO})),
        "crypt-class-only-same-object": (GEN, lambda lt, e: cc(lt, e.shared_crypt)),
        "crypt-empty-kwargs": (GEN, lambda lt, e: cc(lt, {"kwargs": {"iterations": 1}})),
        "crypt-key-none": (GEN, lambda lt, e: cc(lt, {"kwargs": {"key": None}})),
        "crypt-default-config": (GEN, lambda lt, e: cc(lt, default_crypt_config())),
        "crypt-key_defs": (GEN, lambda lt, e: cc(lt, copy.deepcopy(srv.CRYPT_CONFIG))),
        "crypt-password-without-salt": (GEN, lambda lt, e: cc(lt, {"kwargs": {"password": IK_PW, "iterations": 1}})),
        "crypt-salt-without-password": (GEN, lambda lt, e: cc(lt, {"kwargs": {"salt": IK_SALT, "iterations": 1}})),
        "same-object": (GEN, lambda lt, e: e.shared_spec),
        # ---- the harness supplies it
        "given-key-1": (1, lambda lt, e: cc(lt, {"kwargs": {"key": IK_RAW[1]}})),
        "given-key-2": (2, lambda lt, e: cc(lt, {"class": DEFAULT_CRYPTO, "kwargs": {"key": IK_RAW[2]}})),
        "given-password-salt": (3, lambda lt, e: cc(lt, srv.crypt_config())),
        "given-password-salt-top": (3, lambda lt, e: cc(lt, {"password": IK_PW, "salt": IK_SALT, "iterations": 1})),
        "given-other-password-salt": (4, lambda lt, e: cc(lt, srv.crypt_config(IK_PW2, IK_SALT2))),
    }


def sm_sources():
    """the session manager's encrypter (session_params): name -> (model, env -> session_params | I_ABSENT)"""
    from idpyoidc.encrypter import DEFAULT_CRYPTO, default_crypt_config
    return {
        "absent": (GEN, lambda e: I_ABSENT),
        "empty": (GEN, lambda e: {}),
        "encrypter-default-config": (GEN, lambda e: {"encrypter": default_crypt_config()}),
        "encrypter-class-only": (GEN, lambda e: {"encrypter": {"class": DEFAULT_CRYPTO}}),
        "encrypter-key_defs": (GEN, lambda e: {"encrypter": copy.deepcopy(srv.CRYPT_CONFIG)}),
        "encrypter-password-without-salt": (GEN, lambda e: {"encrypter": {"kwargs": {"password": IK_PW, "iterations": 1}}}),
        "given-password-salt": (3, lambda e: {"encrypter": srv.crypt_config()}),
        "given-key": (6, lambda e: {"encrypter": {"kwargs": {"key": IK_RAW[6], "salt": b"0123456789abcdef"}}}),
    }


def i_other_call(kind, sink):
    """library calls that build encrypters / draw key material, between the constructions of instances"""
    from idpyoidc.encrypter import default_crypt_config, init_encrypter
    if kind == "server":
        sink.append(srv.make_server(pinned=False))
    elif kind == "default-token":
        from idpyoidc.server.token import DefaultToken
        sink.append(DefaultToken("access_token"))
    elif kind == "init_encrypter":
        sink.append(init_encrypter())
    elif kind == "default_crypt_config":
        sink.append(default_crypt_config())
    elif kind == "session-database":
        from idpyoidc.server.session.database import Database
        sink.append(Database())
    elif kind == "cookie-handler":
        from idpyoidc.server.cookie_handler import CookieHandler
        from idpyoidc.encrypter import DEFAULT_CRYPTO
        sink.append(CookieHandler(crypt_config={"class": DEFAULT_CRYPTO}))


def raw_key(obj):
    c = getattr(obj, "crypt", None)
    return None if c is None or getattr(c, "key", None) is None else base64.urlsafe_b64decode(c.key)


class Instance:
    """one independently built instance: `kind` provider (a real Server with sessions), factory (the handlers of
    idpyoidc.server.token.handler.factory + a session Database) or direct (DefaultToken objects + a Database).
    spec: {"code": source, "token": source | "jwt", "refresh": source | "jwt", "sm": source}"""

    def __init__(self, kind, spec, env, hs, sms):
        self.kind, self.spec, self.rs = kind, dict(spec), None
        self.model = {"code": None if spec["code"] == "jwt" else hs[spec["code"]][0],
                      "token": None if spec["token"] == "jwt" else hs[spec["token"]][0],
                      "refresh": None if spec["refresh"] == "jwt" else hs[spec["refresh"]][0],
                      "sm": sms[spec["sm"]][0]}
        ik_given()
        if kind == "provider":
            self._provider(env, hs, sms)
        else:
            self._bare(env, hs, sms)
        self.keys = [raw_key(self.th.handler[cls]) for _, cls, _ in I_SLOTS] + [raw_key(self.sm)]

    def _provider(self, env, hs, sms):
        spec = self.spec
        old_mk, old_conf = srv.make_server, srv.op_conf

        def mk(*a, **k):
            k.setdefault("pinned", False)
            return old_mk(*a, **k)

        def conf(*a, **k):
            c = old_conf(*a, **k)
            for slot, _, lt in I_SLOTS:
                if spec[slot] != "jwt":
                    c["token_handler_args"][slot] = hs[spec[slot]][1](lt, env)
            sp = sms[spec["sm"]][1](env)
            if sp is I_ABSENT:
                c.pop("session_params", None)
            else:
                c["session_params"] = sp
            return c
        srv.make_server, srv.op_conf = mk, conf
        try:
            self.rs = FastSession(oidc=True, jwt_access=spec["token"] == "jwt", jwt_refresh=spec["refresh"] == "jwt")
        finally:
            srv.make_server, srv.op_conf = old_mk, old_conf
        self.th, self.sm = self.rs.sm.token_handler, self.rs.sm

    def _bare(self, env, hs, sms):
        from idpyoidc.server.session.database import Database
        from idpyoidc.server.token import handler as H, DefaultToken
        spec = self.spec
        if self.kind == "factory":
            args = {slot: hs[spec[slot]][1](lt, env) for slot, _, lt in I_SLOTS}
            self.th = H.factory(lambda *a: srv.RUN, **args)
        else:       # DefaultToken objects built directly: what the entry says goes to the constructor
            objs = {}
            for slot, cls, lt in I_SLOTS:
                entry = hs[spec[slot]][1](lt, env)
                kw = dict(entry.get("kwargs") or {})
                kw.setdefault("lifetime", entry.get("lifetime", lt))
                objs[cls] = DefaultToken(cls, **kw)
            self.th = H.TokenHandler(**objs)
        sp = sms[spec["sm"]][1](env)
        conf = None if sp is I_ABSENT else sp.get("encrypter")
        self.sm = Database(crypt_config=conf) if conf is not None else Database()

    def flows(self, pairs):
        """sessions; -> [{"user", "client", "authorization_code": value, "access_token": value, "refresh_token": value}]"""
        out = []
        if self.rs is None:
            for n, (u, c) in enumerate(pairs):
                sid = "%s;;%s;;grant-%d" % (u, c, n)
                out.append(dict({"user": u, "client": c}, **{cls: self.th.handler[cls](session_id=sid) for _, cls, _ in I_SLOTS}))
            return out
        r = self.rs
        for u, c in pairs:
            o = r.run(("authz", u, c, ["openid", "email", "offline_access"]))
            code = o[1][0]
            spare = r.run(("authz", u, c, ["openid", "email", "offline_access"]))[1][0]
            r.run(("tparse", c, ("tok", code), "same"))
            p = r.run(("proc", len(r.parsed) - 1, None))
            if p[0] != "ok":
                raise RuntimeError("flow of (%s, %s) did not complete on an instance %r: %r" % (u, c, self.spec, p))
            out.append({"user": u, "client": c, "authorization_code": r.tokens[spare], "access_token": r.tokens[p[1]["access_token"]],
                        "refresh_token": r.tokens[p[1]["refresh_token"]]})
        return out

    def close(self):
        if self.rs is not None:
            self.rs.close()


I_HSLOT = {"authorization_code": 0, "refresh_token": 1, "access_token": 2}       # Model/TokenFmt.v slot_of: SCode, SRefresh, SUserinfo
I_CLS_NUM = {"authorization_code": 0, "access_token": 1, "refresh_token": 2}     # tk_of
I_CLS_SLOT = {"authorization_code": "code", "access_token": "token", "refresh_token": "refresh"}
I_KEYSLOT = ["code", "token", "refresh", "sm"]


def coq_ispec(model):
    def h(x):
        if x is None:
            return "(HsJwt 50%nat)"
        return "(HsOpaque KsGen)" if x == GEN else "(HsOpaque (KsGiven %d%%nat))" % x
    sm = "KsGen" if model["sm"] == GEN else "(KsGiven %d%%nat)" % model["sm"]
    return "(mk_ispec %s %s %s 50%%nat %s)" % (h(model["code"]), h(model["token"]), h(model["refresh"]), sm)


class InstanceHistories:
    def __init__(self, ctx):
        self.ctx = ctx
        self.hs, self.sms = handler_sources(), sm_sources()
        self.defs, self.fresh_cases, self.cross_cases = [], [], []
        self.n = 0
        self.listed = {}

    def verdict(self, sig, what, rec):
        """every verdict counts; the first 40 of a signature are listed with their input"""
        self.listed[sig] = self.listed.get(sig, 0) + 1
        if self.listed[sig] <= 40:
            self.ctx.violation(sig, what, rec)
        else:
            self.ctx.count("instances:verdicts-not-listed:" + sig)

    # ---- one history
    def run(self, family, steps, pairs=(("diana", "client_1"), ("babs", "client_2")), reenc_flows=1):
        """steps: [("i", kind, spec) | ("o", what)]"""
        ctx = self.ctx
        self.n += 1
        hname = "ihist%d" % self.n
        env = IEnv()
        insts, sink, coq_steps, desc = [], [], [], []
        try:
            for st in steps:
                if st[0] == "o":
                    i_other_call(st[1], sink)
                    coq_steps.append("IOther %d%%nat" % I_OTHER_DRAWS[st[1]])
                    desc.append("other:" + st[1])
                    continue
                inst = Instance(st[1], st[2], env, self.hs, self.sms)
                insts.append(inst)
                if st[1] == "provider":
                    coq_steps += ["IOther 3%nat", "IInst %s" % coq_ispec(inst.model), "IOther 4%nat"]      # cookie handler, key jar ...
                else:
                    coq_steps.append("IInst %s" % coq_ispec(inst.model))
                desc.append("%s:%s" % (st[1], ",".join("%s=%s" % (k, inst.spec[k]) for k in I_KEYSLOT)))
            self.defs.append("Definition %s : list istep := %s.\n" % (hname, coq_list(coq_steps, "istep")))
            ctx.count("instances:history:" + family)
            self._keys(family, hname, desc, insts)
            self._present(family, hname, desc, insts, pairs, reenc_flows)
        finally:
            for i in reversed(insts):       # every instance installed its clock over the previous one
                i.close()

    # ---- the key material read off the instances
    def _keys(self, family, hname, desc, insts):
        ctx = self.ctx
        given = ik_given()
        local = {}

        def number(raw):
            if raw is None:
                return None
            for k, v in given.items():
                if v == raw:
                    return k
            if raw not in local:
                local[raw] = IK_LOCAL_FIRST + len(local)
            return local[raw]
        for inst in insts:
            inst.ids = [number(r) for r in inst.keys]
        hrec = {"kind": "instance-key-material", "family": family, "history": desc,
                "specs": [[inst.model[k] for k in I_KEYSLOT] for inst in insts],
                "key_fingerprints": [[None if r is None else _hashlib.sha256(r).hexdigest()[:12] for r in inst.keys] for inst in insts],
                "key_ids": [inst.ids for inst in insts]}
        ctx.case_seen(hrec, True)
        o = lambda x: "None" if x is None else "(Some %d%%nat)" % x
        self.fresh_cases.append(("(%s, %s)" % (hname, coq_list([coq_list([o(x) for x in inst.ids], "option nat") for inst in insts], "list (option nat)")), hrec))
        slots = [(i, q, inst.model[k], inst.keys[q]) for i, inst in enumerate(insts) for q, k in enumerate(I_KEYSLOT)]
        shared = []
        for a in range(len(slots)):
            for b in range(a + 1, len(slots)):
                (i, q, sp, raw), (j, l, sp2, raw2) = slots[a], slots[b]
                if raw is not None and raw == raw2 and (sp == GEN or sp2 == GEN):
                    shared.append([i, I_KEYSLOT[q], j, I_KEYSLOT[l]])
        for i, q, sp, raw in slots:
            if isinstance(sp, int) and raw != given[sp]:
                ctx.mismatch("instance %d (%s): the key material the configuration supplies for %s is not the key in use"
                             % (i, desc[i] if i < len(desc) else "", I_KEYSLOT[q]), hrec)
        if shared:
            hrec["shared"] = shared
            ctx.count("instances:generated-key-shared", len(shared))
        ctx.count("instances:generated-keys-observed", sum(1 for _, _, sp, _ in slots if sp == GEN))

    # ---- who accepts what
    def _same_given(self, a, ka, b, kb):
        """did the harness give the two key slots the same key?"""
        x, y = a.model[ka], b.model[kb]
        return (isinstance(x, int) and x == y) or (x is None and y is None and ka == kb)      # JWT handlers: one key file

    def _present(self, family, hname, desc, insts, pairs, reenc_flows):
        ctx = self.ctx
        seen = set()

        def model_case(i, j, cls, re, res, rec):
            """one value at all the places it was offered (Model/TokenFmt.v igroup_slots: the class handlers and the class-agnostic
            lookup at the handler, then at the session manager)"""
            obs = tuple(res[(level, slot)] for level in ("handler", "sm") for slot in (0, 1, 2, 4) if (level, slot) in res)
            key = (i, j, cls, re, obs)
            if key in seen:
                return
            seen.add(key)
            re_t = "None" if re is None else "(Some (%d, %d))" % re
            self.cross_cases.append(("(%s, %d, %d, %d, %s, %s)" % (hname, i, j, I_CLS_NUM[cls], re_t, coq_list([coq_bool(b) for b in obs], "bool")),
                                     dict(rec, accepted_at={"%s:%d" % k: v for k, v in res.items()})))

        def ask(inst, value):
            """-> {(level, slot): accepted} for the three class handlers and the class-agnostic lookup, at the handler
            and (providers) at the session manager"""
            out = {}
            for hk, slot in list(I_HSLOT.items()) + [(None, 4)]:
                try:
                    info = inst.th.handler[hk].info(value) if hk else inst.th.info(value)
                    out[("handler", slot)] = bool(info.get("sid"))
                except Exception:
                    out[("handler", slot)] = False
                if inst.rs is not None:
                    try:
                        si = inst.sm.get_session_info_by_token(value, grant=True, handler_key=hk) if hk else \
                            inst.sm.get_session_info_by_token(value, grant=True)
                        out[("sm", slot)] = si.get("grant") is not None
                    except Exception:
                        out[("sm", slot)] = False
            return out

        def at_endpoints(inst, value, client, slots):
            out = {}
            if inst.rs is not None:
                for s in slots:
                    out[s] = present(inst.rs, s, value, client)[0] == "accepted"
            return out

        toks = [inst.flows(pairs) for inst in insts]
        for i, a in enumerate(insts):
            for fi, f in enumerate(toks[i]):
                for cls in CLASSES:
                    val = f[cls]
                    own_slot = I_HSLOT[cls]
                    # ---- the token as it is, offered to every instance of the history
                    for j, b in enumerate(insts):
                        res = ask(b, val)
                        eps = at_endpoints(b, val, f["client"], ("userinfo", "introspection", "refresh", "code")) if i != j else {}
                        base = {"kind": "instance-cross", "family": family, "history": desc, "minter": i, "presented_to": j,
                                "minter_spec": a.spec, "receiver_spec": b.spec, "class": cls, "session": [f["user"], f["client"]],
                                "value": val[:300]}
                        model_case(i, j, cls, None, res, base)
                        for (level, slot), acc in res.items():
                            rec = dict(base, level=level, slot=slot, accepted=acc)
                            ctx.case_seen(rec, True)
                            if i == j:
                                ctx.count("instances:own:%s:%s" % (level, "accepted" if acc else "refused"))
                                if slot in (own_slot, 4) and not acc:
                                    self.verdict("genuine-refused", "history %s: instance %d refuses its own %s (%s, slot %d)" % (desc, i, cls, level, slot), rec)
                                if slot not in (own_slot, 4) and acc:
                                    self.verdict("wrong-class-accepted", "history %s: instance %d resolves its own %s in class slot %d (%s)" % (desc, i, cls, slot, level), rec)
                                continue
                            control = self._same_given(a, I_CLS_SLOT[cls], b, I_CLS_SLOT[cls])
                            ctx.count("instances:foreign:%s:%s:%s" % ("same-given-keys" if control else "independent", level, "accepted" if acc else "refused"))
                            if acc and (level == "sm" or not control or slot not in (own_slot, 4)):
                                self.verdict("foreign-accepted",
                                              "history %s: instance %d (%s) accepts at the %s (slot %d) the %s that instance %d (%s) minted for (%s, %s); "
                                              "the two were built independently%s" % (
                                                  desc, j, desc_of(b), "session manager" if level == "sm" else "handler", slot, cls, i, desc_of(a),
                                                  f["user"], f["client"], "" if not control else " (same given keys: the handler may read it, nothing may resolve it)"), rec)
                        for s, acc in eps.items():
                            rec = dict(base, level="endpoint", slot=s, accepted=acc)
                            ctx.case_seen(rec, True)
                            ctx.count("instances:foreign:endpoint:%s" % ("accepted" if acc else "refused"))
                            if acc:
                                self.verdict("foreign-accepted", "history %s: the %s endpoint slot of instance %d (%s) accepts the %s that instance %d (%s) "
                                              "minted for (%s, %s)" % (desc, s, j, desc_of(b), cls, i, desc_of(a), f["user"], f["client"]), rec)
                    # ---- its plaintext encrypted anew under every other key of the history, offered to its minter
                    hd = a.th.handler[cls]
                    if fi >= reenc_flows or raw_key(hd) is None:
                        continue
                    plain = hd.crypt.decrypt(base64.b64decode(val))
                    for i2, b in enumerate(insts):
                        for q, kslot in enumerate(I_KEYSLOT):
                            if b.keys[q] is None or (i2 == i and kslot == I_CLS_SLOT[cls]):
                                continue
                            enc = b.sm.crypt if kslot == "sm" else b.th.handler[I_SLOTS[q][1]].crypt
                            forged = base64.b64encode(enc.encrypt(plain)).decode("utf-8")
                            res = ask(a, forged)
                            eps = at_endpoints(a, forged, f["client"], SLOT_OF[cls]) if i2 != i else {}
                            control = self._same_given(a, I_CLS_SLOT[cls], b, kslot)
                            base = {"kind": "instance-reencrypted", "family": family, "history": desc, "minter": i, "key_of": [i2, kslot],
                                    "minter_spec": a.spec, "key_owner_spec": b.spec, "class": cls, "session": [f["user"], f["client"]],
                                    "genuine": val[:300], "value": forged[:300]}
                            model_case(i, i, cls, (i2, q), res, base)
                            for (level, slot), acc in res.items():
                                rec = dict(base, level=level, slot=slot, accepted=acc)
                                ctx.case_seen(rec, True)
                                who = "own-other-slot" if i2 == i else ("same-given-keys" if control else "independent")
                                ctx.count("instances:reencrypted:%s:%s:%s" % (who, level, "accepted" if acc else "refused"))
                                if acc and i2 != i and not control:
                                    self.verdict("reencrypted-accepted",
                                                  "history %s: instance %d (%s) accepts at the %s (slot %d) a value it never minted: the plaintext of its %s for "
                                                  "(%s, %s) encrypted under the %s key of the independently built instance %d (%s)" % (
                                                      desc, i, desc_of(a), "session manager" if level == "sm" else "handler", slot, cls, f["user"], f["client"],
                                                      kslot, i2, desc_of(b)), rec)
                            for s, acc in eps.items():
                                rec = dict(base, level="endpoint", slot=s, accepted=acc)
                                ctx.case_seen(rec, True)
                                ctx.count("instances:reencrypted:endpoint:%s" % ("accepted" if acc else "refused"))
                                if acc:       # the endpoints match the exact value: never minted, never accepted - whoever holds the key
                                    self.verdict("reencrypted-accepted", "history %s: the %s endpoint slot of instance %d (%s) accepts the plaintext of its %s for "
                                                  "(%s, %s) encrypted under the %s key of instance %d (%s)" % (desc, s, i, desc_of(a), cls, f["user"], f["client"],
                                                                                                               kslot, i2, desc_of(b)), rec)

    # ---- the model on all of it
    def start(self):
        """the model on all of it: the coqc jobs run while the driver goes on with the other families"""
        ctx = self.ctx
        imports = ["Lib.Base", "Lib.PyStr", "Lib.Crypto", "Model.Lv", "Model.TokenFmt"]
        pre = "".join(self.defs)
        jobs = [("ifresh", "ifresh_case", self.fresh_cases, "chk_ifresh")]
        jobs += [("icross", "igroup_case", self.cross_cases[k:k + 400], "chk_igroup") for k in range(0, len(self.cross_cases), 400)]
        from concurrent.futures import ThreadPoolExecutor
        import engine

        def run(job):
            label, ty, cases, chk = job
            if not cases:
                return job, [], None
            with _ishard_lock:
                _ishard_seq[0] += 1
                name = "%s_%s_g%03d" % (ctx.prop, label, _ishard_seq[0])
            body = "Open Scope nat_scope.\n" + pre + "Definition cases : list (%s) := [\n%s\n].\nEval vm_compute in (bad_indices (%s) cases).\n" % (
                ty, ";\n".join(t for t, _ in cases), chk)
            rc, out, vals = ctx.coq_eval(name, imports, body)
            if rc != 0 or not vals:
                return job, [], "correspondence shard %s does not evaluate: %s" % (name, out.strip()[-600:])
            try:
                idx = parse_idx(vals[-1])
            except ValueError as e:
                return job, [], "correspondence shard %s: %s" % (name, e)
            return job, [(name, k) for k in idx], None
        ctx.ensure_built(imports)
        self.pool = ThreadPoolExecutor(max_workers=max(1, min(engine.NCPU // 2, len(jobs))))
        self.futures = [self.pool.submit(run, jb) for jb in jobs]

    def finish(self):
        ctx = self.ctx
        results = [f.result() for f in self.futures]
        self.pool.shutdown()
        nbad = 0
        for (label, ty, cases, chk), bad, problem in results:
            if problem:
                ctx.broken.append(problem)
                continue
            ctx.traces += len(cases)
            for name, k in bad:
                nbad += 1
                if nbad > 25:
                    continue
                rec = cases[k][1]
                if label == "ifresh":
                    ctx.mismatch("key material of independently built provider instances: the model (every generated key is a new draw, draws "
                                 "distinct) and the real handlers disagree on which keys are equal (%s[%d]); shared key slots (instance, slot, "
                                 "instance, slot): %r" % (name, k, rec.get("shared")), rec, model=cases[k][0][:400])
                else:
                    ctx.mismatch("a token of one instance offered to another (accepted_at: the three class handlers 0-2 and the class-agnostic "
                                 "lookup 4, at the handler and at the session manager): model and implementation disagree (%s[%d])" % (name, k), rec,
                                 model=cases[k][0][:300])
        if nbad > 25:
            ctx.mismatch("... and %d more disagreements on independently built instances" % (nbad - 25), {})

    def evaluate(self):
        self.start()
        self.finish()


import threading as _threading
_ishard_lock = _threading.Lock()
_ishard_seq = [0]


def parse_idx(v):
    import engine
    return engine.parse_nat_list(v)


def desc_of(inst):
    return "%s: %s" % (inst.kind, ", ".join("%s=%s" % (k, inst.spec[k]) for k in I_KEYSLOT))


def instance_histories(ctx, rng):
    import logging
    noisy = [logging.getLogger(n) for n in ("cryptojwt.jws.jws", "idpyoidc.server.token.handler", "idpyoidc.server.session.database")]
    levels = [lg.level for lg in noisy]
    for lg in noisy:          # every foreign value makes the libraries log it in full
        lg.setLevel(logging.CRITICAL)
    import time
    t0 = time.time()
    try:
        return _instance_histories(ctx, rng)
    finally:
        ctx.notes.append("independently built instances (key sources): %.1f s" % (time.time() - t0))
        for lg, lv in zip(noisy, levels):
            lg.setLevel(lv)


def _instance_histories(ctx, rng):
    H = InstanceHistories(ctx)
    hs, sms = H.hs, H.sms
    gen_h = [n for n, (m, _) in hs.items() if m == GEN]
    gen_sm = [n for n, (m, _) in sms.items() if m == GEN]
    others = ["default_crypt_config", "init_encrypter", "default-token", "session-database", "cookie-handler", "server"]
    uni = lambda h, sm: {"code": h, "token": h, "refresh": h, "sm": sm}
    two = (("diana", "client_1"), ("babs", "client_2"))
    few = two[:1] if ctx.quick else two
    # (a) the documented default set-up three times in one process, other encrypters built in between
    doc = uni("lifetime-only", "absent")
    H.run("documented-default", [("i", "provider", doc), ("i", "provider", doc), ("i", "provider", doc)], reenc_flows=2)
    H.run("documented-default", [("i", "provider", doc), ("o", "default-token"), ("o", "server"), ("i", "provider", doc), ("o", "init_encrypter"),
                                 ("i", "provider", doc)])
    # (b) every way of leaving the key to the library, twice in a row as real providers; every session-manager source in turn
    for k, h in enumerate(gen_h):
        sm = gen_sm[k % len(gen_sm)]
        steps = [("i", "provider", uni(h, sm)), ("i", "provider", uni(h, sm))]
        if k % 2:
            steps.insert(1, ("o", others[k % 5]))
        H.run("same-source", steps, pairs=few if k % 4 else two)
    # (c) the same through handler.factory and through DefaultToken objects built directly (no provider around them)
    for k, h in enumerate(gen_h):
        if ctx.quick and k % 2 and h not in ("lifetime-only", "crypt-none"):
            continue
        kind = "direct" if h not in ("legacy-password", "explicit-class", "explicit-class-kwargs") and k % 3 != 1 else "factory"
        H.run("bare-handlers", [("i", kind, uni(h, gen_sm[k % 3])), ("o", others[(k + 2) % 5]), ("i", kind, uni(h, gen_sm[k % 3])),
                                ("i", "provider" if k % 4 == 0 else kind, uni(h, gen_sm[(k + 1) % 3]))], pairs=few)
    H.run("bare-handlers", [("i", "direct", doc), ("i", "direct", doc), ("i", "factory", doc), ("i", "factory", doc)])
    # (d) controls: the same given keys (a provider restarted with its key material, two workers of one deployment) next to
    #     other given keys and to generated ones
    pinned = uni("given-password-salt", "given-password-salt")
    H.run("given", [("i", "provider", pinned), ("i", "provider", pinned), ("i", "provider", uni("given-other-password-salt", "given-key"))])
    H.run("given", [("i", "provider", uni("given-key-1", "given-key")), ("o", "init_encrypter"), ("i", "provider", uni("given-key-1", "given-key")),
                    ("i", "provider", uni("given-key-2", "given-key"))])
    H.run("given", [("i", "provider", pinned), ("i", "provider", uni("given-password-salt-top", "absent")), ("i", "provider", doc)])
    H.run("given", [("i", "factory", uni("given-key-1", "given-key")), ("i", "direct", uni("given-key-1", "absent")), ("i", "direct", uni("given-key-2", "absent"))])
    # (e) JWT access / refresh handlers next to opaque ones (the signing keys come from one key file: given)
    H.run("jwt-mixed", [("i", "provider", {"code": "lifetime-only", "token": "jwt", "refresh": "lifetime-only", "sm": "absent"}),
                        ("i", "provider", {"code": "lifetime-only", "token": "jwt", "refresh": "empty-kwargs", "sm": "empty"})])
    H.run("jwt-mixed", [("i", "provider", {"code": "crypt-none", "token": "jwt", "refresh": "jwt", "sm": "encrypter-default-config"}),
                        ("i", "provider", {"code": "crypt-none", "token": "jwt", "refresh": "jwt", "sm": "encrypter-default-config"})])
    # (f) random histories: every slot of every instance its own source
    allh = list(hs)
    for _ in range(6 if ctx.quick else 150):
        steps = []
        for _ in range(rng.randint(2, 3)):
            if rng.random() < 0.3:
                steps.append(("o", rng.choice(others[:5])))
            spec = {s: rng.choice(gen_h if rng.random() < 0.7 else allh) for s in ("code", "token", "refresh")}
            spec["sm"] = rng.choice(list(sms))
            kind = rng.choice(["provider", "provider", "factory", "direct"])
            if kind == "direct":
                spec = {s: (v if v not in ("legacy-password", "explicit-class", "explicit-class-kwargs", "same-object") else "lifetime-only") for s, v in spec.items()}
            steps.append(("i", kind, spec))
        H.run("random", steps, pairs=few)
    H.start()
    return H


VARIANTS = [(True, False, None), (False, False, None), (True, True, None), (True, True, "ES256"),
            (True, False, None, "alias", False), (True, True, None, "alias", True)]


def run(ctx):
    rng = ctx.rng
    server = srv.make_server()
    plain_cases(ctx, rng, server, 200 if ctx.quick else 5000)
    info_matrix(ctx, True)
    info_matrix(ctx, False)
    # independently built instances: where the handler keys come from (the model is evaluated on them in the background)
    inst = instance_histories(ctx, rng)
    # the last two: the handler slots of one kind reference one kwargs dict (opaque x3; JWT access + JWT refresh)
    for variant in VARIANTS:
        endpoint_oracle(ctx, rng, variant, 2 if ctx.quick else 12, 14 if ctx.quick else 80)
    configs = revocation_authn_configs()
    for i, variant in enumerate(VARIANTS):
        for j, authn in enumerate(configs):
            if ctx.quick and j != i % len(configs):
                continue
            bearer_oracle(ctx, rng, variant, authn, 3 if ctx.quick else 8, 10 if ctx.quick else 60)
    # requests of different sessions in flight at the shared endpoint objects
    cases = []
    for variant in VARIANTS:
        cases += flight_oracle(ctx, rng, variant)
    ctx.coq_check_cases(["Lib.Base", "Lib.PyStr", "Lib.Crypto", "Model.Lv", "Model.TokenFmt"], "tfcase", "chk_tflight", cases,
                        shard=120, label="tflight", diag="diag_tflight")
    # the asker of an introspection: third parties the audience rule admits (and some it does not), every way of admitting
    # them, opaque and JWT handlers
    cases = []
    for i, variant in enumerate(VARIANTS):
        for j, mode in enumerate(THIRD_MODES):
            if ctx.quick and i > 0 and j != i % len(THIRD_MODES) and not (i == 2 and j == 0):
                continue
            cases += third_party_oracle(ctx, rng, variant, mode)
    ctx.coq_check_cases(["Lib.Base", "Lib.PyStr", "Lib.Crypto", "Model.Lv", "Model.TokenFmt"], "tfcase", "chk_tflight", cases,
                        shard=120, label="tflight_asker", diag="diag_tflight")
    # one accepted string, two readers: the claims of JWT-formatted tokens of every minting path vs. the session they resolve to
    c04_claims.claims_oracle(ctx)
    inst.finish()


def replay(ctx, rp):
    case = rp.get("case") or {}
    if case.get("kind") == "claims":
        c04_claims.replay_case(ctx, case)
        return
    if case.get("kind") == "tflight":
        # the recorded flight alone, on a fresh provider of the recorded variant
        fl = TFlights(ctx, tuple(case["variant"]), third=case.get("third"))
        try:
            print("replaying flight [%s] of %d requests on variant %r" % (sched_text(case["schedule"]), len(case["specs"]), case["variant"]))
            for i, sp in enumerate(case["specs"]):
                print("  request %d: %s" % (i, json.dumps(sp, sort_keys=True)))
            fl.fly(case["specs"], case["schedule"], case.get("family", "replay"))
            fl.check_model("tflight_replay")
        finally:
            fl.close()
        for v in ctx.violations[:6]:
            print("  " + v["what"][:1200])
        return
    run(ctx)
