"""C05 driver — scope never escalates across minting, refresh and exchange; the views agree."""
import base64
import copy
import json

import sess
import srv
import drv_session_common as common

RULE = ("(a) histories on real OIDC and OAuth2 providers compared with the Gallina session model (authorize with arbitrary "
        "requested scope lists incl. unknown and not-allowed values, per-client allowed_scopes absent/subset, code exchange, refresh "
        "with narrowed / equal / widened scope parameters, chained refreshes), oracle after every operation; further "
        "authorization requests within one browser session (the request carries the provider's session cookie of an earlier "
        "authorization: identical / narrower / wider / disjoint / reordered scope, same or other registered redirect_uri, client, "
        "user, state+nonce; earlier code pending or redeemed), every token held against the request of the authorization IT was "
        "minted from; (b) oracle-only "
        "histories with JWT access tokens (scope claim inside the JWT), client_credentials, and token exchange (same and other "
        "client, narrowed/widened scope, access and refresh subject tokens); (c) tokens minted by the AUTHORIZATION endpoint itself: "
        "authorization requests with the response types token / id_token token / code token / code id_token token / code id_token / "
        "id_token are an operation of the model-compared histories (AuthorizeRT) and of the JWT histories; every artefact of such a "
        "response (code, front-channel access token, ID Token) is held against the request IT came from - session record, the "
        "response's scope statement, JWT scope claim (access token and ID Token), introspection - and the hybrid code is redeemed "
        "and refreshed; (d) the RFC 8707 resource parameter: OIDC and OAuth2 providers whose client database also holds resource-"
        "server entries (own `scope` list and / or allowed_scopes, one without allowed_scopes) and clients that list scopes, "
        "resource-indicator policy absent / provider-wide / per client / provider-wide with default arguments at the "
        "authorization endpoint and absent / provider-wide / per client at the OAuth2 token endpoint; authorization requests of every "
        "response type naming no / one / several / unknown / not-permitted resources, codes redeemed with and without resource and "
        "scope parameters, refreshed; the bound of every token is requested ∩ allowed of ITS authorization (a resource never adds a "
        "scope), the decision (grant, code, access token, ID Token, response statement) is compared with ScopeFlows.authz_decide / "
        "token_ri_statement. A history is non-trivial when tokens were minted.")
ASSUMPTIONS = ["a provider whose usage rules are configured per client only sees no cookie-carrying authorization requests in the "
               "model-compared histories (the grant it makes for such a request gets no usage rules at all; the model's lifetimes are per provider); "
               "the oracle-only JWT histories do send them there",
               "token exchange, client_credentials: decided by the oracle on the real endpoints only (not in the Gallina model)",
               "the password grant needs a password-checking authentication method that the harness provider does not configure: not exercised",
               "client authentication succeeds for the authenticating client (C01)",
               "a cookie-carrying authorization request always has response_type=code; after an implicit / hybrid authorization it "
               "never re-sends that authorization's nonce (it differs from the stored request by its response type anyway)",
               "the resource parameter is exercised by the oracle flows and the decision function ScopeFlows.authz_decide, not inside "
               "Model/Session.v; the OAuth2 flavour sees no id_token response types"]

DEFAULT_ALLOWED = ["openid", "profile", "email", "address", "phone", "offline_access"]


def allowed(rs, client):
    return rs.ctx.cdb[client].get("allowed_scopes", DEFAULT_ALLOWED)


class ScopeOracle:
    def __init__(self, ctx, res=None):
        self.ctx = ctx
        self.res = res           # the resource-server registrations / policies of the provider (oracle flows of class (d)), or None
        self.hist = []
        self.requested = {}      # grant index -> requested scopes (from the authorization op that created the grant)
        self._root = {}
        self.code_auth = {}      # code index -> (client, requested scopes) of the authorization op that produced THAT code
        self.parsed = []

    def root_code(self, rs, t):
        """the code a token was (transitively) minted from, by the based_on values the tokens carry"""
        key = id(t)
        if key in self._root:
            return self._root[key]
        self._root[key] = r = self._root_code(rs, t)
        return r

    def _root_code(self, rs, t):
        seen = 0
        while t.token_class != "authorization_code" and t.based_on in rs.tokens and seen < 1000:
            t = rs.tokobj[rs.tokens.index(t.based_on)]
            seen += 1
        if t.token_class == "authorization_code" or not t.based_on:
            # a code, or a token the authorization endpoint minted by itself (implicit / hybrid): based on nothing
            return next((i for i, o in enumerate(rs.tokobj) if o is t), None)
        return None

    @staticmethod
    def jwt_payload(value):
        return json.loads(base64.urlsafe_b64decode(value.split(".")[1] + "=="))

    def jwt_claim(self, rs, idx, what):
        """a token that is a signed JWT (JWT access token, ID Token): the scope claim it carries is its session scope"""
        t = rs.tokobj[idx]
        if t.value.count(".") != 2:
            return
        try:
            payload = self.jwt_payload(t.value)
        except Exception as e:      # noqa
            self.ctx.notes.append("could not decode a JWT %s: %r" % (t.token_class, e))
            return
        if "scope" not in payload and t.token_class == "id_token":
            return
        js = payload.get("scope", [])
        js = js.split(" ") if isinstance(js, str) else js
        if sorted(js) != sorted(t.scope):
            self.ctx.violation("view-jwt", "%s: JWT scope claim %r of the %s, its session scope %r" % (what, js, t.token_class, t.scope), self.hist)
        self.ctx.count("jwt-scope-checked" if t.token_class != "id_token" else "jwt-scope-checked:id_token")

    def front_views(self, rs, op, out):
        """the response of an implicit / hybrid authorization: what it states about the access token it carries, what that
        token's record, its JWT claim and introspection say; the ID Token's claim"""
        slots = out[3]
        client, scope = op[2], op[3]
        bound = set(x for x in scope if x in allowed(rs, client))
        named = list(op[5]) if len(op) > 5 and op[5] else []
        for key, i in slots.items():
            t = rs.tokobj[i]
            self.ctx.count("front-channel-artefact:%s:%s" % (key, "within-bound" if set(t.scope) <= bound else "BEYOND"))
            if key != "code":
                self.jwt_claim(rs, i, "authorization response")
        acc = slots.get("access_token")
        if acc is None:
            return
        t = rs.tokobj[acc]
        stated = set(out[2] or [])
        if stated != set(t.scope):
            # RECORDED FINDING authz-response-states-resource-scope: the statement additionally lists scopes registered for a
            # named resource.  Only that: the token's own scope must be within its bound and the surplus explained by the
            # registrations of the named resources.
            extra = stated - set(t.scope)
            if named and self.res and set(t.scope) <= bound and extra and not (set(t.scope) - stated) and extra <= set(self.res.rscopes(client, named)):
                pass      # reported once, by the response-scope check of __call__
            else:
                self.ctx.violation("view-response-vs-token", "authorization response states scope %r, the access token it carries has %r"
                                   % (sorted(stated), t.scope), self.hist)
        r = rs.run(("introspect", client, ("tok", acc)))
        if r[0] == "active" and sorted(r[1]) != sorted(t.scope):
            self.ctx.violation("view-introspection", "introspection scope %r, front-channel access token scope %r" % (r[1], t.scope), self.hist)
        if r[0] == "active" and set(r[1]) - bound:
            self.ctx.violation("escalation-beyond-own-authorization", "introspection states %r for the front-channel access token; its request authorised %r"
                               % (r[1], sorted(bound)), self.hist)
        self.ctx.count("front-channel-access-token:introspection:" + r[0])

    def __call__(self, rs, op, out, rec):
        self.hist.append([list(op), out])
        k = op[0]
        if k in ("authz", "authzc", "authzr") and out[0] == "ok":
            client, scope = (op[2], op[3]) if k != "authzc" else (op[3], op[4])
            for i in out[1] or []:
                # everything an authorization response carries - the code and, for implicit / hybrid response types, the
                # access token and the ID Token - is held against THIS request
                if rs.tokobj[i].token_class == "authorization_code" or k == "authzr":
                    self.code_auth[i] = (client, list(scope))
                    self.requested.setdefault(rs.tok_grant[i], list(scope))
            # the scope echoed in the authorization response is requested ∩ allowed
            want = sorted(set(s for s in scope if s in allowed(rs, client)))
            if out[2] is not None and sorted(set(out[2])) != want:
                named = list(op[5]) if k == "authzr" and len(op) > 5 and op[5] else []
                extra = set(out[2]) - set(want)
                if named and self.res and extra and not (set(want) - set(out[2])) and extra <= set(self.res.rscopes(client, named)) \
                        and all(set(rs.tokobj[i].scope) <= set(want) for i in out[1] or []):
                    # RECORDED FINDING: the request named resources; the statement is the authorised set plus scopes the named
                    # resources' registrations list (allowed for the client), and NO artefact of the response carries them
                    self.ctx.violation("authz-response-states-resource-scope",
                                       "authorization response (resource=%r) states scope %r, authorised %r; every artefact it carries has the authorised scope"
                                       % (named, out[2], want), self.hist)
                else:
                    self.ctx.violation("authz-response-scope", "authorization response scope %r, authorised %r" % (out[2], want), self.hist)
            if k == "authzr":
                self.front_views(rs, op, out)
        if k in ("tparse", "rparse") and len(rs.parsed) > len(self.parsed):
            self.parsed.append(op)
        # every token of every grant stays within requested ∩ allowed(client)
        for gi, (sid, g, u, c) in enumerate(rs.grants):
            if gi not in self.requested:
                continue
            auth = set(s for s in self.requested[gi] if s in allowed(rs, c))
            for t in g.issued_token:
                extra = set(t.scope) - auth
                if extra:
                    self.ctx.violation("escalation", "%s of grant %d (client %s) carries %r beyond the authorised %r"
                                       % (t.token_class, gi, c, sorted(extra), sorted(auth)), self.hist)
                # ... and within what the authorization request it descends from asked for (a grant may serve several
                # authorization requests of one browser session)
                root = self.root_code(rs, t)
                if root in self.code_auth:
                    rc, rsc = self.code_auth[root]
                    bound = set(s for s in rsc if s in allowed(rs, rc))
                    if set(t.scope) - bound:
                        self.ctx.violation("escalation-beyond-own-authorization",
                                           "%s %d descends from %s %d, whose authorization request (client %s) asked for %r -> authorised %r, but carries %r"
                                           % (t.token_class, rs.tokobj.index(t), "code" if rs.tokobj[root].token_class == "authorization_code" else "the front-channel " + rs.tokobj[root].token_class,
                                              root, rc, rsc, sorted(bound), list(t.scope)), self.hist)
        if k == "proc" and out[0] == "ok":
            acc = out[1].get("access_token")
            if acc is not None and acc >= 0:
                t = rs.tokobj[acc]
                resp_scope = out[3] or []
                if list(t.scope) != list(resp_scope):
                    self.ctx.violation("view-response-vs-token", "response scope %r, access token scope %r" % (resp_scope, t.scope), self.hist)
                root = self.root_code(rs, t)
                if root in self.code_auth:
                    rc, rsc = self.code_auth[root]
                    bound = set(s for s in rsc if s in allowed(rs, rc))
                    if set(resp_scope) - bound:
                        self.ctx.violation("escalation-beyond-own-authorization", "token response states scope %r; the authorization request of code %d authorised %r"
                                           % (resp_scope, root, sorted(bound)), self.hist)
                    self.ctx.count("token-response-held-against-its-own-authorization")
                owner = rs.grants[rs.tok_grant[acc]][3]
                r = rs.run(("introspect", owner, ("tok", acc)))
                if r[0] == "active" and sorted(r[1]) != sorted(t.scope):
                    self.ctx.violation("view-introspection", "introspection scope %r, token scope %r" % (r[1], t.scope), self.hist)
                self.jwt_claim(rs, acc, "token response")      # a JWT access token: the scope claim inside it
            idt = out[1].get("id_token")
            if idt is not None and idt >= 0:
                self.jwt_claim(rs, idt, "token response")
            # a refresh never goes beyond the scope of the refresh token's grant
            if op[1] < len(self.parsed) and self.parsed[op[1]][0] == "rparse":
                ref = self.parsed[op[1]][2]
                if ref[0] == "tok":
                    gi = rs.tok_grant[ref[1]]
                    if gi in self.requested:
                        auth = set(s for s in self.requested[gi] if s in allowed(rs, rs.grants[gi][3]))
                        if set(out[3] or []) - auth:
                            self.ctx.violation("refresh-widened", "refresh response scope %r beyond %r" % (out[3], sorted(auth)), self.hist)


def structured():
    cases = []
    for oidc in (True, False):
        req = ["openid", "address", "email", "custom", "offline_access", "phone"]
        ops = [("authz", "diana", "client_1", req), ("tparse", "client_1", ("tok", 0), "same"), ("proc", 0, None)]
        r = 2
        ops += [("rparse", "client_1", ("tok", r), ["openid"]), ("proc", 1, None),
                ("rparse", "client_1", ("tok", r), ["openid", "address"]), ("proc", 2, None),
                ("rparse", "client_1", ("tok", r), ["openid", "email", "offline_access"]), ("proc", 3, None),
                ("rparse", "client_1", ("tok", r), None), ("proc", 4, None),
                ("rparse", "client_1", ("tok", r), ["custom"]), ("rparse", "client_1", ("tok", r), ["phone"]),
                ("introspect", "client_1", ("tok", 1))]
        cases.append(("scope-%s" % ("oidc" if oidc else "oauth2"), oidc, False, ops))
        # chained refreshes with rotation: narrow, then try to widen back
        ops2 = [("authz", "babs", "client_2", ["openid", "email", "address", "offline_access", "profile"]),
                ("tparse", "client_2", ("tok", 0), "same"), ("proc", 0, True),
                ("rparse", "client_2", ("tok", 2), ["openid", "email", "offline_access"]), ("proc", 1, True)]
        cases.append(("chain-%s" % ("oidc" if oidc else "oauth2"), oidc, False, ops2))
        cases.append(("no-scope-%s" % ("oidc" if oidc else "oauth2"), oidc, False,
                      [("authz", "diana", "client_12", ["openid"] if oidc else []), ("tparse", "client_12", ("tok", 0), "same"), ("proc", 0, None)]))
    return cases


def front_structured():
    """Implicit and hybrid authorizations as fixed histories, both flavours, every response type: the request asks for more
    than the client may have; whatever the response carries is introspected, the front-channel access token is used at
    userinfo (OIDC), the hybrid code is redeemed (and replayed), the refresh token refreshed with a narrower and a wider
    scope; a second authorization of another response type follows in the same provider."""
    cases = []
    k = 0
    for oidc in (True, False):
        for rt in (sess.RT_OIDC if oidc else ["token", "code token", "code"]):
            cl = ["client_1", "client_2", "client_12"][k % 3]
            req = ["openid", "address", "email", "custom", "offline_access", "phone", "profile"][: 4 + k % 4]
            if not oidc:
                req = req[1:] + ["offline_access"]
            ops = [("authzr", ["diana", "babs"][k % 2], cl, req, rt)]
            n = len(rt.split(" "))
            ops += [("introspect", cl, ("tok", i)) for i in range(n)]
            if oidc:
                ops += [("userinfo", ("tok", i)) for i in range(n)]
            p = 0
            if "code" in rt.split(" "):
                ops += [("tparse", cl, ("tok", 0), "same"), ("proc", 0, None), ("tparse", cl, ("tok", 0), "same"), ("proc", 1, None)]
                p = 2
                ops += [("introspect", cl, ("tok", i)) for i in range(n, n + 3)]
                # refresh what the redemption returned (the refresh token is n+1 where one was issued)
                ops += [("rparse", cl, ("tok", n + 1), ["openid"] if oidc else req[:1]), ("proc", p, None),
                        ("rparse", cl, ("tok", n + 1), req), ("proc", p + 1, None)]
                p += 2
            other = (sess.RT_OIDC if oidc else sess.RT_OAUTH2)[(k + 2) % (7 if oidc else 5)]
            ops += [("authzr", "diana", cl, list(reversed(req)), other), ("introspect", cl, ("tok", 0)), ("introspect", cl, ("tok", n))]
            cases.append(("front-%s-%s" % ("oidc" if oidc else "oauth2", rt.replace(" ", "+")), oidc, k % 4 == 3, ops,
                          ["explicit", "implied", "per-client", "handler", "partial"][k % 5], {"empty3": True} if k % 6 == 5 else {}))
            k += 1
    return cases


# ------------------------------------------------------------------ oracle-only flows on the real endpoints
EXCH_AUTHZ = copy.deepcopy(sess.FIXED_AUTHZ)
EXCH_AUTHZ["kwargs"]["grant_config"]["usage_rules"]["access_token"] = {"supports_minting": ["access_token", "refresh_token"], "expires_in": 600}
TE = "urn:ietf:params:oauth:grant-type:token-exchange"
TT = "urn:ietf:params:oauth:token-type:"


def token_call(rs, client, body):
    ep = rs.ep["token"]
    try:
        p = ep.parse_request(rs._token_req(client, body))
        if "error" in p:
            return None, dict(p)
        r = ep.process_request(p)
    except Exception as e:      # a crash is a refusal
        return None, {"exc": type(e).__name__}
    ra = r.get("response_args", r) if isinstance(r, dict) else r
    if "error" in ra:
        return None, dict(ra)
    return dict(ra), None


def scope_of(resp):
    sc = resp.get("scope", [])
    return sc.split(" ") if isinstance(sc, str) else list(sc)


XCASES = []
CCASES = []


def exchange_flows(ctx, rng, n):
    old = sess.FIXED_AUTHZ
    sess.FIXED_AUTHZ = EXCH_AUTHZ
    try:
        for i in range(n):
            jwt = (i % 2 == 1)
            rs = sess.RealSession(oidc=False, jwt_access=jwt, empty3=(i % 3 == 2))
            try:
                hist = []
                client = rng.choice(sess.CLIENTS)
                req = rng.sample(sess.SCOPES, rng.randint(2, 6)) + ["offline_access"]
                rs.run(("authz", rng.choice(sess.USERS), client, req))
                rs.run(("tparse", client, ("tok", 0), "same"))
                out = rs.run(("proc", 0, None))
                hist += [["authz", client, req], ["proc", out]]
                if out[0] != "ok":
                    ctx.case_seen({"flow": "exchange", "setup": out}, False)
                    continue
                authorised = set(s for s in req if s in allowed(rs, client))
                subject_idx = out[1]["access_token"]
                subject = rs.tokobj[subject_idx]
                for step in range(rng.randint(1, 4)):
                    other = rng.choice(sess.CLIENTS)
                    use_refresh = rng.random() < 0.25 and "refresh_token" in out[1]
                    stok = rs.tokobj[out[1]["refresh_token"]] if use_refresh else subject
                    want = rng.sample(sess.SCOPES, rng.randint(0, 4))
                    body = {"grant_type": TE, "subject_token": stok.value,
                            "subject_token_type": TT + ("refresh_token" if use_refresh else "access_token")}
                    if want:
                        body["scope"] = " ".join(want)
                    if rng.random() < 0.5:
                        body["requested_token_type"] = TT + rng.choice(["access_token", "refresh_token", "refresh_token"])
                    if other != client and rng.random() < 0.7:
                        body["audience"] = other
                    if i < 8 and step == 0 and not use_refresh:
                        # the first flows are fixed in shape: another client exchanges the access token for a refresh token
                        # (all of the subject token's scope), which is then refreshed with and without a narrower scope
                        other = [c for c in sess.CLIENTS if c != client][i % 2]
                        body = {"grant_type": TE, "subject_token": stok.value, "subject_token_type": TT + "access_token",
                                "requested_token_type": TT + "refresh_token", "audience": other}
                        want = []
                    tokens_before = list(rs.tokobj)
                    resp, err = token_call(rs, other, body)
                    rs.find_new_grants()
                    rs.harvest()
                    rec = {"exchange_by": other, "subject_of": client, "subject_scope": list(stok.scope), "asked": want,
                           "got": scope_of(resp) if resp else None, "err": err}
                    hist.append(rec)
                    ctx.count("exchange:" + ("ok" if resp else "refused"))
                    # model case for the scope decision (only refusals for scope reasons are modelled)
                    wr = body.get("requested_token_type", "").endswith("refresh_token")
                    desc = (err or {}).get("error_description", "")
                    modelled = resp is not None or "Invalid requested scopes" in desc or "forbidden" in desc
                    if modelled and not (use_refresh and "audience" in body):
                        XCASES.append(("(%s, %s, %s, %s, %s)" % (
                            sess.coq_strs(list(stok.scope)), "None" if not want else "(Some %s)" % sess.coq_strs(want),
                            sess.coq_strs(allowed(rs, other)), sess.coq_bool(wr),
                            "None" if resp is None else "(Some %s)" % sess.coq_strs(scope_of(resp))), rec))
                    else:
                        ctx.count("exchange:unmodelled-refusal")
                    if resp:
                        got = set(scope_of(resp))
                        if got - set(stok.scope):
                            ctx.violation("exchange-widened", "exchange returned %r beyond the subject token's %r" % (sorted(got), list(stok.scope)), hist)
                        if got - set(allowed(rs, other)):
                            ctx.violation("exchange-not-allowed", "exchange returned %r not allowed for %s" % (sorted(got), other), hist)
                        newtok = next((t for t in rs.tokobj if t.value == resp.get("access_token") or t.value == resp.get("refresh_token")), None)
                        if newtok is not None and set(newtok.scope) != got:
                            ctx.violation("view-response-vs-token", "exchange response scope %r, token scope %r" % (sorted(got), newtok.scope), hist)
                        if newtok is not None and newtok.value.count(".") == 2:
                            payload = json.loads(base64.urlsafe_b64decode(newtok.value.split(".")[1] + "=="))
                            js = payload.get("scope", [])
                            js = js.split(" ") if isinstance(js, str) else js
                            if set(js) != got:
                                ctx.violation("view-jwt", "exchange JWT scope %r vs response %r" % (js, sorted(got)), hist)
                        # an exchanged refresh token refreshed by the requesting client: still within the subject token's scope
                        rt_val = resp.get("refresh_token") or (resp.get("access_token") if body.get("requested_token_type", "").endswith("refresh_token") else None)
                        if rt_val:
                            for rscope in (None, sorted(set(stok.scope))[:2], list(stok.scope) + ["profile", "email"]):
                                rb = {"grant_type": "refresh_token", "refresh_token": rt_val}
                                if rscope:
                                    rb["scope"] = " ".join(rscope)
                                r2, e2 = token_call(rs, other, rb)
                                rs.find_new_grants()
                                rs.harvest()
                                hist.append({"refresh_of_exchanged_by": other, "asked": rscope, "got": scope_of(r2) if r2 else None, "err": e2})
                                ctx.count("exchange-refresh:" + ("ok" if r2 else "refused"))
                                if r2:
                                    g2 = set(scope_of(r2))
                                    at2 = r2.get("access_token")
                                    if isinstance(at2, str) and at2.count(".") == 2:
                                        # what the JWT says about itself is what the response states and the session records
                                        pl2 = json.loads(base64.urlsafe_b64decode(at2.split(".")[1] + "=="))
                                        js2 = pl2.get("scope", [])
                                        js2 = js2.split(" ") if isinstance(js2, str) else js2
                                        if set(js2) != g2:
                                            ctx.violation("view-jwt", "access token minted by refreshing an exchanged refresh token: JWT scope %r vs response %r"
                                                          % (sorted(js2), sorted(g2)), hist)
                                        tk2 = next((t for t in rs.tokobj if t.value == at2), None)
                                        if tk2 is not None and set(tk2.scope) != g2:
                                            ctx.violation("view-response-vs-token", "refresh response scope %r, token scope %r" % (sorted(g2), tk2.scope), hist)
                                    if g2 - set(stok.scope):
                                        ctx.violation("exchange-refresh-widened", "refreshing an exchanged refresh token returned %r beyond the subject token's %r"
                                                      % (sorted(g2), list(stok.scope)), hist)
                                    if g2 - set(allowed(rs, other)):
                                        ctx.violation("exchange-not-allowed", "refresh of an exchanged token returned %r not allowed for %s" % (sorted(g2), other), hist)
                        # every token minted by this exchange (and by refreshing what it returned) stays within the scope of
                        # the subject token it was derived from
                        known = {id(t_) for t_ in tokens_before}
                        for t_ in rs.tokobj:
                            if id(t_) not in known and set(t_.scope) - set(stok.scope):
                                ctx.violation("exchange-refresh-widened", "%s minted from a subject token with scope %r carries %r"
                                              % (t_.token_class, list(stok.scope), sorted(t_.scope)), hist)
                        # chain: sometimes continue from the exchanged token
                        if newtok is not None and newtok.token_class == "access_token" and rng.random() < 0.5:
                            subject, client = newtok, other
                    # nothing issued in this server may exceed what the original grant authorised
                    for t in rs.tokobj:
                        if set(t.scope) - authorised:
                            ctx.violation("escalation", "token %s carries %r beyond the originally authorised %r"
                                          % (t.token_class, sorted(set(t.scope) - authorised), sorted(authorised)), hist)
                ctx.case_seen({"flow": "exchange", "jwt": jwt, "hist": hist}, True)
            finally:
                rs.close()
    finally:
        sess.FIXED_AUTHZ = old


def client_credentials_flows(ctx, rng, n):
    for i in range(n):
        rs = sess.RealSession(oidc=False, jwt_access=(i % 2 == 1), empty3=(i % 3 == 2))
        try:
            client = rng.choice(sess.CLIENTS)
            want = rng.sample(sess.SCOPES, rng.randint(0, 5))
            body = {"grant_type": "client_credentials"}
            if want:
                body["scope"] = " ".join(want)
            resp, err = token_call(rs, client, body)
            rec = {"flow": "client_credentials", "client": client, "asked": want, "got": scope_of(resp) if resp else None, "err": err}
            ctx.case_seen(rec, resp is not None)
            ctx.count("client_credentials:" + ("ok" if resp else "refused"))
            if resp:
                CCASES.append(("(%s, %s)" % ("(Some %s)" % sess.coq_strs(rs.ctx.cdb[client]["allowed_scopes"]) if "allowed_scopes" in rs.ctx.cdb[client] else "None",
                                           sess.coq_strs(scope_of(resp))), rec))
                got = set(scope_of(resp))
                if got - set(allowed(rs, client)):
                    ctx.violation("cc-beyond-configured", "client_credentials for %s returned %r beyond its configured %r"
                                  % (client, sorted(got), allowed(rs, client)), rec)
                rs.find_new_grants()
                rs.harvest()
                tok = next((t for t in rs.tokobj if t.value == resp["access_token"]), None)
                if tok is not None and set(tok.scope) != got:
                    ctx.violation("view-response-vs-token", "client_credentials response %r vs token %r" % (sorted(got), tok.scope), rec)
                r = rs.run(("introspect", client, ("tok", rs.tokobj.index(tok)))) if tok is not None else None
                if r and r[0] == "active" and set(r[1]) != got:
                    ctx.violation("view-introspection", "client_credentials introspection %r vs response %r" % (r[1], sorted(got)), rec)
        finally:
            rs.close()


# ------------------------------------------------------------------ (d) the RFC 8707 resource parameter
# resource servers in the client database: name -> what is registered on top of an ordinary client record
RESOURCES = {
    "rs_a": {"scope": ["email", "phone", "address", "custom"],
             "allowed_scopes": ["openid", "email", "phone", "address", "custom", "profile", "offline_access"]},
    "rs_b": {"scope": ["profile", "offline_access", "admin"], "allowed_scopes": None},      # no allowed_scopes entry at all
    "rs_c": {"allowed_scopes": ["openid", "phone", "email"]},                               # no scope list
}
# which resources each client may name (client_12 is not listed: a policy refuses whatever it names)
PER_CLIENT = {"client_1": ["rs_a", "client_2", "rs_b", "rs_c"], "client_2": ["rs_a", "rs_c", "ghost"]}
RESOURCE_CHOICES = [None, ["rs_a"], ["rs_a"], ["rs_c"], ["rs_a", "rs_c"], ["client_2"], ["rs_b"], ["rs_a", "rs_b"], ["ghost"],
                    ["rs_a", "ghost"], ["client_1"], ["client_12"]]


class ResProvider(sess.RealSession):
    """a provider whose client database also holds resource servers, with the resource-indicator policies configured the
    way a deployment does: as endpoint arguments (provider-wide) or inside a client's registration"""

    def __init__(self, apol="none", tpol="none", client_scope=False, **kw):
        from idpyoidc.server.oauth2.authorization import validate_resource_indicators_policy as arp
        from idpyoidc.server.oauth2.token_helper import validate_resource_indicators_policy as trp
        over = {"client_2": {"scope": ["address", "phone", "profile"]}} if client_scope else {}
        super().__init__(client_over=over, **kw)
        self.apol, self.tpol = apol, tpol
        # what the harness registered (the oracle's and the model's inputs come from here, not from the provider's state)
        self.reg = {c: {"allowed_scopes": self.ctx.cdb[c].get("allowed_scopes"), "scope": over.get(c, {}).get("scope")} for c in sess.CLIENTS}
        for name, extra in RESOURCES.items():
            rec = srv.client_record(name, **{k: v for k, v in extra.items() if v is not None})
            if "allowed_scopes" in extra and extra["allowed_scopes"] is None:
                rec.pop("allowed_scopes")
            self.ctx.cdb[name] = rec
            self.reg[name] = {"allowed_scopes": rec.get("allowed_scopes"), "scope": rec.get("scope")}
        a_conf = {"policy": {"function": arp, "kwargs": {"resource_servers_per_client": copy.deepcopy(PER_CLIENT)}}}
        if apol == "provider":
            self.ep["authorization"].resource_indicators_config = a_conf
        elif apol == "provider-list":        # one list of permitted resources for every client
            self.ep["authorization"].resource_indicators_config = {"policy": {"function": arp, "kwargs": {"resource_servers_per_client": ["rs_a", "rs_c", "client_2"]}}}
        elif apol == "provider-default":     # the policy with its default arguments
            self.ep["authorization"].resource_indicators_config = {}
        elif apol == "client":               # only client_1 has the policy, in its registration
            self.ctx.cdb["client_1"]["resource_indicators"] = {"authorization_code": a_conf}
        t_conf = {"policy": {"function": trp, "kwargs": {"resource_servers_per_client": copy.deepcopy(PER_CLIENT)}}}
        if tpol == "provider":
            self.ep["token"].kwargs["resource_indicators"] = t_conf
        elif tpol == "client":
            self.ctx.cdb["client_1"].setdefault("resource_indicators", {})["access_token"] = t_conf

    # --- what the configuration the harness made implies (never read from the provider)
    def _permitted_for(self, client, kind):
        pol = self.apol if kind == "authz" else self.tpol
        if pol == "none" or (pol == "client" and client != "client_1") or (kind == "token" and self.oidc):
            return None                      # no policy applies
        if pol == "provider-list":
            return ["rs_a", "rs_c", "client_2"]
        if pol == "provider-default":
            return list(client) if kind == "authz" else []      # {client: client} -> the characters of the client id; token: nothing
        return PER_CLIENT.get(client, [])

    def effective_resources(self, client, named, kind="authz"):
        """the resource list after the policy (None: refused); without policy: as named"""
        pres = self._permitted_for(client, kind)
        if pres is None:
            return list(named)
        common = [r for r in named if r in pres and r in self.reg]
        if not common:
            return None
        if client not in common:
            common.append(client)
        if any(self.reg[r]["allowed_scopes"] is None for r in common):
            return None                      # the policy function crashes on the missing entry: server_error
        return common

    def permitted_scopes(self, client, named, kind="authz"):
        """None: no policy ran; else the concatenated allowed_scopes of the effective resources"""
        if self._permitted_for(client, kind) is None:
            return None
        eff = self.effective_resources(client, named, kind)
        return None if eff is None else [x for r in eff for x in self.reg[r]["allowed_scopes"]]

    def rscopes(self, client, named):
        eff = self.effective_resources(client, named, "authz") or []
        return [x for r in eff if r in self.reg for x in (self.reg[r]["scope"] or [])]

    # --- operations
    def op_authzr(self, user, client, scope, rtype, resource=None):
        out = self.op_authz(user, client, scope, rtype=rtype, extra={"resource": list(resource)} if resource else None)
        if out[0] != "ok":
            return out
        slots = {}
        for i in out[1] or []:
            slots[{"authorization_code": "code"}.get(self.tokobj[i].token_class, self.tokobj[i].token_class)] = i
        return out + [slots]

    def op_tokr(self, client, ref, resource=None, scope=None):
        """code redemption in one go, optionally with resource and scope parameters"""
        body = {"grant_type": "authorization_code", "code": self.tokval(ref), "redirect_uri": self.redirect_for(client, ref, "same")}
        if resource:
            body["resource"] = list(resource)
        if scope is not None:
            body["scope"] = scope
        ep = self.ep["token"]
        p = ep.parse_request(self._token_req(client, body))
        e = self.err_of(p)
        if e:
            return ["err", e]
        res = ep.process_request(p)
        new = self.harvest()
        ra = res.get("response_args") if isinstance(res, dict) and "response_args" in res else res
        e = self.err_of(ra)
        if e:
            return ["err", e, new]
        out = {}
        for key in ("access_token", "refresh_token", "id_token"):
            if key in ra:
                out[key] = self.tokens.index(ra[key]) if ra[key] in self.tokens else -1
        sc = ra.get("scope")
        if isinstance(sc, str):
            sc = sc.split(" ")
        return ["ok", out, new, sc]


ACASES = []
TCASES = []
# fixed flows first (deterministic witnesses of the two recorded findings, and their clean counterparts):
# (oidc, jwt, apol, tpol, client_scope, [(client, rtype, scope, resource, token-request resource, token-request scope)])
FIXED_RES_FLOWS = [
    (False, True, "none", "none", False, [("client_1", "token", ["profile"], ["rs_a"], None, None),
                                          ("client_1", "code token", ["profile", "offline_access"], ["rs_a"], None, None)]),
    (False, False, "none", "provider", False, [("client_1", "code", ["profile", "offline_access"], None, ["rs_a"], None),
                                               ("client_1", "code", ["profile"], None, ["rs_a"], ["email"]),
                                               ("client_1", "code token", ["profile", "email"], None, ["rs_a"], ["profile", "email"])]),
    (True, True, "provider", "none", True, [("client_1", "code id_token token", ["openid", "profile", "custom"], ["rs_a"], None, None),
                                            ("client_1", "id_token token", ["openid", "phone"], ["client_2"], None, None),
                                            ("client_2", "token", ["openid", "profile"], ["rs_a", "rs_c"], None, None)]),
    (True, False, "client", "none", True, [("client_1", "code token", ["openid", "address", "email"], ["rs_a"], None, None),
                                           ("client_2", "code token", ["openid", "custom"], ["rs_a"], None, None)]),
]


def resource_flows(ctx, rng, n):
    """(d): authorizations of every response type that name resources; every scope statement reachable is held against the
    bound computed from what the harness sent and registered: requested ∩ allowed_scopes of the client"""
    APOL = ["none", "provider", "client", "none", "provider-list", "provider-default"]
    for i in range(n):
        if i < len(FIXED_RES_FLOWS):
            oidc, jwt, apol, tpol, cscope, steps = FIXED_RES_FLOWS[i]
        else:
            oidc, jwt = (i % 2 == 0), (i % 4 < 2)
            apol = APOL[(i // 2) % len(APOL)]
            tpol = "none" if oidc else ["none", "provider", "client"][(i // 3) % 3]
            cscope = (i % 3 != 0)
            steps = None
        rs = ResProvider(apol=apol, tpol=tpol, client_scope=cscope, oidc=oidc, jwt_access=jwt, empty3=(i % 7 == 6),
                         rules=["explicit", "implied", "handler"][i % 3])
        ctx.count("resource-flow-provider:%s:authz-policy-%s:token-policy-%s:%s" % ("oidc" if oidc else "oauth2", apol, tpol, "jwt" if jwt else "opaque"))
        try:
            orc = ScopeOracle(ctx, res=rs)
            minted = False
            rec = []
            for j in range(len(steps) if steps else rng.randint(2, 4)):
                if steps:
                    client, rtype, scope, resource, tres, tscope = steps[j]
                else:
                    client = rng.choice(["client_1", "client_1", "client_2", "client_12"])
                    rtype = rng.choice(sess.RT_OIDC[:6] if oidc else ["token", "code token", "code", "code token"])
                    scope = rng.sample(sess.SCOPES, rng.randint(1, 5))
                    if oidc and "openid" not in scope:
                        scope.insert(0, "openid")
                    resource = rng.choice(RESOURCE_CHOICES)
                    tres = rng.choice([None, resource, ["rs_a"], ["rs_c"]]) if rs._permitted_for(client, "token") is None else rng.choice([resource, ["rs_a"], ["rs_a", "rs_c"], ["rs_b"], None])
                    tscope = rng.choice([None, None, list(scope), rng.sample(sess.SCOPES, 2), "email", " ".join(scope)])
                op = ("authzr", rng.choice(sess.USERS) if not steps else "diana", client, list(scope), rtype, resource)
                out = rs.run(op)
                rec.append([list(op), out])
                orc(rs, op, out, None)
                ctx.count("resource-authz:%s:%s:%s" % ("named" if resource else "no-resource", rtype.replace(" ", "+"), out[0] if out[0] != "err" else "err:" + str(out[1])))
                if out[0] != "ok":
                    if len(out) > 2 and out[2]:
                        ctx.violation("refused-but-minted", "the authorization was refused (%r) and tokens were minted: %r" % (out[1], out[2]), rec)
                    continue
                minted = True
                slots = out[3]
                g = rs.grants[rs.tok_grant[out[1][0]]][1]
                # the decision as a model case: what the harness sent and registered -> what was observed
                named = list(resource or [])
                perm = rs.permitted_scopes(client, named) if named else None
                if named and rs._permitted_for(client, "authz") is not None and perm is None:
                    ctx.violation("resource-policy-not-applied", "the policy configured for %s must refuse resource=%r; the request was answered" % (client, named), rec)
                else:
                    o = lambda key: "(Some %s)" % sess.coq_strs(list(rs.tokobj[slots[key]].scope)) if key in slots else "None"
                    ACASES.append(("(%s, %s, %s, %s, (%s, %s, %s, %s, %s))" % (
                        sess.coq_strs(scope), sess.coq_strs(allowed(rs, client)), "None" if perm is None else "(Some %s)" % sess.coq_strs(perm),
                        sess.coq_strs(rs.rscopes(client, named) if named else []), sess.coq_strs(list(g.scope)), o("code"), o("access_token"), o("id_token"),
                        sess.coq_strs(out[2] or [])), {"flow": "authz-decision", "op": list(op), "out": out, "permitted": perm}))
                # the code (hybrid / code): redeemed, possibly with resource / scope parameters; then refreshed
                if "code" in slots:
                    tp = rs._permitted_for(client, "token")
                    top = ("tokr", client, ("tok", slots["code"]), tres, tscope)
                    tout = rs.run(top)
                    rec.append([list(top), tout])
                    ctx.count("resource-token:%s:%s:%s" % ("policy" if tp is not None else "no-policy", "resource" if tres else "no-resource", tout[0] if tout[0] != "err" else "err:" + str(tout[1])))
                    orc.hist.append([list(top), tout])
                    bound = set(x for x in scope if x in allowed(rs, client))
                    if tout[0] == "ok":
                        acc = tout[1].get("access_token")
                        if acc is not None and acc >= 0:
                            t = rs.tokobj[acc]
                            stated = list(tout[3] or [])
                            if set(t.scope) - bound:
                                ctx.violation("escalation", "access token redeemed with resource=%r carries %r beyond the authorised %r" % (tres, t.scope, sorted(bound)), rec)
                            if sorted(stated) != sorted(t.scope):
                                if tp is not None and set(t.scope) <= bound:
                                    # RECORDED FINDING: under the token endpoint's resource policy the statement is the token
                                    # REQUEST's scope cut down by the resources, not the token's scope
                                    ctx.violation("token-response-scope-under-resource-policy",
                                                  "token response (resource=%r, scope parameter %r) states scope %r, the access token has %r" % (tres, tscope, stated, t.scope), rec)
                                else:
                                    ctx.violation("view-response-vs-token", "token response states scope %r, the access token has %r" % (stated, t.scope), rec)
                            r = rs.run(("introspect", client, ("tok", acc)))
                            if r[0] == "active" and sorted(r[1]) != sorted(t.scope):
                                ctx.violation("view-introspection", "introspection scope %r, token scope %r" % (r[1], t.scope), rec)
                            orc.jwt_claim(rs, acc, "token response (resource flow)")
                            if tp is not None and not isinstance(tscope, str):
                                tperm = rs.permitted_scopes(client, list(tres or []), "token")
                                if tperm is not None:
                                    TCASES.append(("(%s, %s, %s, (%s, %s))" % (sess.coq_strs(list(g.scope)), sess.coq_strs(tscope or []), sess.coq_strs(tperm),
                                                                           sess.coq_strs(list(t.scope)), sess.coq_strs(stated)),
                                                   {"flow": "token-ri-decision", "op": list(top), "out": tout, "permitted": tperm}))
                        if tout[1].get("id_token", -1) >= 0:
                            orc.jwt_claim(rs, tout[1]["id_token"], "token response (resource flow)")
                        rt = tout[1].get("refresh_token")
                        if rt is not None and rt >= 0 and tp is None:
                            for rsc in (None, sorted(bound)[:1], sorted(bound) + ["phone", "custom"]):
                                rop = ("rparse", client, ("tok", rt), rsc)
                                rout = rs.run(rop)
                                rec.append([list(rop), rout])
                                orc(rs, rop, rout, None)
                                if rout[0] == "ok":
                                    pop = ("proc", len(rs.parsed) - 1, None)
                                    pout = rs.run(pop)
                                    rec.append([list(pop), pout])
                                    orc(rs, pop, pout, None)
                    # whatever happened: every token in the provider within the bound of its own authorization
                    orc(rs, ("tick", 0), ["ok"], None)
            ctx.case_seen({"flow": "resource", "oidc": oidc, "jwt": jwt, "authz_policy": apol, "token_policy": tpol, "ops": rec}, minted)
        finally:
            rs.close()


def jwt_histories(ctx, rng, n):
    """JWT access tokens: oracle only (the model's token-resolution clauses are about the opaque handlers)."""
    for i in range(n):
        rs = sess.RealSession(oidc=(i % 2 == 0), jwt_access=True, two_redirects=True, rules=["explicit", "per-client"][(i // 2) % 2])
        rs.model_compared = False      # oracle only: cookie-carrying requests also where the usage rules are per client
        try:
            orc = ScopeOracle(ctx)
            plan = sess.gen_history(rng, rng.randint(10, 30), focus="cookie" if i % 3 != 2 else "mixed", p_cookie=0.4, p_front=0.5)
            pairs, rec = sess.run_history(rs, plan, lambda r, o, x: orc(r, o, x, None))
            ctx.case_seen({"flow": "jwt-access-history", "ops": rec}, any(o[0] == "proc" and x[0] == "ok" for o, x in rec))
        finally:
            rs.close()


def run(ctx):
    def factory():
        return [ScopeOracle(ctx)]
    n = 30 if ctx.quick else 1200
    common.run_histories(ctx, n, (15, 50), factory, structured=structured() + common.cookie_structured() + front_structured(), cookie=True,
                         focus_of=lambda i: "cookie" if i % 3 != 2 else "mixed", front=0.35)
    exchange_flows(ctx, ctx.rng, 16 if ctx.quick else 400)
    client_credentials_flows(ctx, ctx.rng, 8 if ctx.quick else 200)
    jwt_histories(ctx, ctx.rng, 8 if ctx.quick else 200)
    resource_flows(ctx, ctx.rng, 40 if ctx.quick else 600)
    imp = ["Lib.Base", "Lib.PyStr", "Model.ScopeFlows"]
    ctx.coq_check_cases(imp, "list pystr * list pystr * option (list pystr) * list pystr * (list pystr * option (list pystr) * option (list pystr) * option (list pystr) * list pystr)",
                        "chk_authz", list(ACASES), shard=300, label="authz_res")
    ctx.coq_check_cases(imp, "list pystr * list pystr * list pystr * (list pystr * list pystr)", "chk_token_ri", list(TCASES), shard=300, label="token_ri")
    del ACASES[:]
    del TCASES[:]
    ctx.coq_check_cases(imp, "list pystr * option (list pystr) * list pystr * bool * option (list pystr)", "chk_exchange", list(XCASES), shard=300, label="exchange")
    ctx.coq_check_cases(imp, "option (list pystr) * list pystr", "chk_cc", list(CCASES), shard=300, label="cc")
    del XCASES[:]
    del CCASES[:]


def replay(ctx, rp):
    run(ctx)
