"""C05 driver — scope never escalates across minting, refresh and exchange; the views agree."""
import base64
import copy
import json

import sess
import srv
import drv_session_common as common

RULE = ("(a) histories on real OIDC and OAuth2 providers compared with the Gallina session model (authorize with arbitrary "
        "requested scope lists incl. unknown and not-allowed values, per-client allowed_scopes absent/subset, code exchange, refresh "
        "with narrowed / equal / widened scope parameters, chained refreshes), oracle after every operation; further "
        "authorization requests within one browser session (the request carries the provider's session cookie of an earlier "
        "authorization: identical / narrower / wider / disjoint / reordered scope, same or other registered redirect_uri, client, "
        "user, state+nonce; earlier code pending or redeemed), every token held against the request of the authorization IT was "
        "minted from; (b) oracle-only "
        "histories with JWT access tokens (scope claim inside the JWT), client_credentials, and token exchange (same and other "
        "client, narrowed/widened scope, access and refresh subject tokens). A history is non-trivial when tokens were minted.")
ASSUMPTIONS = ["a provider whose usage rules are configured per client only sees no cookie-carrying authorization requests in the "
               "model-compared histories (the grant it makes for such a request gets no usage rules at all; the model's lifetimes are per provider); "
               "the oracle-only JWT histories do send them there",
               "token exchange, client_credentials: decided by the oracle on the real endpoints only (not in the Gallina model)",
               "the password grant needs a password-checking authentication method that the harness provider does not configure: not exercised",
               "client authentication succeeds for the authenticating client (C01)"]

DEFAULT_ALLOWED = ["openid", "profile", "email", "address", "phone", "offline_access"]


def allowed(rs, client):
    return rs.ctx.cdb[client].get("allowed_scopes", DEFAULT_ALLOWED)


class ScopeOracle:
    def __init__(self, ctx):
        self.ctx = ctx
        self.hist = []
        self.requested = {}      # grant index -> requested scopes (from the authorization op that created the grant)
        self._root = {}
        self.code_auth = {}      # code index -> (client, requested scopes) of the authorization op that produced THAT code
        self.parsed = []

    def root_code(self, rs, t):
        """the code a token was (transitively) minted from, by the based_on values the tokens carry"""
        key = id(t)
        if key in self._root:
            return self._root[key]
        self._root[key] = r = self._root_code(rs, t)
        return r

    def _root_code(self, rs, t):
        seen = 0
        while t.token_class != "authorization_code" and t.based_on in rs.tokens and seen < 1000:
            t = rs.tokobj[rs.tokens.index(t.based_on)]
            seen += 1
        if t.token_class == "authorization_code":
            return next((i for i, o in enumerate(rs.tokobj) if o is t), None)
        return None

    def __call__(self, rs, op, out, rec):
        self.hist.append([list(op), out])
        k = op[0]
        if k in ("authz", "authzc") and out[0] == "ok":
            client, scope = (op[2], op[3]) if k == "authz" else (op[3], op[4])
            for i in out[1] or []:
                if rs.tokobj[i].token_class == "authorization_code":
                    self.code_auth[i] = (client, list(scope))
                    self.requested.setdefault(rs.tok_grant[i], list(scope))
            # the scope echoed in the authorization response is requested ∩ allowed
            want = sorted(set(s for s in scope if s in allowed(rs, client)))
            if out[2] is not None and sorted(set(out[2])) != want:
                self.ctx.violation("authz-response-scope", "authorization response scope %r, authorised %r" % (out[2], want), self.hist)
        if k in ("tparse", "rparse") and len(rs.parsed) > len(self.parsed):
            self.parsed.append(op)
        # every token of every grant stays within requested ∩ allowed(client)
        for gi, (sid, g, u, c) in enumerate(rs.grants):
            if gi not in self.requested:
                continue
            auth = set(s for s in self.requested[gi] if s in allowed(rs, c))
            for t in g.issued_token:
                extra = set(t.scope) - auth
                if extra:
                    self.ctx.violation("escalation", "%s of grant %d (client %s) carries %r beyond the authorised %r"
                                       % (t.token_class, gi, c, sorted(extra), sorted(auth)), self.hist)
                # ... and within what the authorization request it descends from asked for (a grant may serve several
                # authorization requests of one browser session)
                root = self.root_code(rs, t)
                if root in self.code_auth:
                    rc, rsc = self.code_auth[root]
                    bound = set(s for s in rsc if s in allowed(rs, rc))
                    if set(t.scope) - bound:
                        self.ctx.violation("escalation-beyond-own-authorization",
                                           "%s %d descends from code %d, whose authorization request (client %s) asked for %r -> authorised %r, but carries %r"
                                           % (t.token_class, rs.tokobj.index(t), root, rc, rsc, sorted(bound), list(t.scope)), self.hist)
        if k == "proc" and out[0] == "ok":
            acc = out[1].get("access_token")
            if acc is not None and acc >= 0:
                t = rs.tokobj[acc]
                resp_scope = out[3] or []
                if list(t.scope) != list(resp_scope):
                    self.ctx.violation("view-response-vs-token", "response scope %r, access token scope %r" % (resp_scope, t.scope), self.hist)
                root = self.root_code(rs, t)
                if root in self.code_auth:
                    rc, rsc = self.code_auth[root]
                    bound = set(s for s in rsc if s in allowed(rs, rc))
                    if set(resp_scope) - bound:
                        self.ctx.violation("escalation-beyond-own-authorization", "token response states scope %r; the authorization request of code %d authorised %r"
                                           % (resp_scope, root, sorted(bound)), self.hist)
                    self.ctx.count("token-response-held-against-its-own-authorization")
                owner = rs.grants[rs.tok_grant[acc]][3]
                r = rs.run(("introspect", owner, ("tok", acc)))
                if r[0] == "active" and sorted(r[1]) != sorted(t.scope):
                    self.ctx.violation("view-introspection", "introspection scope %r, token scope %r" % (r[1], t.scope), self.hist)
                if t.value.count(".") == 2:      # a JWT access token: the scope claim inside it
                    try:
                        payload = json.loads(base64.urlsafe_b64decode(t.value.split(".")[1] + "=="))
                        js = payload.get("scope", [])
                        js = js.split(" ") if isinstance(js, str) else js
                        if sorted(js) != sorted(t.scope):
                            self.ctx.violation("view-jwt", "JWT scope claim %r, token scope %r" % (js, t.scope), self.hist)
                        self.ctx.count("jwt-scope-checked")
                    except Exception as e:      # noqa
                        self.ctx.notes.append("could not decode JWT access token: %r" % e)
            # a refresh never goes beyond the scope of the refresh token's grant
            if op[1] < len(self.parsed) and self.parsed[op[1]][0] == "rparse":
                ref = self.parsed[op[1]][2]
                if ref[0] == "tok":
                    gi = rs.tok_grant[ref[1]]
                    if gi in self.requested:
                        auth = set(s for s in self.requested[gi] if s in allowed(rs, rs.grants[gi][3]))
                        if set(out[3] or []) - auth:
                            self.ctx.violation("refresh-widened", "refresh response scope %r beyond %r" % (out[3], sorted(auth)), self.hist)


def structured():
    cases = []
    for oidc in (True, False):
        req = ["openid", "address", "email", "custom", "offline_access", "phone"]
        ops = [("authz", "diana", "client_1", req), ("tparse", "client_1", ("tok", 0), "same"), ("proc", 0, None)]
        r = 2
        ops += [("rparse", "client_1", ("tok", r), ["openid"]), ("proc", 1, None),
                ("rparse", "client_1", ("tok", r), ["openid", "address"]), ("proc", 2, None),
                ("rparse", "client_1", ("tok", r), ["openid", "email", "offline_access"]), ("proc", 3, None),
                ("rparse", "client_1", ("tok", r), None), ("proc", 4, None),
                ("rparse", "client_1", ("tok", r), ["custom"]), ("rparse", "client_1", ("tok", r), ["phone"]),
                ("introspect", "client_1", ("tok", 1))]
        cases.append(("scope-%s" % ("oidc" if oidc else "oauth2"), oidc, False, ops))
        # chained refreshes with rotation: narrow, then try to widen back
        ops2 = [("authz", "babs", "client_2", ["openid", "email", "address", "offline_access", "profile"]),
                ("tparse", "client_2", ("tok", 0), "same"), ("proc", 0, True),
                ("rparse", "client_2", ("tok", 2), ["openid", "email", "offline_access"]), ("proc", 1, True)]
        cases.append(("chain-%s" % ("oidc" if oidc else "oauth2"), oidc, False, ops2))
        cases.append(("no-scope-%s" % ("oidc" if oidc else "oauth2"), oidc, False,
                      [("authz", "diana", "client_12", ["openid"] if oidc else []), ("tparse", "client_12", ("tok", 0), "same"), ("proc", 0, None)]))
    return cases


# ------------------------------------------------------------------ oracle-only flows on the real endpoints
EXCH_AUTHZ = copy.deepcopy(sess.FIXED_AUTHZ)
EXCH_AUTHZ["kwargs"]["grant_config"]["usage_rules"]["access_token"] = {"supports_minting": ["access_token", "refresh_token"], "expires_in": 600}
TE = "urn:ietf:params:oauth:grant-type:token-exchange"
TT = "urn:ietf:params:oauth:token-type:"


def token_call(rs, client, body):
    ep = rs.ep["token"]
    try:
        p = ep.parse_request(rs._token_req(client, body))
        if "error" in p:
            return None, dict(p)
        r = ep.process_request(p)
    except Exception as e:      # a crash is a refusal
        return None, {"exc": type(e).__name__}
    ra = r.get("response_args", r) if isinstance(r, dict) else r
    if "error" in ra:
        return None, dict(ra)
    return dict(ra), None


def scope_of(resp):
    sc = resp.get("scope", [])
    return sc.split(" ") if isinstance(sc, str) else list(sc)


XCASES = []
CCASES = []


def exchange_flows(ctx, rng, n):
    old = sess.FIXED_AUTHZ
    sess.FIXED_AUTHZ = EXCH_AUTHZ
    try:
        for i in range(n):
            jwt = (i % 2 == 1)
            rs = sess.RealSession(oidc=False, jwt_access=jwt, empty3=(i % 3 == 2))
            try:
                hist = []
                client = rng.choice(sess.CLIENTS)
                req = rng.sample(sess.SCOPES, rng.randint(2, 6)) + ["offline_access"]
                rs.run(("authz", rng.choice(sess.USERS), client, req))
                rs.run(("tparse", client, ("tok", 0), "same"))
                out = rs.run(("proc", 0, None))
                hist += [["authz", client, req], ["proc", out]]
                if out[0] != "ok":
                    ctx.case_seen({"flow": "exchange", "setup": out}, False)
                    continue
                authorised = set(s for s in req if s in allowed(rs, client))
                subject_idx = out[1]["access_token"]
                subject = rs.tokobj[subject_idx]
                for step in range(rng.randint(1, 4)):
                    other = rng.choice(sess.CLIENTS)
                    use_refresh = rng.random() < 0.25 and "refresh_token" in out[1]
                    stok = rs.tokobj[out[1]["refresh_token"]] if use_refresh else subject
                    want = rng.sample(sess.SCOPES, rng.randint(0, 4))
                    body = {"grant_type": TE, "subject_token": stok.value,
                            "subject_token_type": TT + ("refresh_token" if use_refresh else "access_token")}
                    if want:
                        body["scope"] = " ".join(want)
                    if rng.random() < 0.5:
                        body["requested_token_type"] = TT + rng.choice(["access_token", "refresh_token", "refresh_token"])
                    if other != client and rng.random() < 0.7:
                        body["audience"] = other
                    if i < 8 and step == 0 and not use_refresh:
                        # the first flows are fixed in shape: another client exchanges the access token for a refresh token
                        # (all of the subject token's scope), which is then refreshed with and without a narrower scope
                        other = [c for c in sess.CLIENTS if c != client][i % 2]
                        body = {"grant_type": TE, "subject_token": stok.value, "subject_token_type": TT + "access_token",
                                "requested_token_type": TT + "refresh_token", "audience": other}
                        want = []
                    tokens_before = list(rs.tokobj)
                    resp, err = token_call(rs, other, body)
                    rs.find_new_grants()
                    rs.harvest()
                    rec = {"exchange_by": other, "subject_of": client, "subject_scope": list(stok.scope), "asked": want,
                           "got": scope_of(resp) if resp else None, "err": err}
                    hist.append(rec)
                    ctx.count("exchange:" + ("ok" if resp else "refused"))
                    # model case for the scope decision (only refusals for scope reasons are modelled)
                    wr = body.get("requested_token_type", "").endswith("refresh_token")
                    desc = (err or {}).get("error_description", "")
                    modelled = resp is not None or "Invalid requested scopes" in desc or "forbidden" in desc
                    if modelled and not (use_refresh and "audience" in body):
                        XCASES.append(("(%s, %s, %s, %s, %s)" % (
                            sess.coq_strs(list(stok.scope)), "None" if not want else "(Some %s)" % sess.coq_strs(want),
                            sess.coq_strs(allowed(rs, other)), sess.coq_bool(wr),
                            "None" if resp is None else "(Some %s)" % sess.coq_strs(scope_of(resp))), rec))
                    else:
                        ctx.count("exchange:unmodelled-refusal")
                    if resp:
                        got = set(scope_of(resp))
                        if got - set(stok.scope):
                            ctx.violation("exchange-widened", "exchange returned %r beyond the subject token's %r" % (sorted(got), list(stok.scope)), hist)
                        if got - set(allowed(rs, other)):
                            ctx.violation("exchange-not-allowed", "exchange returned %r not allowed for %s" % (sorted(got), other), hist)
                        newtok = next((t for t in rs.tokobj if t.value == resp.get("access_token") or t.value == resp.get("refresh_token")), None)
                        if newtok is not None and set(newtok.scope) != got:
                            ctx.violation("view-response-vs-token", "exchange response scope %r, token scope %r" % (sorted(got), newtok.scope), hist)
                        if newtok is not None and newtok.value.count(".") == 2:
                            payload = json.loads(base64.urlsafe_b64decode(newtok.value.split(".")[1] + "=="))
                            js = payload.get("scope", [])
                            js = js.split(" ") if isinstance(js, str) else js
                            if set(js) != got:
                                ctx.violation("view-jwt", "exchange JWT scope %r vs response %r" % (js, sorted(got)), hist)
                        # an exchanged refresh token refreshed by the requesting client: still within the subject token's scope
                        rt_val = resp.get("refresh_token") or (resp.get("access_token") if body.get("requested_token_type", "").endswith("refresh_token") else None)
                        if rt_val:
                            for rscope in (None, sorted(set(stok.scope))[:2], list(stok.scope) + ["profile", "email"]):
                                rb = {"grant_type": "refresh_token", "refresh_token": rt_val}
                                if rscope:
                                    rb["scope"] = " ".join(rscope)
                                r2, e2 = token_call(rs, other, rb)
                                rs.find_new_grants()
                                rs.harvest()
                                hist.append({"refresh_of_exchanged_by": other, "asked": rscope, "got": scope_of(r2) if r2 else None, "err": e2})
                                ctx.count("exchange-refresh:" + ("ok" if r2 else "refused"))
                                if r2:
                                    g2 = set(scope_of(r2))
                                    at2 = r2.get("access_token")
                                    if isinstance(at2, str) and at2.count(".") == 2:
                                        # what the JWT says about itself is what the response states and the session records
                                        pl2 = json.loads(base64.urlsafe_b64decode(at2.split(".")[1] + "=="))
                                        js2 = pl2.get("scope", [])
                                        js2 = js2.split(" ") if isinstance(js2, str) else js2
                                        if set(js2) != g2:
                                            ctx.violation("view-jwt", "access token minted by refreshing an exchanged refresh token: JWT scope %r vs response %r"
                                                          % (sorted(js2), sorted(g2)), hist)
                                        tk2 = next((t for t in rs.tokobj if t.value == at2), None)
                                        if tk2 is not None and set(tk2.scope) != g2:
                                            ctx.violation("view-response-vs-token", "refresh response scope %r, token scope %r" % (sorted(g2), tk2.scope), hist)
                                    if g2 - set(stok.scope):
                                        ctx.violation("exchange-refresh-widened", "refreshing an exchanged refresh token returned %r beyond the subject token's %r"
                                                      % (sorted(g2), list(stok.scope)), hist)
                                    if g2 - set(allowed(rs, other)):
                                        ctx.violation("exchange-not-allowed", "refresh of an exchanged token returned %r not allowed for %s" % (sorted(g2), other), hist)
                        # every token minted by this exchange (and by refreshing what it returned) stays within the scope of
                        # the subject token it was derived from
                        known = {id(t_) for t_ in tokens_before}
                        for t_ in rs.tokobj:
                            if id(t_) not in known and set(t_.scope) - set(stok.scope):
                                ctx.violation("exchange-refresh-widened", "%s minted from a subject token with scope %r carries %r"
                                              % (t_.token_class, list(stok.scope), sorted(t_.scope)), hist)
                        # chain: sometimes continue from the exchanged token
                        if newtok is not None and newtok.token_class == "access_token" and rng.random() < 0.5:
                            subject, client = newtok, other
                    # nothing issued in this server may exceed what the original grant authorised
                    for t in rs.tokobj:
                        if set(t.scope) - authorised:
                            ctx.violation("escalation", "token %s carries %r beyond the originally authorised %r"
                                          % (t.token_class, sorted(set(t.scope) - authorised), sorted(authorised)), hist)
                ctx.case_seen({"flow": "exchange", "jwt": jwt, "hist": hist}, True)
            finally:
                rs.close()
    finally:
        sess.FIXED_AUTHZ = old


def client_credentials_flows(ctx, rng, n):
    for i in range(n):
        rs = sess.RealSession(oidc=False, jwt_access=(i % 2 == 1), empty3=(i % 3 == 2))
        try:
            client = rng.choice(sess.CLIENTS)
            want = rng.sample(sess.SCOPES, rng.randint(0, 5))
            body = {"grant_type": "client_credentials"}
            if want:
                body["scope"] = " ".join(want)
            resp, err = token_call(rs, client, body)
            rec = {"flow": "client_credentials", "client": client, "asked": want, "got": scope_of(resp) if resp else None, "err": err}
            ctx.case_seen(rec, resp is not None)
            ctx.count("client_credentials:" + ("ok" if resp else "refused"))
            if resp:
                CCASES.append(("(%s, %s)" % ("(Some %s)" % sess.coq_strs(rs.ctx.cdb[client]["allowed_scopes"]) if "allowed_scopes" in rs.ctx.cdb[client] else "None",
                                           sess.coq_strs(scope_of(resp))), rec))
                got = set(scope_of(resp))
                if got - set(allowed(rs, client)):
                    ctx.violation("cc-beyond-configured", "client_credentials for %s returned %r beyond its configured %r"
                                  % (client, sorted(got), allowed(rs, client)), rec)
                rs.find_new_grants()
                rs.harvest()
                tok = next((t for t in rs.tokobj if t.value == resp["access_token"]), None)
                if tok is not None and set(tok.scope) != got:
                    ctx.violation("view-response-vs-token", "client_credentials response %r vs token %r" % (sorted(got), tok.scope), rec)
                r = rs.run(("introspect", client, ("tok", rs.tokobj.index(tok)))) if tok is not None else None
                if r and r[0] == "active" and set(r[1]) != got:
                    ctx.violation("view-introspection", "client_credentials introspection %r vs response %r" % (r[1], sorted(got)), rec)
        finally:
            rs.close()


def jwt_histories(ctx, rng, n):
    """JWT access tokens: oracle only (the model's token-resolution clauses are about the opaque handlers)."""
    for i in range(n):
        rs = sess.RealSession(oidc=(i % 2 == 0), jwt_access=True, two_redirects=True, rules=["explicit", "per-client"][(i // 2) % 2])
        rs.model_compared = False      # oracle only: cookie-carrying requests also where the usage rules are per client
        try:
            orc = ScopeOracle(ctx)
            plan = sess.gen_history(rng, rng.randint(10, 30), focus="cookie" if i % 3 != 2 else "mixed", p_cookie=0.4)
            pairs, rec = sess.run_history(rs, plan, lambda r, o, x: orc(r, o, x, None))
            ctx.case_seen({"flow": "jwt-access-history", "ops": rec}, any(o[0] == "proc" and x[0] == "ok" for o, x in rec))
        finally:
            rs.close()


def run(ctx):
    def factory():
        return [ScopeOracle(ctx)]
    n = 30 if ctx.quick else 1200
    common.run_histories(ctx, n, (15, 50), factory, structured=structured() + common.cookie_structured(), cookie=True,
                         focus_of=lambda i: "cookie" if i % 3 != 2 else "mixed")
    exchange_flows(ctx, ctx.rng, 16 if ctx.quick else 400)
    client_credentials_flows(ctx, ctx.rng, 8 if ctx.quick else 200)
    jwt_histories(ctx, ctx.rng, 6 if ctx.quick else 200)
    imp = ["Lib.Base", "Lib.PyStr", "Model.ScopeFlows"]
    ctx.coq_check_cases(imp, "list pystr * option (list pystr) * list pystr * bool * option (list pystr)", "chk_exchange", list(XCASES), shard=300, label="exchange")
    ctx.coq_check_cases(imp, "option (list pystr) * list pystr", "chk_cc", list(CCASES), shard=300, label="cc")
    del XCASES[:]
    del CCASES[:]


def replay(ctx, rp):
    run(ctx)
