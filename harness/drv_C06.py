"""C06 driver — responses go only to registered URIs and carry exactly what was issued.

Real code exercised: idpyoidc.server.oauth2.authorization.verify_uri / get_uri, the OIDC and OAuth2
authorization endpoints (parse_request -> process_request -> do_response, driven the way the example
host application drives them), Message.request / to_urlencoded, the form_post page, the OIDC
end-session endpoint (post_logout_redirect_uri), and the dynamic registration endpoint (lists of redirect
URIs through Registration.verify_redirect_uris; the stored pairs are then what the authorization endpoint matches).

Model side (coqc): Model/RegFlow.v (registration of a LIST of redirect URIs = Model/Registration.v verify_uris, composed with the
matcher: register / verify_registered / decide_registered), Model/Uri.v (unquote / urlparse / hostname / port / parse_qs / verify_uri / decide),
Model/Delivery.v (query, fragment, form_post, logout target) and Model/Flight.v (several requests in flight
at one endpoint object: the schedule of calls is run on the model's state-passing endpoint; the completion
step `complete` under the registration in force when the response is built, `answer_at` for the history of a
parsed or stored request) are evaluated on the same inputs with the implementation's observed outputs embedded.

Oracle (independent of the model, written from the property text): an RFC 3986 regular-expression
splitter and a component comparison on the percent-decoded redirect URI against the *table* of
registered components (never parsed by urllib), applied to what the real endpoint did — did it hand
out a redirect or a page, where to, and which parameters arrive when the produced URL is parsed with
urllib.parse.urlsplit / parse_qsl and the produced page with html.parser.
"""
import copy
import html.parser
import json
import re
import urllib.parse as UP

import engine as E
from engine import coq_str, coq_list, coq_bool, coq_z, coq_n, coq_opt

RULE = ("redirect_uri strings derived from every registered URI of 16 client configurations (web / native, tuple and "
        "string registrations, with and without query, userinfo, port, IPv4 / IPv6 loopback, custom scheme, nothing "
        "registered) by a single-fault matrix of component mutations (scheme, userinfo, host prefix/suffix/case/"
        "confusion, port, path segments, dot segments, params, percent-encoded delimiters, query add/dup/reorder/"
        "blank, fragments, whitespace and control characters, non-ASCII), then random multi-fault and a malformed "
        "random stream; each string is run through the real verify_uri for OIDC and OAuth2 endpoint types, a sample "
        "through the whole authorization endpoint with response types x response modes x hostile state values; "
        "end-session requests with mutated post_logout_redirect_uri; flights of 2-4 authorization requests (up to three "
        "clients with different registrations, the same client twice with two of its URIs, refused URIs in between, "
        "response types x modes) whose calls parse_request / process_request or setup_auth|create_session + authz_part2 "
        "/ do_response are interleaved on ONE endpoint object: all parse orders x all processing orders for two and "
        "three requests, then random merges of the calls; the SECOND judgement of the redirect URI (when the response is "
        "built): every accepted form of every registered URI of 13 configurations x 16 re-registrations of the client "
        "(same / added / reordered / dropped / replaced / nothing / path, host, port, scheme, userinfo, query moved / "
        "application type flipped / client deleted / dropped and registered again) taking place before parse, after parse "
        "or after login, x process_request | setup_auth | create_session continuation x response types x modes, with "
        "and without the session ending before completion (an error built by authz_part2), with and without a second "
        "client's request in flight; flows resumed from a STORED request (create_session + authz_part2, never parsed): "
        "the single-fault matrix and multi-fault mutants of the registered URIs, never registered and formerly registered "
        "URIs, x response types x modes; valid requests that also carry the names of the provider's own result "
        "dictionaries (error, return_uri, response_args, redirect_location, response_msg, fragment_enc, ... 20 names: each "
        "alone with every listed value, next to error / return_uri / response_args, random subsets, all at once) through "
        "parse_request -> process_request -> do_response(**result); clients that REGISTER: lists of 1-4 redirect URIs through "
        "the real dynamic registration endpoint (native: custom scheme with / without authority, with / without query, http loopback with and without "
        "port, with and without query, the same base with two different queries and with none; web: https with / without query, "
        "same base other query, port, userinfo, other host, http loopback for code-only clients) - every URI alone, every ordered "
        "pair, every order of every 3- and 4-subset of the core kinds, random longer mixtures, response_types that do and do not "
        "force https; the stored pairs and the registration response are compared with the list sent (each URI its own base and "
        "query, the same as when registered alone), then for every registered URI the exact URI and its near misses (query "
        "dropped / changed / extended / reordered, the query of each neighbour on this base, port changed / dropped / added, host, "
        "scheme, path, userinfo, fragment) are put to verify_uri and to the whole authorization endpoint on the OIDC provider (the "
        "registered client) and on the OAuth2 provider (a client record carrying the stored pairs); lists containing a URI that "
        "may not be registered, at every position; a case is distinct by (configuration, endpoint "
        "type, uri, mode, state, extra parameters) resp. (requests, schedule, re-registrations) resp. (application type, "
        "response types, list of URIs, requested URI)")
ASSUMPTIONS = [
    "CPython urllib.parse / html.escape behave as modelled on the ASCII fragment (validated differentially on every run)",
    "bracketed hosts outside the literal table of Model/Uri.v and percent-escapes decoding to bytes >= 0x80 are Unmodelled",
    "a user agent decodes exactly the five character references html.escape emits (html_unescape5) inside attribute values",
    "registered query dictionaries have unique keys (Python dict) and list-of-string values",
    "flights: the response arguments (code, tokens, state, iss, client_id; the parameters of an error message) are taken as "
    "issued by session management (their binding to the request is checked by the "
    "oracle through the session manager, not modelled); calls are interleaved at call granularity (no preemption inside a call); "
    "a registration change is one atomic event between two calls; a client is deleted only right before the completion call",
    "completion: a failed completion is produced by ending the session between login and authz_part2; the session-management "
    "branch of authz_part2 (check_session_iframe configured: 'No such session' / 'Authentication has timed out' errors) is not "
    "configured on the providers driven here",
    "registration: URIs inside the fragment of Model/RegUri.v (ASCII, no bracketed host but [::1]); the provider the clients "
    "register at states all seven response types (the requested response_types are narrowed to the provider's before the "
    "redirect URIs are judged); a registered client asks for the code flow (verify_response_type reads response_types_supported, "
    "which a registration does not write); sector_identifier_uri is not used; what MAY be registered is C19's subject, here refused lists are only compared with the model",
]

LOOP6 = "0000:0000:0000:0000:0000:0000:0000:0001"


# ------------------------------------------------------------------ registered configurations (component table)
def R(scheme, host, path, port=None, userinfo=None, qd=None, form="pair", sep="://", rawq=None):
    """one registered URI, described by its components (the oracle compares against these, never parses)"""
    return {"scheme": scheme, "host": host, "path": path, "port": port, "userinfo": userinfo, "qd": qd,
            "form": form, "sep": sep, "rawq": rawq}


def reg_base(r):
    s = r["scheme"] + r["sep"]
    if r["userinfo"] is not None:
        s += r["userinfo"] + "@"
    s += r["host"]
    if r["port"] is not None:
        s += ":" + r["port"]
    return s + r["path"]


def reg_entry(r):
    """what is put into cdb[client]['redirect_uris']"""
    if r["form"] == "str":
        return reg_base(r) + ("?" + r["rawq"] if r["rawq"] else "")
    return (reg_base(r), copy.deepcopy(r["qd"]))


def reg_exact(r):
    """the exact registered URI as a client would send it"""
    if r["form"] == "str":
        return reg_base(r) + ("?" + r["rawq"] if r["rawq"] else "")
    if r["qd"]:
        return reg_base(r) + "?" + UP.urlencode([(k, v) for k, vs in r["qd"].items() for v in vs])
    return reg_base(r)


CONFIGS = [
    ("web-plain", "web", [R("https", "client.example.com", "/cb")]),
    ("web-query", "web", [R("https", "client.example.com", "/cb", qd={"foo": ["bar"]})]),
    ("web-multi", "web", [R("https", "client.example.com", "/cb", qd={}),
                          R("https", "client.example.com", "/app/cb2", port="8443", qd={"a": ["1", "2"], "b": ["x"]})]),
    ("web-userinfo", "web", [R("https", "client.example.com", "/cb", userinfo="user")]),
    ("web-str", "web", [R("https", "client.example.com", "/cb", form="str")]),
    ("web-str-query", "web", [R("https", "client.example.com", "/cb", form="str", rawq="x=1", qd={"x": ["1"]})]),
    ("web-loop", "web", [R("http", "127.0.0.1", "/cb", port="8000")]),
    ("web-deep", "web", [R("https", "client.example.com", "/a/b/cb")]),
    ("native-v4", "native", [R("http", "127.0.0.1", "/cb", port="8000")]),
    ("native-v4-noport", "native", [R("http", "127.0.0.1", "/cb", qd={"k": ["v"]})]),
    ("native-v6", "native", [R("http", "[::1]", "/cb")]),
    ("native-v6-long", "native", [R("http", "[" + LOOP6 + "]", "/cb", port="9000")]),
    ("native-name", "native", [R("http", "localhost", "/cb", port="8000")]),
    ("native-https", "native", [R("https", "127.0.0.1", "/cb", port="8000")]),
    ("native-custom", "native", [R("com.example.app", "", "/cb", sep=":")]),
    ("none", "web", []),
]


# ------------------------------------------------------------------ mutation of a request URI
def comps_of(r):
    q = None
    if r["form"] == "str":
        if r["rawq"]:
            q = [list(kv.split("=", 1)) for kv in r["rawq"].split("&")]
    elif r["qd"]:
        q = [[UP.quote_plus(k), UP.quote_plus(v)] for k, vs in r["qd"].items() for v in vs]
    return {"scheme": r["scheme"], "sep": r["sep"], "userinfo": r["userinfo"], "host": r["host"], "port": r["port"],
            "path": r["path"], "q": q, "tail": ""}


def comps_str(c):
    s = c["scheme"] + c["sep"]
    if c["userinfo"] is not None:
        s += c["userinfo"] + "@"
    s += c["host"]
    if c["port"] is not None:
        s += ":" + c["port"]
    s += c["path"]
    if c["q"] is not None:
        s += "?" + "&".join(f[0] if len(f) == 1 else f[0] + "=" + f[1] for f in c["q"])
    return s + c["tail"]


def _set(**kw):
    def f(c):
        c = copy.deepcopy(c)
        for k, v in kw.items():
            c[k] = v(c) if callable(v) else v
        return c
    return f


def _enc1(s, i=None):
    """percent-encode one alphanumeric character of s"""
    idx = [j for j, ch in enumerate(s) if ch.isalnum()]
    if not idx:
        return s + "%41"
    j = idx[len(idx) // 2] if i is None else idx[i % len(idx)]
    return s[:j] + "%%%02X" % ord(s[j]) + s[j + 1:]


def _q(c):
    return copy.deepcopy(c["q"]) or []


# component mutations: name -> comps -> comps
CM = {
    "exact": lambda c: copy.deepcopy(c),
    "scheme-upper": _set(scheme=lambda c: c["scheme"].upper()),
    "scheme-swap": _set(scheme=lambda c: {"http": "https", "https": "http"}.get(c["scheme"], "https")),
    "scheme-ftp": _set(scheme="ftp"),
    "scheme-js": _set(scheme="javascript"),
    "scheme-none": _set(scheme="", sep="//"),
    "scheme-space": _set(scheme=lambda c: c["scheme"] + " "),
    "scheme-prefix": _set(scheme=lambda c: "x" + c["scheme"]),
    "scheme-enc": _set(scheme=lambda c: _enc1(c["scheme"])),
    "sep-enc": _set(sep=lambda c: c["sep"].replace(":", "%3A").replace("/", "%2F")),
    "sep-single": _set(sep=":/"),
    "sep-triple": _set(sep=":///"),
    "sep-backslash": _set(sep=":\\\\"),
    "ui-add": _set(userinfo="alice"),
    "ui-add-pw": _set(userinfo="alice:pw"),
    "ui-empty": _set(userinfo=""),
    "ui-drop": _set(userinfo=None),
    "ui-host-confusion": _set(userinfo=lambda c: c["host"], host="evil.example.org"),
    "ui-host-confusion-port": _set(userinfo=lambda c: c["host"] + ":443", host="evil.example.org"),
    "ui-evil": _set(userinfo="evil.example.org"),
    "ui-enc-at": lambda c: dict(copy.deepcopy(c), host=c["host"] + "%40evil.example.org"),
    "host-prefix": _set(host=lambda c: "evil." + c["host"]),
    "host-suffix": _set(host=lambda c: c["host"] + ".evil.org"),
    "host-upper": _set(host=lambda c: c["host"].upper() if c["host"].upper() != c["host"] else c["host"] + "X"),
    "host-dot": _set(host=lambda c: c["host"] + "."),
    "host-other": _set(host="evil.example.org"),
    "host-enc": _set(host=lambda c: _enc1(c["host"])),
    "host-enc-dot": _set(host=lambda c: c["host"].replace(".", "%2E", 1) if "." in c["host"] else c["host"] + "%2E"),
    "host-tab": _set(host=lambda c: c["host"][:3] + "\t" + c["host"][3:]),
    "host-enc-tab": _set(host=lambda c: c["host"][:3] + "%09" + c["host"][3:]),
    "host-nul": _set(host=lambda c: c["host"] + "%00"),
    "host-backslash": _set(host=lambda c: c["host"] + "\\.evil.org"),
    "host-empty": _set(host=""),
    "host-enc-slash": _set(host=lambda c: "evil.org%2F" + c["host"]),
    "host-v4-to-v6": _set(host=lambda c: "[::1]" if c["host"] != "[::1]" else "127.0.0.1"),
    "host-localhost": _set(host=lambda c: "localhost" if c["host"] != "localhost" else "127.0.0.1"),
    "host-v6-long": _set(host=lambda c: "[" + LOOP6 + "]" if c["host"] != "[" + LOOP6 + "]" else "[::1]"),
    "host-127-0-0-2": _set(host="127.0.0.2"),
    "host-bracket-open": _set(host=lambda c: "[" + c["host"].strip("[]")),
    "host-bracket-v4": _set(host="[127.0.0.1]"),
    "port-add-443": _set(port=lambda c: "443" if c["port"] != "443" else "444"),
    "port-inc": _set(port=lambda c: str(int(c["port"]) + 1) if c["port"] else "8001"),
    "port-drop": _set(port=None),
    "port-0": _set(port="0"),
    "port-65535": _set(port="65535"),
    "port-65536": _set(port="65536"),
    "port-alpha": _set(port="abc"),
    "port-empty": _set(port=""),
    "port-lead0": _set(port=lambda c: "0" + (c["port"] or "443")),
    "port-space": _set(port=lambda c: " " + (c["port"] or "443")),
    "port-minus": _set(port="-1"),
    "port-double": _set(port=lambda c: (c["port"] or "443") + ":80"),
    "port-enc": _set(port=lambda c: "%38" + (c["port"] or "443")[1:] if (c["port"] or "443")[0] == "8" else "%34" + "43"),
    "path-add": _set(path=lambda c: c["path"] + "/x"),
    "path-parent": _set(path=lambda c: c["path"].rsplit("/", 1)[0]),
    "path-slash": _set(path=lambda c: c["path"] + "/"),
    "path-dotdot": _set(path=lambda c: "/a/.." + c["path"]),
    "path-dot": _set(path=lambda c: "/." + c["path"]),
    "path-dotdot-tail": _set(path=lambda c: c["path"] + "/../cb"),
    "path-double-slash": _set(path=lambda c: "/" + c["path"]),
    "path-params": _set(path=lambda c: c["path"] + ";p=1"),
    "path-params-empty": _set(path=lambda c: c["path"] + ";"),
    "path-upper": _set(path=lambda c: c["path"].upper()),
    "path-enc-letter": _set(path=lambda c: _enc1(c["path"])),
    "path-enc-slash": _set(path=lambda c: c["path"].replace("/", "%2F", 1)),
    "path-enc-slash-lower": _set(path=lambda c: c["path"].replace("/", "%2f", 1)),
    "path-double-enc": _set(path=lambda c: c["path"].replace("/", "%252F", 1)),
    "path-empty": _set(path=""),
    "path-space": _set(path=lambda c: c["path"] + " "),
    "path-enc-space": _set(path=lambda c: c["path"] + "%20"),
    "path-enc-percent": _set(path=lambda c: c["path"] + "%25"),
    "path-bad-escape": _set(path=lambda c: c["path"] + "%zz"),
    "path-trunc-escape": _set(path=lambda c: c["path"] + "%4"),
    "path-tab": _set(path=lambda c: c["path"][:2] + "\t" + c["path"][2:]),
    "path-enc-nl": _set(path=lambda c: c["path"] + "%0A"),
    "path-nonascii": _set(path=lambda c: c["path"] + "é"),
    "path-enc-nonascii": _set(path=lambda c: c["path"] + "%C3%A9"),
    "path-enc-semicolon": _set(path=lambda c: c["path"] + "%3Bp"),
    "path-noslash": _set(path=lambda c: c["path"].lstrip("/")),
    "q-add": _set(q=lambda c: _q(c) + [["x", "1"]]),
    "q-add-first": _set(q=lambda c: [["x", "1"]] + _q(c)),
    "q-dup": _set(q=lambda c: _q(c) + (_q(c)[:1] or [["x", "1"]])),
    "q-reverse": _set(q=lambda c: list(reversed(_q(c))) or None),
    "q-change-value": _set(q=lambda c: [[f[0], "other"] for f in _q(c)[:1]] + _q(c)[1:] or [["y", "2"]]),
    "q-change-key": _set(q=lambda c: [["zz"] + f[1:] for f in _q(c)[:1]] + _q(c)[1:] or [["y", "2"]]),
    "q-drop-first": _set(q=lambda c: _q(c)[1:] or None),
    "q-drop-all": _set(q=None),
    "q-blank": _set(q=lambda c: _q(c) + [["x", ""]]),
    "q-blank-code": _set(q=lambda c: _q(c) + [["code", ""]]),
    "q-valueless": _set(q=lambda c: _q(c) + [["x"]]),
    "q-empty": _set(q=lambda c: _q(c) + []),
    "q-trailing-amp": _set(q=lambda c: _q(c) + [[""]]),
    "q-leading-amp": _set(q=lambda c: [[""]] + _q(c)),
    "q-enc-value": _set(q=lambda c: [[f[0], _enc1(f[1])] if len(f) > 1 and f[1] else f for f in _q(c)] or [["x", "%31"]]),
    "q-double-enc-value": _set(q=lambda c: [[f[0], _enc1(f[1]).replace("%", "%25")] if len(f) > 1 and f[1] else f for f in _q(c)] or [["x", "%2531"]]),
    "q-enc-eq": _set(q=lambda c: [[f[0] + "%3D" + f[1]] if len(f) > 1 else f for f in _q(c)] or [["x%3D1"]]),
    "q-enc-amp": _set(q=lambda c: [["%26".join(f[0] + "=" + f[1] if len(f) > 1 else f[0] for f in _q(c))]] if len(_q(c)) > 1 else _q(c) + [["x%261"]]),
    "q-plus": _set(q=lambda c: _q(c) + [["p", "a+b"]]),
    "q-semicolon-sep": _set(q=lambda c: [[";".join("=".join(f) for f in _q(c))]] if len(_q(c)) > 1 else _q(c) + [["s;t", "1"]]),
    "q-split-values": _set(q=lambda c: _q(c)[::2] + _q(c)[1::2] if len(_q(c)) > 2 else _q(c) + [["x", "1"]]),
    "tail-hash": _set(tail="#"),
    "tail-frag": _set(tail="#frag"),
    "tail-enc-hash": _set(tail="%23"),
    "tail-enc-frag": _set(tail="%23frag"),
    "tail-hash-q": _set(tail="#?x=1"),
    "tail-double-enc-hash": _set(tail="%2523"),
    "tail-qmark-enc": _set(tail="%3F"),
    "tail-space": _set(tail=" "),
    "tail-nl": _set(tail="\n"),
}

# string-level mutations
SM = {
    "lead-space": lambda s: " " + s,
    "lead-ctl": lambda s: "\x01" + s,
    "lead-tab-nl": lambda s: "\t\n" + s,
    "lead-enc-space": lambda s: "%20" + s,
    "mid-nl": lambda s: s[:9] + "\n" + s[9:],
    "mid-cr": lambda s: s[:4] + "\r" + s[4:],
    "scheme-tab": lambda s: s[:2] + "\t" + s[2:],
    "qmark-enc": lambda s: s.replace("?", "%3F", 1) if "?" in s else s + "%3Fx=1",
    "quote-all": lambda s: UP.quote(s, safe=""),
    "quote-twice": lambda s: UP.quote(UP.quote(s, safe=""), safe=""),
    "colon-enc": lambda s: s.replace(":", "%3A"),
    "unicode-slash": lambda s: s.replace("/cb", "⁄cb"),
    "fullwidth-host": lambda s: s.replace("://", "://ｅvil.org／", 1),
    "append-at": lambda s: s + "@evil.example.org",
    "upper-all": lambda s: s.upper(),
}


def mutants_single(r):
    """single-fault matrix: every mutation alone"""
    c = comps_of(r)
    out = []
    for name, f in CM.items():
        try:
            out.append((name, comps_str(f(c))))
        except Exception:
            pass
    ex = comps_str(c)
    for name, f in SM.items():
        out.append((name, f(ex)))
    return out


def mutant_multi(rng, r):
    c = comps_of(r)
    names = rng.sample(sorted(CM), rng.randint(2, 3))
    for n in names:
        try:
            c = CM[n](c)
        except Exception:
            pass
    s = comps_str(c)
    if rng.random() < 0.3:
        n = rng.choice(sorted(SM))
        names.append(n)
        s = SM[n](s)
    return "+".join(names), s


ALPHA = list("htps:/?#@[]%;=&.+ \t-_~") + list("abcxyz019AF") + ["%2F", "%23", "%3F", "%40", "%3A", "%25", "%09",
                                                                   "://", "client.example.com", "127.0.0.1", "/cb", "::1"]


def random_string(rng):
    return "".join(rng.choice(ALPHA) for _ in range(rng.randint(0, 14)))


# ------------------------------------------------------------------ the independent oracle (property text)
RFC3986 = re.compile(r"^(?:([^:/?#]+):)?(?://([^/?#]*))?([^?#]*)(?:\?([^#]*))?(?:#(.*))?$", re.S)
REGNAME = re.compile(r"^[A-Za-z0-9\-._~!$&'()*+,;=%]*$")
LOOPBACK_HOSTS = {"127.0.0.1", "[::1]", "[" + LOOP6 + "]"}


def conventional_query(qs):
    """query parameters as a receiver decodes them: '&' fields, first '=', '+' and %XX decoded; blanks kept"""
    d = {}
    if qs is None:
        return d
    for f in qs.split("&"):
        if f == "":
            continue
        k, _, v = f.partition("=")
        d.setdefault(UP.unquote_plus(k), []).append(UP.unquote_plus(v))
    return d


def oracle_match(uri, regs, native):
    """Does the property allow the user agent to be sent to `uri`?  Returns (allowed, reasons)."""
    reasons = []
    if not regs:
        reasons.append("nothing-registered")
    dec = UP.unquote(uri)
    if any(ord(ch) < 0x20 or ord(ch) == 0x7F for ch in dec) or dec != dec.lstrip(" ") or any(ch in uri for ch in "\t\r\n"):
        reasons.append("ctl")
    if "#" in dec:
        reasons.append("fragment")
    m = RFC3986.match(dec)
    scheme, auth, path, query, frag = m.groups()
    if scheme is None or not re.match(r"^[A-Za-z][A-Za-z0-9+.\-]*$", scheme) or auth is None:
        reasons.append("malformed")
        return False, reasons
    userinfo, host, port = None, auth, None
    if "@" in auth:
        userinfo, host = auth.rsplit("@", 1)
        if "@" in userinfo:
            reasons.append("malformed")
    if host.startswith("["):
        mm = re.match(r"^(\[[0-9A-Fa-f:.]+\])(?::(.*))?$", host)
        if not mm:
            reasons.append("malformed")
            return False, reasons
        host, port = mm.group(1), mm.group(2)
    else:
        if host.count(":") > 1:
            reasons.append("malformed")
        if ":" in host:
            host, port = host.split(":", 1)
        if not REGNAME.match(host):
            reasons.append("malformed")
    if host == "":
        reasons.append("malformed")
    if port is not None and port != "":
        if not re.match(r"^[0-9]+$", port) or int(port) > 65535:
            reasons.append("malformed")
    if port == "":
        port = None
    if "malformed" in reasons:
        return False, reasons
    qd = conventional_query(query)
    matched = False
    near = []
    for r in regs:
        if scheme.lower() != r["scheme"] or r["sep"] != "://":
            continue
        if userinfo != r["userinfo"] or host.lower() != r["host"].lower() or path != r["path"]:
            if userinfo == r["userinfo"] and host.lower() == r["host"].lower() and path == r["path"] + ";":
                near.append("empty-params")
            continue
        loop = native and r["scheme"] == "http" and host in LOOPBACK_HOSTS and r["host"] in LOOPBACK_HOSTS
        if not loop:
            if (port is None) != (r["port"] is None):
                continue
            if port is not None and int(port) != int(r["port"]):
                continue
        if qd != (r["qd"] or {}):
            # a difference that consists only of blank-valued parameters gets its own reason
            nonblank = {k: [v for v in vs if v != ""] for k, vs in qd.items() if any(v != "" for v in vs)}
            if nonblank == (r["qd"] or {}):
                near.append("blank-query")
            elif r["form"] == "str" and r["rawq"] and nonblank == {}:
                near.append("str-query-dropped")
            continue
        matched = True
    if regs and not matched:
        reasons += near
        if not reasons:
            reasons.append("mismatch")
    return (matched and not reasons), reasons


def sig_of(reasons):
    for r, s in (("nothing-registered", "oauth2-nothing-registered"), ("ctl", "ctl-char-stripped"), ("fragment", "empty-fragment-accepted"), ("blank-query", "blank-query-param-ignored"), ("empty-params", "empty-path-params-dropped"),
                 ("str-query-dropped", "string-registration-query-dropped"),
                 ("malformed", "malformed-accepted")):
        if r in reasons:
            return s
    return "unregistered-target"


# ------------------------------------------------------------------ Coq terms
def coq_qd(qd):
    return coq_list(["(%s, %s)" % (coq_str(k), coq_list([coq_str(v) for v in vs], "pystr")) for k, vs in qd.items()],
                    "(pystr * list pystr)")


def coq_reg(r):
    if r["form"] == "str":
        return "(RStr %s)" % coq_str(reg_entry(r))
    return "(RPair %s %s)" % (coq_str(reg_base(r)), "None" if r["qd"] is None else "(Some %s)" % coq_qd(r["qd"]))


def coq_regs(regs):
    return coq_list([coq_reg(r) for r in regs], "reg")


EXC = {"URIError": "(Err (Refused 1))", "RedirectURIError": "(Err (Refused 2))", "ParameterError": "(Err (Refused 3))",
       "UnknownClient": "(Err (Refused 4))", "ValueError": "(Err ValueError)", "KeyError": "(Err KeyError)",
       "TypeError": "(Err TypeError)", "AttributeError": "(Err AttributeError)", "IndexError": "(Err IndexError)"}


def is_ascii(s):
    return all(ord(ch) < 128 for ch in s)



class Shared:
    """Elaborating string literals is what makes coqc slow on case files: strings and sub-terms that repeat (the
    registered URIs, parameter names, issuer, client ids) are emitted once per shard as a Definition."""
    NAME = re.compile(r"\bsh_\d+\b")

    def __init__(self):
        self.names, self.defs, self.order = {}, {}, []

    def share(self, text, ty):
        n = self.names.get((ty, text))
        if n is None:
            n = "sh_%d" % len(self.order)
            self.names[(ty, text)] = n
            self.defs[n] = (ty, text)
            self.order.append(n)
        return n

    def s(self, string):
        return self.share(coq_str(string), "pystr")

    def prelude(self, texts):
        need, stack = set(), []
        for t in texts:
            stack.extend(self.NAME.findall(t))
        while stack:
            n = stack.pop()
            if n in need or n not in self.defs:
                continue
            need.add(n)
            stack.extend(self.NAME.findall(self.defs[n][1]))
        return "".join("Definition %s : %s := %s.\n" % (n, self.defs[n][0], self.defs[n][1]) for n in self.order if n in need)


def check_cases_shared(ctx, g):
    """like Ctx.coq_check_cases, every shard starting with the shared definitions its cases refer to"""
    from concurrent.futures import ThreadPoolExecutor
    sh, cases, shard, label = g["shared"], g["cases"], g.get("shard", 300), g["label"]
    jobs = []
    for i in range(0, len(cases), shard):
        part = cases[i:i + shard]
        ctx.shard_seq += 1
        name = "%s_%s_%03d" % (ctx.prop, label, ctx.shard_seq)
        body = "%sDefinition cases : list (%s) := [\n%s\n].\nEval vm_compute in (bad_indices (%s) cases).\n" % (
            sh.prelude([t for t, _ in part]), g["type"], ";\n".join(t for t, _ in part), g["chk"])
        jobs.append((name, body, part))
    with ThreadPoolExecutor(max_workers=min(E.NCPU, max(1, len(jobs)))) as ex:
        results = list(ex.map(lambda job: (job, ctx.coq_eval(job[0], g["imports"], job[1])), jobs))
    for (name, body, part), (rc, out, vals) in results:
        if rc != 0 or not vals:
            ctx.broken.append("correspondence shard %s does not evaluate: %s" % (name, out.strip()[-600:]))
            continue
        try:
            idx = E.parse_nat_list(vals[-1])
        except ValueError as e:
            ctx.broken.append("correspondence shard %s: %s" % (name, e))
            continue
        ctx.traces += len(part)
        dvals = {}
        if idx and g.get("diag"):
            texts = [part[k][0] for k in idx[:5]]
            dbody = sh.prelude(texts) + "".join("Eval vm_compute in (%s (%s)).\n" % (g["diag"], t) for t in texts)
            drc, dout, dv = ctx.coq_eval(name + "_diag", g["imports"], dbody)
            dvals = dict(zip(idx[:5], dv))
        for k in idx:
            ctx.mismatch("model and implementation disagree (%s, %s[%d])" % (label, name, k), part[k][1],
                         model=dvals.get(k, "(model answer not printed)"))


def check_groups(ctx, groups):
    """run several ctx.coq_check_cases groups concurrently (each group shards in parallel itself)"""
    from concurrent.futures import ThreadPoolExecutor
    groups = [g for g in groups if g["cases"]]

    def one(g):
        if g.get("shared") is not None:
            return check_cases_shared(ctx, g)
        return ctx.coq_check_cases(g["imports"], g["type"], g["chk"], g["cases"], shard=g.get("shard", 300),
                                   label=g["label"], diag=g.get("diag"))
    with ThreadPoolExecutor(max_workers=max(1, len(groups))) as ex:
        list(ex.map(one, groups))

# ------------------------------------------------------------------ urllib differential (model of the glue)
class UrlDiff:
    def __init__(self, ctx):
        self.ctx = ctx
        self.seen = set()
        self.unq, self.prs, self.qs, self.qsl = [], [], [], []

    def add(self, s):
        if s in self.seen or len(s) > 300:
            return
        self.seen.add(s)
        ctx = self.ctx
        # unquote
        d = UP.unquote(s)
        modelled = is_ascii(s) and is_ascii(d)
        self.unq.append(("(%s, %s)" % (coq_str(s), "(Ok %s)" % coq_str(d) if modelled else "Unmodelled"), {"unquote": s, "out": d}))
        if not modelled:
            ctx.unmodelled += 1
        # urlparse + hostname + port on the raw and on the decoded string
        for t in {s, d}:
            if not is_ascii(t):
                self.prs.append(("(%s, Unmodelled)" % coq_str(t), {"urlparse": t, "out": "non-ascii"}))
                ctx.unmodelled += 1
                continue
            try:
                p = UP.urlparse(t)
            except ValueError:
                br = t
                obs, rec = "(Err ValueError)", "ValueError"
                if self.bracket_unmodelled(t):
                    obs = None
            else:
                try:
                    port = p.port
                    po = "(Ok %s)" % coq_opt(port, coq_z, "Z")
                except ValueError:
                    po = "(Err ValueError)"
                obs = "(Ok ((%s, %s, %s), (%s, %s, %s), %s, %s))" % (
                    coq_str(p.scheme), coq_str(p.netloc), coq_str(p.path), coq_str(p.params), coq_str(p.query),
                    coq_str(p.fragment), coq_opt(p.hostname, coq_str, "pystr"), po)
                rec = list(p) + [p.hostname, po]
                if self.bracket_unmodelled(t):
                    obs = None
            if obs is None:
                ctx.unmodelled += 1
                self.prs.append(("(%s, Unmodelled)" % coq_str(t), {"urlparse": t, "out": "bracketed host outside the table"}))
            else:
                self.prs.append(("(%s, %s)" % (coq_str(t), obs), {"urlparse": t, "out": rec}))
            # parse_qs / parse_qsl on whatever follows the first '?'
            if "?" in t:
                q = t.split("?", 1)[1].split("#", 1)[0]
                self.add_qs(q)

    @staticmethod
    def bracket_unmodelled(t):
        """mirror of the literal table of Model/Uri.v: is the bracketed host outside it?"""
        t2 = t.lstrip("".join(chr(i) for i in range(33)))
        for ch in "\t\r\n":
            t2 = t2.replace(ch, "")
        m = re.match(r"^(?:([A-Za-z][A-Za-z0-9+.\-]*):)?(.*)$", t2, re.S)
        rest = m.group(2) if m.group(1) is not None else t2
        if not rest.startswith("//"):
            return False
        nl = re.split(r"[/?#]", rest[2:], maxsplit=1)[0]
        if "[" in nl and "]" in nl:
            h = nl.partition("[")[2].partition("]")[0]
            return h not in ("::1", LOOP6, "0:0:0:0:0:0:0:1", "::", "2001:db8::1", "", "127.0.0.1", "localhost")
        return False

    def add_qs(self, q):
        if ("qs", q) in self.seen:
            return
        self.seen.add(("qs", q))
        for kb in (False, True):
            l = UP.parse_qsl(q, keep_blank_values=kb)
            # the model decodes exactly the fields that are kept; a decoded non-ASCII character is outside its fragment
            ok = is_ascii(q) and all(is_ascii(k) and is_ascii(v) for k, v in l)
            d = UP.parse_qs(q, keep_blank_values=kb)
            if not ok:
                self.ctx.unmodelled += 1
                self.qsl.append(("(%s, %s, Unmodelled)" % (coq_bool(kb), coq_str(q)), {"parse_qsl": q, "keep_blank": kb}))
                self.qs.append(("(%s, %s, Unmodelled)" % (coq_bool(kb), coq_str(q)), {"parse_qs": q, "keep_blank": kb}))
            else:
                self.qsl.append(("(%s, %s, (Ok %s))" % (coq_bool(kb), coq_str(q), coq_list(
                    ["(%s, %s)" % (coq_str(k), coq_str(v)) for k, v in l], "(pystr * pystr)")), {"parse_qsl": q, "keep_blank": kb, "out": l}))
                self.qs.append(("(%s, %s, (Ok %s))" % (coq_bool(kb), coq_str(q), coq_qd(d)), {"parse_qs": q, "keep_blank": kb, "out": d}))

    def flush(self):
        imp = ["Lib.Base", "Lib.PyStr", "Model.Uri"]
        for c in self.unq + self.prs + self.qs + self.qsl:
            self.ctx.case_seen(c[1], True)
        self.ctx.count("urllib:unquote", len(self.unq))
        self.ctx.count("urllib:urlparse", len(self.prs))
        self.ctx.count("urllib:parse_qs", len(self.qs) + len(self.qsl))
        return [
            {"imports": imp, "type": "pystr * res pystr", "chk": "chk_unquote", "cases": self.unq, "label": "unquote"},
            {"imports": imp, "type": "pystr * parse_obs", "chk": "chk_urlparse", "cases": self.prs, "label": "urlparse",
             "diag": "(fun c => parse_view (fst c))"},
            {"imports": imp, "type": "bool * pystr * res qdict", "chk": "chk_parse_qs", "cases": self.qs, "label": "parseqs",
             "diag": "(fun c => parse_qs (fst (fst c)) (snd (fst c)))"},
            {"imports": imp, "type": "bool * pystr * res (list (pystr * pystr))", "chk": "chk_parse_qsl", "cases": self.qsl,
             "label": "parseqsl"},
        ]


# ------------------------------------------------------------------ driving the real code
class Op:
    """one provider (OIDC or OAuth2) with one reconfigurable client"""
    current = None

    def __init__(self, oidc, extra=None):
        import srv
        self.oidc = oidc
        self.server = srv.make_server(oidc=oidc, extra=extra) if extra else srv.make_server(oidc=oidc)
        self.context = self.server.context
        self.ep = self.server.get_endpoint("authorization")
        self.issued = None
        # what is handed to inputs() is what the endpoint decided to put on the form_post page
        import idpyoidc.server.oauth2.authorization as A
        if not getattr(A.inputs, "_c06_spy", False):
            orig = A.inputs

            def spy(form_args):
                if Op.current is not None:
                    Op.current.issued = list(form_args.items())
                return orig(form_args)
            spy._c06_spy = True
            A.inputs = spy
        self.etype = "oidc" if oidc else "oauth2"

    def configure(self, cfg, cid="client_1"):
        name, app, regs = cfg
        ci = self.context.cdb[cid]
        if regs:
            ci["redirect_uris"] = [reg_entry(r) for r in regs]
        else:
            ci.pop("redirect_uris", None)
        ci["application_type"] = app

    def verify(self, uri, cid="client_1"):
        from idpyoidc.server.oauth2.authorization import verify_uri
        try:
            verify_uri(self.context, {"client_id": cid, "redirect_uri": uri}, "redirect_uri", endpoint_type=self.etype)
            return "ok"
        except Exception as e:
            return type(e).__name__

    def host(self, req):
        """What a host application (example/flask_op/views.py) does with the endpoint. Returns an observation."""
        ep = self.ep
        self.issued = None
        Op.current = self
        obs = {"stage": None, "redirect": None, "page": None, "direct": None, "return_uri": None, "issued": None,
               "parsed_redirect_uri": None}
        hi = {"headers": {}}
        try:
            p = ep.parse_request(dict(req), http_info=hi)
        except Exception as e:
            obs.update(stage="parse-exc", direct=type(e).__name__)
            return obs
        from idpyoidc.message.oauth2 import ResponseMessage
        if isinstance(p, ResponseMessage) and "error" in p:
            obs.update(stage="parse-err", direct=p.to_dict())
            # a careless host that goes on regardless must still not produce a redirect
            try:
                args = ep.process_request(p, http_info=hi)
                info = ep.do_response(request=p, **args)
                if info.get("response_placement", ep.response_placement) == "url":
                    obs["careless_redirect"] = info["response"]
                else:
                    obs["careless_body"] = info["response"]
            except Exception as e:
                obs["careless"] = type(e).__name__
            return obs
        obs["parsed_redirect_uri"] = p.get("redirect_uri")
        try:
            args = ep.process_request(p, http_info=hi)
        except Exception as e:
            obs.update(stage="proc-exc", direct=type(e).__name__ + ": " + str(e)[:200])
            return obs
        if "redirect_location" in args:
            obs.update(stage="resp", redirect=args["redirect_location"])
            return obs
        if "http_response" in args:
            obs.update(stage="authn-page", direct="http_response")
            return obs
        try:
            info = ep.do_response(request=p, **args)
        except Exception as e:
            obs.update(stage="resp-exc", direct=type(e).__name__ + ": " + str(e)[:200])
            return obs
        placement = info.get("response_placement", ep.response_placement)
        obs["return_uri"] = args.get("return_uri")
        ra = args.get("response_args")
        obs["final_args"] = list(ra.items()) if hasattr(ra, "items") else None
        obs["result_type"] = type(args).__name__
        obs["issued"] = self.issued
        obs["fragment_enc"] = args.get("fragment_enc")
        obs["return_type"] = args.get("return_type")
        if placement == "url":
            obs.update(stage="resp", redirect=info["response"])
        else:
            obs.update(stage="resp", page=info["response"])
        return obs


# ------------------------------------------------------------------ oracle on produced URLs / pages
def expect_pairs(items):
    """issued response parameters as the receiver should see them (name, text)"""
    out = []
    for k, v in items:
        if v is None:
            continue
        if isinstance(v, list):
            out.append((k, " ".join(str(x) for x in v)))
        else:
            out.append((k, str(v)))
    return out


class FormReader(html.parser.HTMLParser):
    def __init__(self):
        super().__init__(convert_charrefs=True)
        self.tags, self.forms, self.inputs, self.text = [], [], [], []

    def handle_starttag(self, tag, attrs):
        self.tags.append(tag)
        if tag == "form":
            self.forms.append(dict(attrs))
        if tag == "input":
            self.inputs.append(attrs)

    def handle_startendtag(self, tag, attrs):
        self.handle_starttag(tag, attrs)

    def handle_data(self, data):
        if data.strip():
            self.text.append(data.strip())


def oracle_delivery(ctx, obs, req, rec, expected_target):
    """the produced URL / page delivers exactly the issued parameters to exactly expected_target"""
    state = req.get("state")
    if obs["redirect"] is not None:
        url = obs["redirect"]
        ret = expected_target
        issued = expect_pairs(obs.get("final_args") or [])
        if not url.startswith(ret):
            ctx.violation("target-changed", "redirect %r does not start with the verified redirect_uri %r" % (url, ret), rec)
            return
        u, r = UP.urlsplit(url), UP.urlsplit(ret)
        if (u.scheme, u.netloc, u.path) != (r.scheme, r.netloc, r.path):
            ctx.violation("target-changed", "redirect %r has another scheme/authority/path than %r" % (url, ret), rec)
            return
        own_q = UP.parse_qsl(r.query, keep_blank_values=True)
        got_q = UP.parse_qsl(u.query, keep_blank_values=True)
        got_f = UP.parse_qsl(u.fragment, keep_blank_values=True)
        if got_q == own_q + issued and u.fragment == r.fragment:
            where = "query"
        elif got_f == issued and got_q == own_q:
            where = "fragment"
        else:
            sig = "empty-fragment-accepted" if "#" in ret else "delivery-mismatch"
            ctx.violation(sig, "redirect %r delivers query %r / fragment %r; issued %r, redirect_uri's own query %r"
                          % (url, got_q, got_f, issued, own_q), rec)
            return
        ctx.count("delivered:" + where)
        if state and dict(issued).get("state") != state:
            ctx.violation("state-altered", "state %r is issued as %r" % (state, dict(issued).get("state")), rec)
    elif obs["page"] is not None:
        page = obs["page"]
        issued = expect_pairs(obs.get("issued") or [])
        fr = FormReader()
        fr.feed(page)
        fr.close()
        names = [(dict(a).get("name"), dict(a).get("value")) for a in fr.inputs]
        if fr.tags != ["html", "head", "title", "body", "form"] + ["input"] * len(issued) or fr.text != ["Submit This Form"]:
            ctx.violation("form-markup", "form_post page has element sequence %r / text %r (state %r)" % (fr.tags, fr.text, state), rec)
            return
        if len(fr.forms) != 1 or fr.forms[0].get("action") != expected_target or fr.forms[0].get("method") != "post":
            ctx.violation("target-changed", "form_post action %r, verified redirect_uri %r" % (fr.forms and fr.forms[0], expected_target), rec)
            return
        if any(sorted(dict(a)) != ["name", "type", "value"] or dict(a)["type"] != "hidden" for a in fr.inputs):
            ctx.violation("form-markup", "form_post input with unexpected attributes %r" % (fr.inputs,), rec)
            return
        if names != issued:
            ctx.violation("delivery-mismatch", "form_post delivers %r, issued %r" % (names, issued), rec)
            return
        ctx.count("delivered:form_post")
        if state and dict(names).get("state") != state:
            ctx.violation("state-altered", "state %r arrives as %r" % (state, dict(names).get("state")), rec)


STATE_ALPHA = ["<", ">", '"', "'", "&", "=", "#", "?", "%", "+", " ", ";", "/", "\\", "\n", "\r", "\t", "a", "Z", "0", "é",
               " ", "&amp;", "&#x27;", "%26", "%3C", "</form>", "<script>", "-->", "javascript:", "\x00", "\x7f", "\U0001F600",
               "&lt", "&quot"]
STATES_FIXED = ['"><script>alert(1)</script>', "a&b=c#d?e", "x' onload='alert(1)", "&amp;&lt;", "</form><form action=\"https://evil\">",
                "%22%3E", "a+b c%20d", "plain", "é \U0001F600", "&", "&#x27;", "a\nb\r\nc"]


def hostile(rng):
    if rng.random() < 0.35:
        return rng.choice(STATES_FIXED)
    return "".join(rng.choice(STATE_ALPHA) for _ in range(rng.randint(1, 8)))


def coq_fval(v):
    if isinstance(v, list):
        return "(FList %s)" % coq_list([coq_str(str(x)) for x in v], "pystr")
    if isinstance(v, bool):
        raise ValueError("bool")
    if isinstance(v, int):
        return "(FInt %s)" % coq_z(v)
    return "(FStr %s)" % coq_str(str(v))


def coq_args(items):
    return coq_list(["(%s, %s)" % (coq_str(k), coq_fval(v)) for k, v in items if v is not None], "(pystr * fval)")



TOKEN_RE = re.compile(r"^[A-Za-z0-9_.=\-]{40,}$")
TOKEN_SUB = re.compile(r"[A-Za-z0-9_.=\-]{40,}")


def shorten(items, text, enc):
    """Canonicalise long opaque token values (code / access_token / id_token: only URL- and HTML-inert
    characters) to a short stand-in, in the issued arguments and at their single occurrence in the produced
    text, so that the Coq literals stay small.  Anything unexpected keeps the full strings."""
    out = []
    for k, v in items:
        if isinstance(v, str) and TOKEN_RE.match(v):
            short = v[:8] + v[-6:]
            if text.count(enc(v)) == 1 and text.count(enc(short)) == 0:
                text = text.replace(enc(v), enc(short))
                v = short
        elif isinstance(v, str) and k == "error_description":
            # an error description that quotes one opaque token (a session id)
            m = TOKEN_SUB.search(v)
            if m and len(TOKEN_SUB.findall(v)) == 1:
                tok = m.group(0)
                short = tok[:8] + tok[-6:]
                if text.count(enc(tok)) == 1 and text.count(enc(short)) == 0:
                    text = text.replace(enc(tok), enc(short))
                    v = v.replace(tok, short)
        out.append((k, v))
    return out, text

RTYPES_OIDC = ["code", "id_token", "id_token token", "code id_token", "code token", "code id_token token"]
RTYPES_OAUTH = ["code", "token"]
MODES = [None, "query", "fragment", "form_post"]


# request parameters that mean something only in the provider's OWN result dictionaries (what process_request /
# authz_part2 hand to do_response, and what do_response hands to the host)
EVIL = "https://evil.example.org/collect"
SMUGGLE = {
    "error": ["access_denied", "x"],
    "error_description": ["go away", "<script>alert(1)</script>"],
    "error_uri": [EVIL],
    "return_uri": [EVIL, EVIL + "?a=b", "//evil.example.org/"],
    "redirect_location": [EVIL],
    "response_args": ['{"code": "stolen"}', "x"],
    "fragment_enc": ["true", "1"],
    "return_type": ["token", "id_token token"],
    "response_placement": ["url", "body"],
    "response_msg": ['<html><body onload="document.forms[0].submit()"><form method="post" action="%s"></form></body></html>' % EVIL, "x"],
    "response": [EVIL],
    "content_type": ["text/html", "application/json"],
    "http_headers": ["Location: " + EVIL, '[["Location", "%s"]]' % EVIL],
    "http_response": ["<html>login at %s</html>" % EVIL],
    "cookie": ["oidc_op=forged", '[{"name": "oidc_op", "value": "forged"}]'],
    "session_id": ["forged-session", "diana;;client_1;;x"],
    "function": ["x"],
    "args": ["x"],
    "identity": ['{"uid": "admin"}'],
    "user": ["admin"],
}


def smuggle_sets(rng, quick):
    """every name alone (every listed value), every name next to `error`, `return_uri` and `response_args`,
    random subsets, and all of them at once"""
    names = sorted(SMUGGLE)
    out = []
    for n in names:
        for v in SMUGGLE[n]:
            out.append({n: v})
    for lead in ("error", "return_uri", "response_args"):
        for n in names:
            if n != lead:
                out.append({lead: SMUGGLE[lead][0], n: rng.choice(SMUGGLE[n])})
    out.append({"error": "x", "return_uri": EVIL, "error_description": "d"})
    out.append({"error": "x", "return_uri": EVIL, "fragment_enc": "true"})
    out.append({"response_msg": SMUGGLE["response_msg"][0], "response_placement": "body", "content_type": "text/html"})
    out.append({"response_args": "x", "return_uri": EVIL, "fragment_enc": "true"})
    for _ in range(40 if quick else 600):
        k = rng.randint(2, 6)
        out.append({n: rng.choice(SMUGGLE[n]) for n in rng.sample(names, k)})
    out.append({n: SMUGGLE[n][0] for n in names})
    return out


class Run:
    def __init__(self, ctx):
        self.ctx = ctx
        self.ops = {"oidc": Op(True), "oauth2": Op(False)}
        self.ud = UrlDiff(ctx)
        self.vcases, self.dcases, self.urlcases, self.formcases = [], [], [], []
        self.rdcases = []           # decisions for dynamically registered clients (RegFlow)
        self.n_accept_full = 0

    # ---- verify_uri, model + oracle
    def verify_case(self, cfg, etype, label, uri):
        ctx = self.ctx
        name, app, regs = cfg
        op = self.ops[etype]
        op.configure(cfg)
        out = op.verify(uri)
        rec = {"kind": "verify_uri", "config": name, "endpoint_type": etype, "mutation": label, "uri": uri, "out": out}
        nontriv = label != "random"
        ctx.case_seen(rec, nontriv)
        ctx.count("verify:" + ("accepted" if out == "ok" else out))
        ctx.count("mut:" + (label.split("-")[0] if "+" not in label else "multi"))
        self.ud.add(uri)
        obs = "(Ok tt)" if out == "ok" else EXC.get(out, "(Err TypeError)")
        self.vcases.append(("(%s, %s, %s, %s, %s)" % (coq_regs(regs), coq_bool(app == "native"), coq_bool(etype == "oidc"),
                                                      coq_str(uri), obs), rec))
        allowed, reasons = oracle_match(uri, regs, app == "native")
        if out == "ok" and not allowed:
            ctx.violation(sig_of(reasons), "verify_uri (%s, %s) accepts redirect_uri %r although %s; registered: %r"
                          % (name, etype, uri, ",".join(reasons), [reg_exact(r) for r in regs]), rec)
        return out, allowed, reasons

    # ---- the whole endpoint
    def endpoint_case(self, cfg, etype, label, uri, rng, rtype=None, mode="random", state=None, extra=None, dyn=None):
        """extra: further request parameters (the smuggle family: names that mean something only in the provider's
        own result dictionaries).
        dyn: the client is one that registered through the real registration endpoint (RegFlow): {"cid": its id at the
        provider of this endpoint type, "op": that provider, "rtypes": response types it may ask for, "coq": "ct, code_only,
        uris" of the model case, "rec": the registration}; cfg = (label, application type, component table of the URIs it SENT) is
        then only what the oracle compares with - nothing is written into the client database here"""
        ctx = self.ctx
        name, app, regs = cfg
        op = (dyn or {}).get("op") or self.ops[etype]
        if dyn is None:
            op.configure(cfg)
        if rtype is None:
            rtype = rng.choice(dyn["rtypes"] if dyn else (RTYPES_OIDC if etype == "oidc" else RTYPES_OAUTH))
        if mode == "random":
            mode = rng.choice(MODES)
        if state is None:
            state = hostile(rng) if rng.random() < 0.8 else "st"
        req = {"client_id": dyn["cid"] if dyn else "client_1", "response_type": rtype,
               "scope": "openid" if etype == "oidc" else "profile", "state": state, "nonce": hostile(rng)}
        if uri is not None:
            req["redirect_uri"] = uri
        if mode:
            req["response_mode"] = mode
        if extra:
            req.update(extra)
        try:
            state.encode("utf-8"), req["nonce"].encode("utf-8")
        except UnicodeEncodeError:
            return
        obs = op.host(req)
        rec = {"kind": "endpoint", "config": name, "endpoint_type": etype, "mutation": label, "request": req,
               "stage": obs["stage"], "redirect": obs["redirect"], "page": obs["page"], "direct": obs["direct"]}
        if dyn:
            rec["registration"] = dyn["rec"]
        if extra:
            rec["extra"] = dict(extra)
            rec["result_type"] = obs.get("result_type")
            ctx.count("smuggled:" + {1: "one name", 2: "two names"}.get(len(extra), "three or more names"))
            for n_ in extra:
                ctx.count("smuggled-name:" + n_)
        ctx.case_seen(rec, True)
        ctx.count("endpoint:" + str(obs["stage"]))
        ctx.count("mode:%s" % mode)
        native = app == "native"
        if uri == "":
            uri = None              # Message drops empty values: the request carries no redirect_uri
        if uri is not None:
            allowed, reasons = oracle_match(uri, regs, native)
            target = uri
        else:
            # no redirect_uri in the request: only a single registered URI may be used
            allowed, reasons = (len(regs) == 1 and etype == "oauth2"), ["no redirect_uri in the request"]
            target = reg_exact(regs[0]) if len(regs) == 1 else None
        sent = obs["redirect"] is not None or obs["page"] is not None
        # (c) a failing redirect_uri yields a direct error, never a redirect
        if not allowed:
            for k in ("careless_redirect", "careless_body"):
                if obs.get(k):
                    ctx.violation("error-not-direct", "after the error for redirect_uri %r a host that continues gets %s=%r"
                                  % (uri, k, obs[k][:300]), rec)
            if sent:
                ctx.violation(sig_of(reasons), "authorization endpoint (%s, %s) sends the user agent to %r for redirect_uri %r although %s; registered %r"
                              % (name, etype, (obs["redirect"] or obs["page"])[:300], uri, ",".join(reasons), [reg_exact(r) for r in regs]), rec)
        if sent:
            n0 = len(ctx.violations)
            oracle_delivery(ctx, obs, req, rec, target if target is not None else (obs["return_uri"] or ""))
            if extra:
                # the request is a valid one: whatever else it carries, the answer goes to its registered redirect URI
                for v in ctx.violations[n0:]:
                    if v["sig"] == "target-changed":
                        v["sig"] = "smuggled-return-uri"
                        v["what"] = "request parameters %r steer the response: %s" % (sorted(extra), v["what"])
        # ---- model cases
        if obs["stage"] in ("parse-exc", "parse-err") or obs["parsed_redirect_uri"] is not None:
            if obs["stage"] == "parse-exc":
                code, u = 2, ""
            elif obs["stage"] == "parse-err":
                code, u = 1, ""
            else:
                code, u = 0, obs["parsed_redirect_uri"]
            skip = (uri is None and etype == "oidc")      # the OIDC request class itself requires redirect_uri
            if not skip and dyn:
                # registration and decision in ONE model case: the stored pairs are the model's own
                self.rdcases.append(("(%s, %s, %s, (%s, %s))" % (dyn["coq"], coq_bool(etype == "oidc"),
                                                               coq_opt(uri, coq_str, "pystr"), coq_n(code), coq_str(u)), rec))
            elif not skip:
                self.dcases.append(("(%s, %s, %s, %s, (%s, %s))" % (coq_regs(regs), coq_bool(native), coq_bool(etype == "oidc"),
                                                                  coq_opt(uri, coq_str, "pystr"), coq_n(code), coq_str(u)), rec))
        if obs["redirect"] is not None and obs.get("final_args") is not None and obs["return_uri"] is not None:
            u = UP.urlsplit(obs["redirect"])
            frag = bool(obs["fragment_enc"])
            if not frag and obs["return_type"]:
                from idpyoidc.server.endpoint import fragment_encoding
                frag = fragment_encoding(obs["return_type"])
            try:
                fa, red = shorten(obs["final_args"], obs["redirect"], UP.quote_plus)
                loc = target if (extra and target is not None) else obs["return_uri"]
                self.urlcases.append(("(%s, %s, %s, %s)" % (coq_str(loc), coq_args(fa), coq_bool(frag), coq_str(red)), rec))
            except ValueError:
                ctx.unmodelled += 1
        if obs["page"] is not None and obs.get("issued") is not None:
            try:
                ia, pg = shorten(obs["issued"], obs["page"], lambda x: x)
                loc = target if (extra and target is not None) else (obs["return_uri"] or target)
                self.formcases.append(("(%s, %s, %s)" % (coq_str(loc), coq_args(ia), coq_str(pg)), rec))
            except ValueError:
                ctx.unmodelled += 1
        return obs

    def groups(self):
        ctx = self.ctx
        g = self.ud.flush()
        imp = ["Lib.Base", "Lib.PyStr", "Model.Uri"]
        imp2 = ["Lib.Base", "Lib.PyStr", "Lib.Urlenc", "Lib.Html", "Model.Delivery"]
        g += [
            {"imports": imp, "type": "vcase", "chk": "chk_verify", "cases": self.vcases, "label": "verify", "diag": "diag_verify"},
            {"imports": imp, "type": "dcase", "chk": "chk_decide", "cases": self.dcases, "label": "decide", "diag": "diag_decide"},
            {"imports": imp2, "type": "pystr * list (pystr * fval) * bool * pystr", "chk": "chk_deliver_url", "cases": self.urlcases,
             "shard": 100, "label": "url", "diag": "diag_deliver_url"},
            {"imports": imp2, "type": "pystr * list (pystr * fval) * pystr", "chk": "chk_deliver_form", "cases": self.formcases,
             "shard": 40, "label": "form", "diag": "diag_deliver_form"},
        ]
        return g

    def count_unmodelled(self):
        """how many verify_uri cases fall outside the modelled fragment (evaluated by the model itself)"""
        ctx = self.ctx
        imp = ["Lib.Base", "Lib.PyStr", "Model.Uri"]
        from concurrent.futures import ThreadPoolExecutor
        shards = [self.vcases[i:i + 400] for i in range(0, len(self.vcases), 400)]

        def cnt(job):
            k, sh = job
            return ctx.coq_eval("C06_vmodelled_%03d" % k, imp,
                                "Definition cases : list vcase := [\n%s\n].\nEval vm_compute in (length (filter (fun c => negb (verify_is_modelled c)) cases)).\n"
                                % ";\n".join(t for t, _ in sh))
        with ThreadPoolExecutor(max_workers=E.NCPU) as ex:
            for rc, out, vals in ex.map(cnt, list(enumerate(shards))):
                try:
                    ctx.unmodelled += int(re.sub(r"[^0-9]", "", vals[-1].split(":")[0]))
                except Exception:
                    ctx.notes.append("could not count unmodelled verify cases: %s" % out[-200:])

    def flush(self, extra=()):
        check_groups(self.ctx, self.groups() + list(extra))
        self.count_unmodelled()


# ------------------------------------------------------------------ several requests in flight at one endpoint object
FLIGHT_CLIENTS = ["client_1", "client_2", "client_3"]
EV_SHORT = {"parse": "P", "process": "X", "auth": "A", "part2": "Z", "respond": "R", "rereg": "G", "load": "L", "kill": "K"}
EV_COQ = {"parse": "EvParse", "process": "EvProcess", "auth": "EvAuth", "part2": "EvPart2", "respond": "EvRespond"}
FLIGHT_CONFIGS = ["web-plain", "web-query", "web-multi", "web-userinfo", "web-str", "web-str-query", "web-loop", "web-deep",
                  "native-v4", "native-v4-noport", "native-v6", "native-name", "native-https"]


def reg_of_config(name):
    """the registration a named configuration stands for, as a record {"name", "app", "regs"}"""
    c = [c for c in CONFIGS if c[0] == name][0]
    return {"name": c[0], "app": c[1], "regs": c[2]}


def completion_sig(reasons):
    """oracle keys of the completion stage (the SECOND judgement of the redirect URI, when the response is built)"""
    if any(r in reasons for r in ("ctl", "fragment", "malformed")):
        return "resumed-malformed-uri-redirect"
    if reasons == ["empty-params"]:
        return sig_of(reasons)          # the matcher's recorded near-miss (same root cause at either judgement)
    return "completion-unregistered-target"


NEW_R = R("https", "client.example.com", "/new-cb")


def rereg_variants(reg, used):
    """registrations a client may have moved to while a request carrying (a form of) its URI `used` is in flight:
    controls that still cover it, and changes that do not (de-registered, replaced, component-wise moved, other
    application type, nothing registered)"""
    app, regs = reg["app"], reg["regs"]
    others = [r for r in regs if r is not used]

    def moved(**kw):
        return others + [dict(copy.deepcopy(used), **kw)]
    out = [("same", app, regs), ("added", app, regs + [NEW_R]), ("reordered", app, list(reversed(regs)) + [NEW_R]),
           ("dropped", app, others or [NEW_R]), ("replaced", app, [NEW_R]), ("none", app, []),
           ("path-moved", app, moved(path=used["path"] + "/v2")),
           ("path-parent", app, moved(path=used["path"].rsplit("/", 1)[0] or "/")),
           ("host-moved", app, moved(host="new.example.com")),
           ("host-sub", app, moved(host="app." + used["host"]) if not used["host"].startswith("[") and not used["host"][:1].isdigit() else moved(host="localhost")),
           ("port-moved", app, moved(port="8444" if used["port"] != "8444" else "8445")),
           ("port-dropped" if used["port"] else "port-added", app, moved(port=None if used["port"] else "8443")),
           ("scheme-moved", app, moved(scheme={"http": "https", "https": "http"}.get(used["scheme"], "https"))),
           ("userinfo-moved", app, moved(userinfo=None if used["userinfo"] else "svc")),
           ("app-type-flip", "native" if app == "web" else "web", regs)]
    if used["form"] == "pair":
        out.append(("query-moved", app, moved(qd={"foo": ["baz"]} if used["qd"] else {"v": ["2"]})))
        if used["qd"]:
            out.append(("query-dropped", app, moved(qd={})))
    else:
        out.append(("query-moved", app, moved(rawq="x=2", qd={"x": ["2"]})))
    return [{"name": reg["name"] + "/" + n, "app": a, "regs": copy.deepcopy(rs)} for n, a, rs in out]


def sched_text(sched):
    return " ".join("%s%d" % (EV_SHORT[k], i) for k, i in sched)


def life(spec, i):
    """the calls a host makes for one request, in their order"""
    mid = [("process", i)] if spec["cont"] == "process" else [("auth", i), ("part2", i)]
    return [("load", i) if spec.get("stored") else ("parse", i)] + mid + [("respond", i)]


def sched_parse_all(specs, parse_order, proc_order, respond_late):
    """all requests parsed first, then processed (or continued after login) in proc_order"""
    sched = [("parse", i) for i in parse_order]
    for i in proc_order:
        sched += life(specs[i], i)[1:-1]
        if not respond_late:
            sched.append(("respond", i))
    if respond_late:
        sched += [("respond", i) for i in proc_order]
    return sched


def sched_split_login(specs, parse_order, auth_order, proc_order, respond_late):
    """all parsed, then everybody who is shown a login page is (auth_order), then they come back in proc_order"""
    sched = [("parse", i) for i in parse_order]
    sched += [("auth", i) for i in auth_order if specs[i]["cont"] != "process"]
    for i in proc_order:
        sched.append(("process", i) if specs[i]["cont"] == "process" else ("part2", i))
        if not respond_late:
            sched.append(("respond", i))
    if respond_late:
        sched += [("respond", i) for i in proc_order]
    return sched


def sched_random(rng, specs):
    """a random merge of the requests' lives (each keeps its own order)"""
    lives = [life(sp, i) for i, sp in enumerate(specs)]
    sched = []
    while any(lives):
        l = rng.choice([l for l in lives if l])
        sched.append(l.pop(0))
    return sched


def permutations(l):
    import itertools
    return [list(p) for p in itertools.permutations(l)]


class Flights:
    """Several authorization requests (different clients, redirect URIs, response modes) whose calls are
    interleaved on ONE endpoint object, the way a host application serves concurrent user agents or continues
    a flow after a login page.  Oracle (property text): every response goes to the redirect URI of ITS OWN
    request, a URI registered for ITS OWN client, and carries its own state / code."""

    def __init__(self, run_):
        self.run_, self.ctx = run_, run_.ctx
        self.cases = []
        self.ccases = []
        self.shared = Shared()
        self.saved = {}

    # ---- clients
    def prepare(self, op):
        import srv
        if id(op) in self.saved:
            return
        self.saved[id(op)] = (op, {c: copy.deepcopy(op.context.cdb.get(c)) for c in FLIGHT_CLIENTS})
        for cid in FLIGHT_CLIENTS:
            if cid not in op.context.cdb:
                op.context.cdb[cid] = srv.client_record(cid)
                op.server.keyjar.add_symmetric(cid, op.context.cdb[cid]["client_secret"])

    def restore(self):
        for op, saved in self.saved.values():
            for cid, rec in saved.items():
                if rec is None:
                    op.context.cdb.pop(cid, None)
                else:
                    op.context.cdb[cid] = rec
        self.saved = {}

    # ---- one request of a flight
    def spec(self, rng, etype, i, cid, cfg, uri="exact", rtype=None, mode="random", cont=None, state=None):
        name, app, regs = cfg
        if uri == "exact":
            label, uri = "exact", reg_exact(rng.choice(regs))
        elif uri == "mutant":
            label, uri = rng.choice(mutants_single(rng.choice(regs)))
        elif uri is None:
            label = "no-redirect-uri"
        else:
            label = "given"
        if rtype is None:
            rtype = rng.choice(RTYPES_OIDC if etype == "oidc" else RTYPES_OAUTH)
        if mode == "random":
            mode = rng.choice(MODES)
        if cont is None:
            cont = rng.choice(["process", "process", "process", "setup_auth", "create_session"])
        if state is None:
            state = "s%d-%s" % (i, hostile(rng)) if rng.random() < 0.5 else "s%d" % i
        req = {"client_id": cid, "response_type": rtype, "scope": "openid" if etype == "oidc" else "profile",
               "state": state, "nonce": "n%d" % i}
        if uri is not None:
            req["redirect_uri"] = uri
        if mode:
            req["response_mode"] = mode
        try:
            state.encode("utf-8")
        except UnicodeEncodeError:
            req["state"] = "s%d" % i
        return {"cid": cid, "config": name, "mutation": label, "request": req, "cont": cont}

    # ---- the host application
    def host(self, op, specs, sched, reregs=()):
        """run the calls of `sched` on op.ep; returns (answers in the order they are handed out, per-request notes).
        ("rereg", k): the registration of client reregs[k]["cid"] becomes reregs[k]["reg"] (a registration dict
        {"name", "app", "regs"}, or {"gone": True}: the client is deleted).  ("load", i): the host takes request i from
        where it stored it (url-encoded, as example/flask_op/views.py keeps it in the login form) instead of parsing it."""
        from idpyoidc.message.oauth2 import ResponseMessage
        ep = op.ep
        hi = {"headers": {}}
        slots, answers, notes = {}, [], {}
        Op.current = op
        now = {sp["cid"]: reg_of_config(sp["config"]) for sp in specs}      # the registration in force, per client
        gone = {}
        iframe = any(sp.get("stale_login") for sp in specs)
        if iframe:
            # session management is on: authz_part2 looks at the authentication event once more and builds
            # 'No such session' / 'Authentication has timed out' errors itself
            op.context.provider_info["check_session_iframe"] = "https://example.com/check_session_iframe"
        try:
            return self._host(op, ep, hi, specs, sched, reregs, slots, answers, notes, now, gone)
        finally:
            if iframe:
                op.context.provider_info.pop("check_session_iframe", None)
            Op.current = None
            for cid, rec_ in gone.items():
                op.context.cdb[cid] = rec_

    def _host(self, op, ep, hi, specs, sched, reregs, slots, answers, notes, now, gone):
        from idpyoidc.message.oauth2 import ResponseMessage
        for kind, i in sched:
            if kind == "rereg":
                rr = reregs[i]
                cid = rr["cid"]
                if rr["reg"].get("gone"):
                    if cid in op.context.cdb:
                        gone[cid] = op.context.cdb.pop(cid)
                else:
                    if cid in gone:
                        op.context.cdb[cid] = gone.pop(cid)
                    op.configure((rr["reg"]["name"], rr["reg"]["app"], rr["reg"]["regs"]), cid)
                now[cid] = rr["reg"]
                continue
            sp = specs[i]
            sl = slots.get(i)
            if kind in ("process", "part2") and sl is not None and sl["stage"] == ("parsed" if kind == "process" else "authed"):
                notes.setdefault(i, {})["reg_done"] = now[sp["cid"]]
            if kind == "load":
                slots.pop(i, None)
                try:
                    p = ep.request_cls().from_urlencoded(UP.urlencode(sp["request"]))
                except Exception as e:
                    answers.append({"i": i, "kind": "other", "what": "%s at load: %s" % (type(e).__name__, str(e)[:200])})
                    continue
                slots[i] = {"stage": "parsed", "p": p}
                notes[i] = {"parsed_redirect_uri": p.get("redirect_uri"), "stored": True}
                continue
            if kind == "parse":
                notes.setdefault(i, {})["reg_parse"] = now[sp["cid"]]
                slots.pop(i, None)
                try:
                    p = ep.parse_request(dict(sp["request"]), http_info=hi)
                except Exception as e:
                    answers.append({"i": i, "kind": "raised", "exc": type(e).__name__})
                    continue
                if isinstance(p, ResponseMessage) and "error" in p:
                    answers.append({"i": i, "kind": "direct", "error": p.to_dict()})
                    continue
                slots[i] = {"stage": "parsed", "p": p}
                notes[i] = dict(notes.get(i, {}), parsed_redirect_uri=p.get("redirect_uri"))
                continue
            if sl is None:
                continue
            p = sl["p"]
            try:
                if kind == "process" and sl["stage"] == "parsed":
                    op.issued = None
                    sl["args"] = ep.process_request(p, http_info=hi)
                    sl["issued"], sl["stage"] = op.issued, "answer"
                elif kind == "auth" and sl["stage"] == "parsed":
                    cinfo = op.context.cdb[sp["cid"]]
                    if sp["cont"] == "setup_auth":
                        # the login page was shown; the host comes back with the parsed request it kept
                        info = ep.setup_auth(p, p["redirect_uri"], cinfo, cookie=None)
                        sl["sid"] = info["session_id"]
                    else:
                        # example/flask_op/views.py verify(): the request travels through the login form
                        # url-encoded, the session is created directly
                        from idpyoidc.time_util import utc_time_sans_frac
                        picked = ep.pick_authn_method(p, p["redirect_uri"])
                        p2 = type(p)().from_urlencoded(p.to_urlencoded())
                        sl["sid"] = ep.create_session(p2, "diana", picked["acr"], utc_time_sans_frac(), picked["method"])
                        sl["p"] = p2
                        if sp.get("stale_login"):
                            # time passes at the login page: the authentication is no longer valid when the flow is completed
                            ev = op.context.session_manager.get_authentication_event(sl["sid"])
                            ev["valid_until"] = utc_time_sans_frac() - 1
                            if op.context.session_manager.get_authentication_event(sl["sid"]).is_valid() is False:
                                notes.setdefault(i, {})["failed"] = True
                    sl["stage"] = "authed"
                elif kind == "kill" and sl["stage"] == "authed":
                    # the session the user just logged in to ends (logout elsewhere, administrative removal) before
                    # the flow is completed: completion fails for a reason that has nothing to do with the redirect URI
                    m = op.context.session_manager
                    m.delete(list(m.decrypt_session_id(sl["sid"])))
                    notes.setdefault(i, {})["failed"] = True
                elif kind == "part2" and sl["stage"] == "authed":
                    op.issued = None
                    sl["args"] = ep.authz_part2(request=p, session_id=sl["sid"])
                    sl["issued"], sl["stage"] = op.issued, "answer"
                elif kind == "respond" and sl["stage"] == "answer":
                    args = sl["args"]
                    slots.pop(i)
                    a = {"i": i, "kind": "other", "what": None}
                    if hasattr(args, "get"):
                        a["return_uri"] = args.get("return_uri")
                    if "redirect_location" in args or "http_response" in args or "response_args" not in args and "response_msg" not in args:
                        a["what"] = sorted(args.keys()) if hasattr(args, "keys") else str(type(args))
                        answers.append(a)
                        continue
                    ra = args.get("response_args")
                    a.update(return_uri=args.get("return_uri"), final_args=list(ra.items()) if ra is not None else None,
                             issued=sl.get("issued"))
                    try:
                        info = ep.do_response(request=p, **args)
                    except Exception as e:
                        # nothing is handed to the user agent
                        a["what"] = "%s at do_response: %s" % (type(e).__name__, str(e)[:200])
                        answers.append(a)
                        continue
                    placement = info.get("response_placement", ep.response_placement)
                    if placement == "url":
                        a.update(kind="redirect", text=info["response"])
                    else:
                        a.update(kind="page", text=info["response"])
                    answers.append(a)
            except Exception as e:
                slots.pop(i, None)
                answers.append({"i": i, "kind": "other", "what": "%s at %s: %s" % (type(e).__name__, kind, str(e)[:200])})
        return answers, notes

    # ---- the oracle
    def own_target(self, sp, etype, reg=None):
        """reg: the registration to judge by (default: the one the flight started with)"""
        reg = reg or reg_of_config(sp["config"])
        if reg.get("gone"):
            return sp["request"].get("redirect_uri") or None, False, ["client-gone"], []
        name, app, regs = reg["name"], reg["app"], reg["regs"]
        uri = sp["request"].get("redirect_uri")
        if uri == "":
            uri = None
        if uri is not None:
            allowed, reasons = oracle_match(uri, regs, app == "native")
            return uri, allowed, reasons, regs
        allowed = len(regs) == 1 and etype == "oauth2"
        return (reg_exact(regs[0]) if len(regs) == 1 else None), allowed, ["no redirect_uri in the request"], regs

    def oracle(self, op, etype, specs, sched, a, rec, notes=None):
        ctx = self.ctx
        i = a["i"]
        sp = specs[i]
        req = sp["request"]
        note = (notes or {}).get(i, {})
        # the registration in force when the response was built (process_request / authz_part2)
        done = note.get("reg_done")
        own, allowed, reasons, regs = self.own_target(sp, etype, done)
        if done is not None and not req.get("redirect_uri") and note.get("parsed_redirect_uri") and not done.get("gone") \
                and not note.get("stored"):
            # no redirect_uri in the request: parse_request chose the single URI registered THEN; it is judged like a
            # requested one against the registration in force at completion
            own = note["parsed_redirect_uri"]
            allowed, reasons = oracle_match(own, done["regs"], done["app"] == "native")
        completion = bool(rec.get("completion"))
        where = "request %d (%s, redirect_uri %r, state %r) in schedule [%s]" % (i, sp["cid"], req.get("redirect_uri"), req.get("state"), sched_text(sched))
        if completion:
            where += "; registered when the response was built: %s" % ("client deleted" if (done or {}).get("gone") else [reg_exact(r) for r in regs])
        if a["kind"] not in ("redirect", "page"):
            if completion and done is not None and not allowed and a.get("return_uri"):
                # nothing was handed out by do_response, but the result names a place to send the user agent to
                ctx.violation(completion_sig(reasons), "the result of %s for %s names return_uri %r although %s"
                              % ("authz_part2" if sp["cont"] != "process" else "process_request", where, a["return_uri"], ",".join(reasons)), rec)
            return
        text = a["text"]
        if a["kind"] == "page":
            fr = FormReader()
            fr.feed(text)
            fr.close()
            actual = fr.forms[0].get("action") if fr.forms else None
        else:
            actual = text
        if not allowed:
            ctx.violation(completion_sig(reasons) if completion else sig_of(reasons),
                          "authorization endpoint sends the user agent to %r for %s although %s; registered %r"
                          % ((actual or "")[:300], where, ",".join(reasons), [reg_exact(r) for r in regs]), rec)
            return
        # (1) the target is the redirect URI of the request being answered
        if a["kind"] == "page":
            ok = actual == own
        else:
            # own scheme / authority / path, own query parameters first, then nothing but what was issued
            u, r = UP.urlsplit(actual), UP.urlsplit(own)
            own_q = UP.parse_qsl(r.query, keep_blank_values=True)
            got_q = UP.parse_qsl(u.query, keep_blank_values=True)
            sent_q = expect_pairs(a.get("final_args") or [])
            ok = (actual.startswith(own) and (u.scheme, u.netloc, u.path) == (r.scheme, r.netloc, r.path)
                  and got_q[:len(own_q)] == own_q and got_q[len(own_q):] in ([], sent_q))
        if not ok:
            others = []
            for j, other in enumerate(specs):
                o = self.own_target(other, etype)[0]
                if j != i and o and actual is not None and o != own and (actual == o or actual.startswith(o)):
                    others.append("request %d of %s (%r)" % (j, other["cid"], o))
            # is the place it went to at least registered for the client of this request?
            base = (actual or "").split("#", 1)[0]
            cand = [base, base.split("?", 1)[0]] + [o for o in (self.own_target(x, etype)[0] for x in specs) if o and (actual or "").startswith(o)]
            registered_here = any(oracle_match(c, regs, (done or reg_of_config(sp["config"])).get("app") == "native")[0] for c in cand)
            ctx.violation("cross-request-target" if others else "target-changed",
                          "the response for %s is sent to %r%s, not to the redirect URI of its own request %r%s"
                          % (where, (actual or "")[:300], " = the target of " + ", ".join(others) if others else "", own,
                             "" if registered_here else " (not registered for %s)" % sp["cid"]), rec)
            return
        # (2) it delivers exactly what was issued for this request, state included
        obs = {"redirect": text if a["kind"] == "redirect" else None, "page": text if a["kind"] == "page" else None,
               "final_args": a.get("final_args"), "issued": a.get("issued"), "return_uri": a.get("return_uri")}
        n0 = len(ctx.violations)
        oracle_delivery(ctx, obs, req, rec, own)
        for v in ctx.violations[n0:]:
            v["what"] = "%s: %s" % (where, v["what"])
        # (3) what is delivered was issued to the client of this request, for this request
        issued = dict(expect_pairs((a.get("issued") if a["kind"] == "page" else a.get("final_args")) or []))
        if "client_id" in issued and issued["client_id"] != sp["cid"]:
            ctx.violation("response-of-other-client", "the response for %s names client_id %r" % (where, issued["client_id"]), rec)
        if "code" in issued:
            try:
                si = op.context.session_manager.get_session_info_by_token(issued["code"], handler_key="authorization_code", grant=True)
                owner, st = si["client_id"], si["grant"].authorization_request.get("state")
            except Exception as e:
                owner, st = "unknown (%s)" % type(e).__name__, req.get("state")
            if owner != sp["cid"] or st != req.get("state"):
                ctx.violation("code-of-other-request", "the code delivered for %s was issued to client %r for the request with state %r"
                              % (where, owner, st), rec)

    # ---- one flight
    def fly(self, etype, specs, sched, family, reregs=()):
        ctx = self.ctx
        op = self.run_.ops[etype]
        self.prepare(op)
        for sp in specs:
            op.configure([c for c in CONFIGS if c[0] == sp["config"]][0], sp["cid"])
        reregs = [dict(r) for r in reregs]
        answers, notes = self.host(op, specs, sched, reregs)
        rec = {"kind": "flight", "endpoint_type": etype, "family": family, "specs": specs, "schedule": [list(e) for e in sched],
               "schedule_text": sched_text(sched),
               "answers": [{"i": a["i"], "kind": a["kind"], "out": (a.get("text") or a.get("what") or a.get("exc") or "")[:400]} for a in answers]}
        completion = bool(reregs) or any(sp.get("stored") or sp.get("stale_login") for sp in specs) or any(k == "kill" for k, _ in sched)
        if completion:
            rec["reregs"] = reregs
            rec["completion"] = True
        ctx.case_seen(rec, True)
        ctx.count("flight:%s:k=%d" % (family, len(specs)))
        for a in answers:
            ctx.count(("completion-answer:" if completion else "flight-answer:") + a["kind"])
            if a["kind"] in ("redirect", "page"):
                ctx.count("flight-cont:" + specs[a["i"]]["cont"])
            self.oracle(op, etype, specs, sched, a, rec, notes)
        # a request that was parsed successfully, processed and responded to must have been answered
        for i, sp in enumerate(specs):
            evs = [k for k, j in sched if j == i and k not in ("rereg",)]
            if "respond" in evs and not [a for a in answers if a["i"] == i]:
                ctx.violation("flight-no-answer", "request %d gets no answer in schedule [%s]" % (i, sched_text(sched)), rec)
        if completion:
            self.completion_cases(etype, specs, sched, answers, notes, rec)
            return answers
        # ---- model case: (requests with what was issued for them, schedule, answers)
        by_i = {}
        for a in answers:
            by_i.setdefault(a["i"], a)
        reqs_c, obs_c = [], {}
        try:
            for i, sp in enumerate(specs):
                cfg = [c for c in CONFIGS if c[0] == sp["config"]][0]
                req = sp["request"]
                uri = req.get("redirect_uri") or None
                a = by_i.get(i)
                form = req.get("response_mode") == "form_post"
                frag = req["response_type"] != "code"
                items = []
                if a is not None and a["kind"] == "redirect":
                    items, text = shorten(a.get("final_args") or [], a["text"], UP.quote_plus)
                    obs_c[i] = "(ARedirect %s)" % coq_str(text)
                elif a is not None and a["kind"] == "page":
                    items, text = shorten(a.get("issued") or [], a["text"], lambda x: x)
                    obs_c[i] = "(APage %s)" % coq_str(text)
                elif a is not None:
                    obs_c[i] = {"direct": "ADirect", "raised": "ARaised"}.get(a["kind"], "AOther")
                    items = a.get("final_args") or []
                if uri is None and etype == "oidc":
                    raise ValueError("the OIDC request class itself requires redirect_uri")
                reqs_c.append("(mk_areq %s %s %s %s %s %s %s)" % (coq_regs(cfg[2]), coq_bool(cfg[1] == "native"), coq_bool(etype == "oidc"),
                                                                 coq_opt(uri, coq_str, "pystr"), coq_bool(form), coq_bool(frag), coq_args(items)))
            if len([a for a in answers]) != len(by_i):
                raise ValueError("a request answered twice")
            term = "(%s, %s, %s)" % (coq_list(reqs_c, "areq"),
                                     coq_list(["%s %d%%nat" % (EV_COQ[k], i) for k, i in sched], "event"),
                                     coq_list(["(%d%%nat, %s)" % (a["i"], obs_c[a["i"]]) for a in answers], "(nat * answer)"))
            self.cases.append((term, rec))
        except ValueError:
            ctx.unmodelled += 1
        return answers

    # ---- model cases of the completion stage: one per request, with the registration in force when it was parsed
    #      (inside the areq) and the one in force when its response was built
    def completion_cases(self, etype, specs, sched, answers, notes, rec):
        ctx = self.ctx
        by_i = {}
        for a in answers:
            if a["i"] in by_i:
                ctx.unmodelled += 1
                return
            by_i[a["i"]] = a
        for i, sp in enumerate(specs):
            a = by_i.get(i)
            note = notes.get(i, {})
            if a is None:
                continue
            req = sp["request"]
            g0 = note.get("reg_parse") or reg_of_config(sp["config"])
            g1 = note.get("reg_done") or g0
            uri = req.get("redirect_uri") or None
            if g0.get("gone") or (uri is None and etype == "oidc"):
                ctx.unmodelled += 1
                continue
            done = "reached" if note.get("reg_done") is not None else "not-reached"
            ctx.count("completion:%s:%s" % ("stored" if sp.get("stored") else "parsed", done))
            if note.get("failed") and note.get("reg_done") is not None:
                ctx.count("completion-failed:%s" % ("login-timed-out" if sp.get("stale_login") else "session-ended"))
            if note.get("reg_done") is not None:
                verdict = self.own_target(sp, etype, g1)[1] if uri is not None else None
                ctx.count("completion-uri:%s" % {True: "registered-now", False: "not-registered-now", None: "chosen-at-parse"}[verdict])
            try:
                if a["kind"] == "redirect":
                    items, text = shorten(a.get("final_args") or [], a["text"], UP.quote_plus)
                    obs = "(ARedirect %s)" % coq_str(text)
                elif a["kind"] == "page":
                    items, text = shorten(a.get("issued") or [], a["text"], lambda x: x)
                    obs = "(APage %s)" % coq_str(text)
                else:
                    obs = {"direct": "ADirect", "raised": "ARaised"}.get(a["kind"], "AOther")
                    items = a.get("final_args") or []
                md = {None: "MNone", "query": "MQuery", "fragment": "MFragment", "form_post": "MForm"}[req.get("response_mode")]
                sh = self.shared
                regs_sh = lambda regs: sh.share(coq_regs(regs), "list reg")
                args_c = coq_list(["(%s, %s)" % (sh.s(k), sh.share(coq_fval(v), "fval")) for k, v in items if v is not None], "(pystr * fval)")
                areq = "(mk_areq %s %s %s %s %s %s %s)" % (regs_sh(g0["regs"]), coq_bool(g0["app"] == "native"), coq_bool(etype == "oidc"),
                                                           coq_opt(uri, sh.s, "pystr"), coq_bool(md == "MForm"),
                                                           coq_bool(req["response_type"] != "code"), args_c)
                g1c = "Gone" if g1.get("gone") else "(Reg %s %s)" % (regs_sh(g1["regs"]), coq_bool(g1["app"] == "native"))
                term = "(%s, %s, %s, %s, %s, %s, %s)" % (coq_bool(bool(sp.get("stored"))), coq_bool(sp["cont"] == "process"),
                                                         coq_bool(bool(note.get("failed"))), g1c, md, areq, obs)
                self.ccases.append((term, dict(rec, request_number=i)))
            except (ValueError, KeyError):
                ctx.unmodelled += 1

    # ---- generation
    def pick_configs(self, rng, k, distinct=True):
        pool = [c for c in CONFIGS if c[0] in FLIGHT_CONFIGS]
        if distinct:
            return rng.sample(pool, k)
        return [rng.choice(pool) for _ in range(k)]

    def run(self, rng, quick):
        by = {c[0]: c for c in CONFIGS}
        # (1) enumerated: two clients, every ordering of parse and of process / login continuation, responses early or late,
        #     over the response modes of the first and the second request
        pairs = [("web-plain", "web-query"), ("web-multi", "native-v4"), ("web-str-query", "web-userinfo")]
        for etype in ("oidc", "oauth2"):
            for (ca, cb_) in pairs if not quick else pairs[:2]:
                for ma in (None, "fragment", "form_post"):
                    for cont in ("process", "setup_auth", "create_session"):
                        specs = [self.spec(rng, etype, 0, "client_1", by[ca], mode=ma, cont=cont),
                                 self.spec(rng, etype, 1, "client_2", by[cb_])]
                        for po in permutations([0, 1]):
                            for xo in permutations([0, 1]):
                                self.fly(etype, specs, sched_parse_all(specs, po, xo, rng.random() < 0.5), "parse-all")
                        if cont != "process":
                            # both users sit at the login page at the same time
                            specs = [specs[0], dict(specs[1], cont=rng.choice(["setup_auth", "create_session"]))]
                            for ao in permutations([0, 1]):
                                for xo in permutations([0, 1]):
                                    self.fly(etype, specs, sched_split_login(specs, rng.choice(permutations([0, 1])), ao, xo,
                                                                             rng.random() < 0.5), "split-login")
        # (2) three clients: every processing order after every parse order
        n3 = 1 if quick else 6
        for etype in ("oidc", "oauth2"):
            for _ in range(n3):
                cfgs = self.pick_configs(rng, 3)
                specs = [self.spec(rng, etype, i, FLIGHT_CLIENTS[i], cfgs[i]) for i in range(3)]
                for po in permutations([0, 1, 2]):
                    for xo in permutations([0, 1, 2]):
                        self.fly(etype, specs, sched_parse_all(specs, po, xo, rng.random() < 0.5), "parse-all")
        # (3) the same client twice with two of its registered URIs; one request refused while others are in flight
        for etype in ("oidc", "oauth2"):
            r1, r2 = by["web-multi"][2]
            specs = [self.spec(rng, etype, 0, "client_1", by["web-multi"], uri=reg_exact(r1)),
                     self.spec(rng, etype, 1, "client_1", by["web-multi"], uri=reg_exact(r2)),
                     self.spec(rng, etype, 2, "client_2", by["web-deep"], uri="mutant")]
            for xo in permutations([0, 1, 2]):
                self.fly(etype, specs, sched_parse_all(specs, [0, 1, 2], xo, False), "same-client")
                self.fly(etype, specs, sched_parse_all(specs, [1, 2, 0], xo, True), "same-client")
        # (4) random flights: 2-4 requests, mostly valid URIs, arbitrary interleavings of all calls
        n = 60 if quick else 2500
        for _ in range(n):
            etype = rng.choice(["oidc", "oauth2"])
            k = rng.choice([2, 2, 3, 3, 4])
            cfgs = self.pick_configs(rng, k, distinct=rng.random() < 0.8) if k <= 3 else None
            specs = []
            for i in range(k):
                cid = FLIGHT_CLIENTS[i % 3]
                cfg = cfgs[i] if cfgs else None
                if cfg is None:
                    # a fourth request shares the client (and so the configuration) of the first
                    cfg = by[specs[0]["config"]] if i == 3 else self.pick_configs(rng, 1)[0]
                x = rng.random()
                uri = "exact" if x < 0.8 else ("mutant" if x < 0.95 or etype == "oidc" else None)
                if uri is None and len(cfg[2]) != 1:
                    uri = "exact"
                specs.append(self.spec(rng, etype, i, cid, cfg, uri=uri))
            x = rng.random()
            if x < 0.45:
                po, xo, ao = list(range(k)), list(range(k)), list(range(k))
                rng.shuffle(po)
                rng.shuffle(xo)
                rng.shuffle(ao)
                if rng.random() < 0.6:
                    self.fly(etype, specs, sched_parse_all(specs, po, xo, rng.random() < 0.5), "parse-all")
                else:
                    self.fly(etype, specs, sched_split_login(specs, po, ao, xo, rng.random() < 0.5), "split-login")
            elif x < 0.9:
                self.fly(etype, specs, sched_random(rng, specs), "random-merge")
            else:
                self.fly(etype, specs, [e for i in range(k) for e in life(specs[i], i)], "sequential")
        self.run_completion(rng, quick)
        self.restore()
        return self.groups()

    # ---- the second judgement of the redirect URI: the registration in force when the response is built
    def accepted_forms(self, reg, r):
        """forms of the registered URI r that the property lets through under `reg` (the exact one first)"""
        out = [("exact", reg_exact(r))]
        for label, u in mutants_single(r):
            if label != "exact" and u != out[0][1] and oracle_match(u, reg["regs"], reg["app"] == "native")[0]:
                out.append((label, u))
        return out

    def completion_flight(self, rng, etype, sp, reg2, place, kill=False, family="re-registered", other=None):
        """one request whose client moves to registration reg2 (None: no change) while it is in flight.
        place: where the change happens - 'before-parse', 'after-parse' (before process / login) or 'after-login'"""
        specs = [sp] + ([other] if other else [])
        reregs = [{"cid": sp["cid"], "reg": reg2}] if reg2 is not None else []
        first = ("load", 0) if sp.get("stored") else ("parse", 0)
        g = [("rereg", 0)] if reregs else []
        if sp["cont"] == "process":
            sched = (g if place == "before-parse" else []) + [first] + (g if place != "before-parse" else []) + [("process", 0), ("respond", 0)]
        else:
            k = [("kill", 0)] if kill else []
            if place == "before-parse":
                sched = g + [first, ("auth", 0)] + k + [("part2", 0), ("respond", 0)]
            elif place == "after-parse":
                sched = [first] + g + [("auth", 0)] + k + [("part2", 0), ("respond", 0)]
            else:
                sched = [first, ("auth", 0)] + (k + g if rng.random() < 0.5 else g + k) + [("part2", 0), ("respond", 0)]
        if other:
            # the other client's request is in flight too; its calls fall between those of the first
            ol = life(other, 1)
            merged = []
            for ev in sched:
                while ol and rng.random() < 0.4:
                    merged.append(ol.pop(0))
                merged.append(ev)
            sched = merged + ol
        return self.fly(etype, specs, sched, family, reregs=reregs)

    def run_completion(self, rng, quick):
        import logging
        logging.disable(logging.CRITICAL)      # the provider logs every refusal; keep the check's output readable
        try:
            self._run_completion(rng, quick)
        finally:
            logging.disable(logging.NOTSET)

    def _run_completion(self, rng, quick):
        by = {c[0]: c for c in CONFIGS}
        conts = ["process", "setup_auth", "create_session"]
        n = 0
        # (a) the client's registration changes between parse_request and the completion of the request
        for etype in ("oidc", "oauth2"):
            rts = RTYPES_OIDC if etype == "oidc" else RTYPES_OAUTH
            for cname in FLIGHT_CONFIGS:
                reg = reg_of_config(cname)
                for used in reg["regs"]:
                    forms = self.accepted_forms(reg, used)
                    for reg2 in rereg_variants(reg, used):
                        n += 1
                        if quick and n % 2 and not reg2["name"].endswith(("/dropped", "/replaced", "/same")):
                            continue
                        label, uri = forms[0] if rng.random() < 0.6 else rng.choice(forms)
                        cont = conts[n % 3]
                        sp = self.spec(rng, etype, 0, "client_1", by[cname], uri=uri, rtype=rts[n % len(rts)], mode=MODES[(n // 3) % 4], cont=cont)
                        sp["mutation"] = label
                        if cont == "create_session" and n % 4 == 3:
                            sp["stale_login"] = True        # session management on, the login no longer valid at completion
                        place = ("after-parse", "after-login", "before-parse", "after-parse")[(n // 2) % 4] if cont != "process" else \
                                ("after-parse", "after-parse", "before-parse")[(n // 2) % 3]
                        other = None
                        if n % 5 == 0:
                            other = self.spec(rng, etype, 1, "client_2", by[rng.choice(FLIGHT_CONFIGS)])
                        self.completion_flight(rng, etype, sp, reg2, place, kill=(cont != "process" and n % 4 == 1), other=other)
                # no redirect_uri in the request: the single registered URI chosen at parse time, then moved
                if etype == "oauth2" and len(reg["regs"]) == 1:
                    for reg2 in rng.sample(rereg_variants(reg, reg["regs"][0]), 4):
                        sp = self.spec(rng, etype, 0, "client_1", by[cname], uri=None, cont=rng.choice(conts))
                        self.completion_flight(rng, etype, sp, reg2, "after-parse", family="re-registered-default-uri")
            # the client is deleted / the URI is dropped and registered again while the user is at the login page
            for cname in ("web-plain", "web-multi", "native-v4"):
                reg = reg_of_config(cname)
                used = reg["regs"][0]
                for mode in MODES:
                    sp = self.spec(rng, etype, 0, "client_1", by[cname], uri=reg_exact(used), mode=mode, cont=rng.choice(conts[1:]))
                    self.completion_flight(rng, etype, sp, {"gone": True, "name": cname + "/client-deleted"}, "after-login", family="client-deleted")
                    sp = self.spec(rng, etype, 0, "client_1", by[cname], uri=reg_exact(used), mode=mode, cont="process")
                    self.completion_flight(rng, etype, sp, {"gone": True, "name": cname + "/client-deleted"}, "after-parse", family="client-deleted")
                    sp = self.spec(rng, etype, 0, "client_1", by[cname], uri=reg_exact(used), mode=mode, cont=rng.choice(conts[1:]))
                    dropped = [v for v in rereg_variants(reg, used) if v["name"].endswith("/replaced")][0]
                    self.fly(etype, [sp], [("parse", 0), ("rereg", 0), ("auth", 0), ("rereg", 1), ("part2", 0), ("respond", 0)], "dropped-and-back",
                             reregs=[{"cid": "client_1", "reg": dropped}, {"cid": "client_1", "reg": reg}])
        # (b) the flow is resumed after login from a STORED request (create_session + authz_part2, never parsed by the
        #     endpoint): every single-fault form of the registered URIs, never-registered ones, formerly registered ones
        never = [("never-registered", EVIL), ("never-registered-path", "https://client.example.com/other"),
                 ("never-registered-fragment", EVIL + "#"), ("never-registered-host-only", "https://evil.example.org")]
        for etype in ("oidc", "oauth2"):
            rts = RTYPES_OIDC if etype == "oidc" else RTYPES_OAUTH
            for cname in ("web-plain", "web-query", "web-multi", "web-str-query", "native-v4", "native-v6", "web-userinfo"):
                reg = reg_of_config(cname)
                pool = []
                for r in reg["regs"]:
                    pool += mutants_single(r)
                pool += never
                for label, uri in pool:
                    n += 1
                    keep = label in ("exact", "host-other", "path-add", "tail-hash", "tail-frag", "host-tab", "lead-space", "q-add", "scheme-swap") \
                        or label.startswith("never")
                    if quick and not keep and rng.random() < 0.88:
                        continue
                    try:
                        uri.encode("utf-8")
                    except UnicodeEncodeError:
                        continue
                    sp = self.spec(rng, etype, 0, "client_1", by[cname], uri=uri, rtype=rts[n % len(rts)], mode=MODES[(n // 2) % 4], cont="create_session")
                    sp.update(stored=True, mutation=label)
                    if n % 3 == 1:
                        sp["stale_login"] = True
                    self.completion_flight(rng, etype, sp, None, "after-parse", kill=(n % 3 == 0), family="stored")
                # stored while registered, de-registered before the user comes back
                for used in reg["regs"]:
                    for reg2 in rereg_variants(reg, used):
                        n += 1
                        if quick and n % 3:
                            continue
                        sp = self.spec(rng, etype, 0, "client_1", by[cname], uri=reg_exact(used), rtype=rts[n % len(rts)], mode=MODES[(n // 2) % 4], cont="create_session")
                        sp.update(stored=True, mutation="exact")
                        self.completion_flight(rng, etype, sp, reg2, ("before-parse", "after-parse", "after-login")[n % 3], kill=(n % 4 == 0), family="stored-re-registered")
        # (c) random: stored or parsed, multi-fault URIs, a second client's request in flight, any registration change
        for _ in range(60 if quick else 3000):
            etype = rng.choice(["oidc", "oauth2"])
            cname = rng.choice(FLIGHT_CONFIGS)
            reg = reg_of_config(cname)
            used = rng.choice(reg["regs"])
            stored = rng.random() < 0.5
            if stored and rng.random() < 0.5:
                label, uri = mutant_multi(rng, used) if rng.random() < 0.5 else rng.choice(mutants_single(used))
            else:
                label, uri = rng.choice(self.accepted_forms(reg, used))
            try:
                uri.encode("utf-8")
            except UnicodeEncodeError:
                continue
            cont = "create_session" if stored else rng.choice(conts)
            sp = self.spec(rng, etype, 0, "client_1", by[cname], uri=uri, cont=cont)
            sp["mutation"] = label
            if stored:
                sp["stored"] = True
            if cont == "create_session" and rng.random() < 0.25:
                sp["stale_login"] = True
            reg2 = rng.choice(rereg_variants(reg, used)) if rng.random() < 0.8 else None
            other = self.spec(rng, etype, 1, "client_2", by[rng.choice(FLIGHT_CONFIGS)]) if rng.random() < 0.4 else None
            self.completion_flight(rng, etype, sp, reg2, rng.choice(["before-parse", "after-parse", "after-login"]),
                                   kill=(cont != "process" and rng.random() < 0.3), family="random-completion", other=other)

    def groups(self):
        imp = ["Lib.Base", "Lib.PyStr", "Lib.Urlenc", "Lib.Html", "Model.Uri", "Model.Delivery", "Model.Flight"]
        return [{"imports": imp, "type": "fcase", "chk": "chk_flight", "cases": self.cases, "shard": 24, "label": "flight", "diag": "diag_flight"},
                {"imports": imp, "type": "ccase", "chk": "chk_complete", "cases": self.ccases, "shard": 80, "label": "complete",
                 "diag": "diag_complete", "shared": self.shared}]


# ------------------------------------------------------------------ end-session endpoint
class Logout:
    CONFIGS = [
        ("plo-test-style", lambda b: [b, ""], {"base": "https://client.example.com/logout_cb", "qd": None}),
        ("plo-tuple", lambda b: [(b, None)], {"base": "https://client.example.com/logout_cb", "qd": None}),
        ("plo-tuple-query", lambda b: [(b, {"x": ["1"]})], {"base": "https://client.example.com/logout_cb", "qd": {"x": ["1"]}}),
        # the shape dynamic registration stores (split_uri): [base, query dict] — not a list of (base, query) pairs
        ("plo-registration-shape", lambda b: [b, {"x": ["1"], "y": ["2"]}],
         {"base": "https://client.example.com/logout_cb", "qd": {"x": ["1"], "y": ["2"]}}),
    ]

    def __init__(self, ctx, op):
        self.ctx, self.op = ctx, op
        self.sess = op.server.get_endpoint("session")
        self.cases = []
        self.vcases = []

    def login(self):
        op = self.op
        op.configure(CONFIGS[0])
        req = {"client_id": "client_1", "response_type": "id_token", "scope": "openid", "state": "s", "nonce": "n",
               "redirect_uri": "https://client.example.com/cb"}
        p = op.ep.parse_request(req, http_info={"headers": {}})
        res = op.ep.process_request(p, http_info={"headers": {}})
        info = op.context.cookie_handler.parse_cookie("oidc_op", res["cookie"])
        sid = json.loads(info[0]["value"])["sid"]
        cookie = op.context.new_cookie(name=op.context.cookie_handler.name["session"], sid=sid)
        return res["response_args"]["id_token"], cookie

    def case(self, cfgi, label, uri, state, rng, other_client=False):
        ctx, op = self.ctx, self.op
        name, mk, r = self.CONFIGS[cfgi]
        op.context.cdb["client_1"]["post_logout_redirect_uri"] = mk(r["base"])
        op.context.cdb["client_2"]["post_logout_redirect_uri"] = [("https://client2.example.org/bye", None)]
        idt, cookie = self.login()
        req = {"id_token_hint": idt, "post_logout_redirect_uri": uri}
        if state is not None:
            req["state"] = state
        if other_client:
            req["client_id"] = "client_2"
        rec = {"kind": "end_session", "config": name, "mutation": label, "uri": uri, "state": state, "other_client": other_client}
        loc = None
        try:
            try:
                p = self.sess.parse_request(dict(req), http_info={"cookie": [cookie]})
            except KeyError as e:
                # Session.parse_request cannot handle an unauthenticated request (KeyError 'token' after
                # client_authentication returned method 'none'); do what it does next: build and verify the request
                if e.args != ("token",):
                    raise
                from idpyoidc.message.oidc.session import EndSessionRequest
                p = EndSessionRequest(**req)
                p.verify(keyjar=self.sess.upstream_get("attribute", "keyjar"), sigalg="")
            res = self.sess.process_request(p, http_info={"cookie": [cookie]})
            loc = res.get("redirect_location")
            rec["out"] = "redirect"
        except Exception as e:
            rec["out"] = type(e).__name__
        ctx.case_seen(rec, True)
        ctx.count("logout:" + rec["out"])
        # the matcher's decision at this endpoint, for the model (registered entries exactly as stored)
        stored = mk(r["base"])
        if (not other_client and rec["out"] in ("redirect", "URIError", "RedirectURIError", "ValueError")
                and (all(isinstance(e, (str, tuple)) for e in stored)
                     or (len(stored) == 2 and isinstance(stored[0], str) and isinstance(stored[1], dict)))):
            if len(stored) == 2 and isinstance(stored[0], str) and isinstance(stored[1], dict):
                stored = [tuple(stored)]          # the single (base, query) pair of dynamic registration
            regs_c = coq_list([("(RStr %s)" % coq_str(e)) if isinstance(e, str) else
                               "(RPair %s %s)" % (coq_str(e[0]), "None" if e[1] is None else "(Some %s)" % coq_qd(e[1]))
                               for e in stored], "reg")
            obs = "(Ok tt)" if rec["out"] == "redirect" else EXC[rec["out"]]
            self.vcases.append(("(%s, false, true, %s, %s)" % (regs_c, coq_str(uri), obs), rec))
        regs = [R("https", "client.example.com", "/logout_cb", qd=r["qd"])]
        allowed, reasons = oracle_match(uri, regs, False)
        if other_client:
            allowed, reasons = False, ["client_id parameter of another client"]
        if loc is None:
            return
        # where will the user agent finally be sent?  the signed logout JWT carries it
        q = dict(UP.parse_qsl(UP.urlsplit(loc).query))
        payload = self.sess.unpack_signed_jwt(q["sjwt"])
        final = payload["redirect_uri"]
        rec["final"] = final
        if not loc.startswith("https://example.com/verify_logout?"):
            ctx.violation("logout-target-changed", "end_session redirect_location %r is not the logout verification page" % loc, rec)
        if not allowed:
            sig = "logout-client-id-override" if other_client else sig_of(reasons)
            if name == "plo-registration-shape" and reasons == ["mismatch"]:
                sig = "logout-registration-shape"
            ctx.violation(sig, "end_session accepts post_logout_redirect_uri %r (%s) and will send the user agent to %r"
                          % (uri, ",".join(reasons), final), rec)
            return
        if not final.startswith(uri):
            ctx.violation("logout-target-changed", "post-logout target %r does not start with %r" % (final, uri), rec)
            return
        u, b = UP.urlsplit(final), UP.urlsplit(uri)
        want = UP.parse_qsl(b.query, keep_blank_values=True) + ([("state", state)] if state is not None else [])
        if (u.scheme, u.netloc, u.path, u.fragment) != (b.scheme, b.netloc, b.path, "") or UP.parse_qsl(u.query, keep_blank_values=True) != want:
            ctx.violation("logout-state-placement", "post-logout target %r delivers %r, expected the registered parameters plus state: %r"
                          % (final, UP.parse_qsl(u.query, keep_blank_values=True), want), rec)
        self.cases.append(("(%s, %s, %s)" % (coq_str(uri), coq_opt(state, coq_str, "pystr"), coq_str(final)), rec))

    def run(self, rng, n_random):
        r0 = R("https", "client.example.com", "/logout_cb")
        for cfgi, (name, mk, r) in enumerate(self.CONFIGS):
            rr = R("https", "client.example.com", "/logout_cb", qd=r["qd"])
            for label, uri in mutants_single(rr):
                if label in ("exact", "tail-hash", "tail-enc-hash", "q-blank", "host-tab", "lead-space", "host-other", "q-add",
                             "scheme-swap", "path-add", "ui-host-confusion", "port-add-443", "qmark-enc", "q-drop-all", "host-suffix"):
                    self.case(cfgi, label, uri, rng.choice([None, "st", hostile(rng)]), rng)
            self.case(cfgi, "exact", reg_exact(rr), "a&b=c#d", rng)
        self.case(1, "other-client", "https://client2.example.org/bye", "st", rng, other_client=True)
        for _ in range(n_random):
            cfgi = rng.randrange(len(self.CONFIGS))
            rr = R("https", "client.example.com", "/logout_cb", qd=self.CONFIGS[cfgi][2]["qd"])
            label, uri = mutant_multi(rng, rr) if rng.random() < 0.5 else rng.choice(mutants_single(rr))
            self.case(cfgi, label, uri, rng.choice([None, hostile(rng)]), rng)
        return [{"imports": ["Lib.Base", "Lib.PyStr", "Lib.Urlenc", "Lib.Html", "Model.Delivery"],
                 "type": "pystr * option pystr * pystr", "chk": "chk_logout_target", "cases": self.cases, "label": "logout"},
                {"imports": ["Lib.Base", "Lib.PyStr", "Model.Uri"], "type": "vcase", "chk": "chk_verify", "cases": self.vcases,
                 "label": "logoutverify", "diag": "diag_verify"}]


# ------------------------------------------------------------------ registration -> stored form -> authorization
# The configurations above put (base, query) pairs straight into the client database.  Here the client REGISTERS: a LIST
# of redirect URIs goes through the real registration endpoint (Registration.verify_redirect_uris), and what the
# authorization endpoint then serves is compared with the list the client sent.
NATIVE_POOL = [
    ("custom", R("com.example.app", "cb", "", sep="://")),
    ("custom-path", R("org.example.other", "done", "/x", sep="://")),
    ("custom-noauth", R("com.example.app", "", "/cb", sep=":")),
    ("custom-q", R("com.example.app", "cb", "", sep="://", qd={"x": ["1"]})),
    ("loop-q", R("http", "127.0.0.1", "/cb", port="8080", qd={"tenant": ["alpha"]})),
    ("loop-q2", R("http", "127.0.0.1", "/cb", port="8080", qd={"tenant": ["beta"]})),        # same base, other query
    ("loop", R("http", "127.0.0.1", "/cb", port="8080")),                                     # same base, no query
    ("loop-noport-q", R("http", "127.0.0.1", "/back", qd={"k": ["v"], "a": ["1", "2"]})),
    ("loop-noport", R("http", "localhost", "/done")),
    ("name-port-q", R("http", "localhost", "/cb", port="8000", qd={"x": ["1"]})),
]
NATIVE_CORE = [["custom", "loop-q", "loop", "loop-q2"], ["custom-q", "loop-q", "loop-noport", "custom"]]
WEB_POOL = [
    ("https-q", R("https", "client.example.com", "/cb", qd={"foo": ["bar"]})),
    ("https-q2", R("https", "client.example.com", "/cb", qd={"foo": ["baz"]})),                 # same base, other query
    ("https", R("https", "client.example.com", "/cb")),                                        # same base, no query
    ("https-port-q", R("https", "client.example.com", "/app/cb2", port="8443", qd={"a": ["1", "2"], "b": ["x"]})),
    ("https-userinfo", R("https", "client.example.com", "/cb", userinfo="user")),
    ("https-other-q", R("https", "rp.example.org", "/cb", qd={"foo": ["bar"]})),
    ("loop-q", R("http", "127.0.0.1", "/cb", port="8080", qd={"tenant": ["alpha"]})),           # code flow only
    ("loop", R("http", "localhost", "/cb", port="8080")),
]
WEB_CORE = [["https-q", "https-q2", "https", "loop-q"]]
# URIs no registration may contain (the whole request is refused whatever else it lists)
REG_BAD = {"native": [("bad-https", "https://client.example.com/cb"), ("bad-fragment", "http://127.0.0.1:8080/cb#f"),
                      ("bad-v6", "http://[::1]/cb"), ("bad-host", "http://client.example.com/cb")],
           "web": [("bad-custom", "com.example.app://cb"), ("bad-fragment", "https://client.example.com/cb?foo=bar#f"),
                   ("bad-ftp", "ftp://client.example.com/cb")]}
# what is asked of the authorization endpoint for every registered URI (component mutations of CM)
REG_NEAR_CORE = ["exact", "q-drop-all", "q-change-value", "q-add", "port-inc", "port-drop", "path-add", "scheme-swap"]
REG_NEAR = ["exact", "q-drop-all", "q-change-value", "q-add", "q-drop-first", "q-reverse", "port-inc", "port-drop", "port-add-443",
            "host-localhost", "host-upper", "scheme-swap", "path-add", "path-slash", "ui-drop", "ui-add", "tail-hash"]
# response_types of the registration request: only ["code"] exactly lets a web client register http URIs.  The provider the
# clients register at states all seven response types (the registration endpoint narrows the requested list to the
# provider's before it looks at the redirect URIs: with a code-only provider every web client may register http)
REG_RT_SUPPORTED = ["code", "id_token", "id_token token", "code id_token", "code token", "code id_token token", "token"]
REG_RTS = {"native": [["code"], ["code", "id_token"], ["code id_token", "code"], ["id_token token"]],
           "web-any": [["code"]], "web-https": [["code"], ["code", "id_token"], ["code id_token token"], ["id_token", "code"]]}
# near misses the property text still counts as the registered URI (nothing but the ignored loopback port of a native client, or
# the order of the query parameters, differs): these must be SERVED
REG_SAME = ("exact", "port-inc", "port-drop", "port-add-443", "q-reverse")


def is_custom(r):
    return r["scheme"] not in ("http", "https")


def own_stored(r):
    """the registered URI as ITS OWN base and query (from the component table, nothing parsed)"""
    return (reg_base(r), copy.deepcopy(r["qd"]) or {})


def reg_lists(rng, quick):
    """(family, application type, [(kind, R)]) - every single URI, every ordered pair, every order of every 3- and
    4-subset of the core kinds (custom scheme / loopback or https with query / same base without query / same base with
    another query), random longer mixtures"""
    out = []
    for app, pool, core in (("native", NATIVE_POOL, NATIVE_CORE), ("web", WEB_POOL, WEB_CORE)):
        byk = dict(pool)
        for kr in pool:
            out.append(("single", app, [kr]))
        for a in pool:
            for b in pool:
                if a[0] != b[0]:
                    out.append(("pair", app, [a, b]))
        for co in core:
            for n in (3, 4):
                for sub in subsets(co, n):
                    for perm in permutations(list(sub)):
                        out.append(("core-%d" % n, app, [(k, byk[k]) for k in perm]))
        for _ in range(12 if quick else 600):
            out.append(("mixture", app, rng.sample(pool, rng.randint(3, 4))))
    return out


def subsets(l, n):
    if n == 0:
        return [[]]
    if len(l) < n:
        return []
    return [[l[0]] + t for t in subsets(l[1:], n - 1)] + subsets(l[1:], n)


class RegFlow:
    """registration of a list of redirect URIs at the real registration endpoint, then the authorization endpoint's
    decisions for every registered URI and its near misses"""

    def __init__(self, run_):
        self.run_, self.ctx = run_, run_.ctx
        import logging
        logging.getLogger("idpyoidc.server.oidc.registration").setLevel(logging.CRITICAL)     # refusals are logged as errors
        logging.getLogger("idpyoidc.server.configure").setLevel(logging.ERROR)
        self.op = Op(True, extra={"capabilities": {"response_types_supported": list(REG_RT_SUPPORTED)}})
        self.reg_ep = self.op.server.get_endpoint("registration")
        self.sh = Shared()
        self.rcases, self.rvcases = [], []
        self.single = {}          # (application type, code flow only, uri) -> what a registration of this URI ALONE stores
        self.n_reg = 0

    # ---- the real registration endpoint
    def register(self, app, rts, uris):
        body = {"application_type": app, "redirect_uris": list(uris), "response_types": list(rts),
                "grant_types": ["authorization_code", "implicit"], "client_name": "c06 registration"}
        ob = {"out": None, "cid": None, "echo": None, "stored": None}
        try:
            p = self.reg_ep.parse_request(json.dumps(body))
            if hasattr(p, "keys") and "error" in p and "redirect_uris" not in p:
                ob["out"] = "refused:" + str(p.get("error"))
                return ob
            res = self.reg_ep.process_request(p)
        except Exception as e:
            ob["out"] = "exc:" + type(e).__name__
            return ob
        if "response_args" not in res:
            ob["out"] = "refused:" + str(res.get("error"))
            return ob
        ra = res["response_args"]
        ob.update(out="ok", cid=ra["client_id"], echo=list(ra.get("redirect_uris") or []),
                  stored=copy.deepcopy(self.op.context.cdb[ra["client_id"]].get("redirect_uris")),
                  rtypes=list(self.op.context.cdb[ra["client_id"]].get("response_types") or ["code"]))
        return ob

    @staticmethod
    def stored_ok_shape(st):
        return (isinstance(st, list) and all(
            isinstance(e, (tuple, list)) and len(e) == 2 and isinstance(e[0], str) and isinstance(e[1], dict)
            and all(isinstance(k, str) and isinstance(v, list) and all(isinstance(x, str) for x in v) for k, v in e[1].items())
            for e in st))

    def coq_obs(self, ob):
        if ob["out"] == "ok":
            if not self.stored_ok_shape(ob["stored"]):
                return "Unmodelled"
            st = coq_list(["(%s, %s)" % (self.sh.s(b), coq_qd(q)) for b, q in ob["stored"]], "(pystr * qdict)")
            return "(Ok (%s, %s))" % (st, coq_list([self.sh.s(u) for u in ob["echo"]], "pystr"))
        if ob["out"] == "refused:invalid_redirect_uri":
            return "(Err (Refused 0))"
        if ob["out"] == "refused:invalid_configuration_request":
            return "(Err ValueError)"
        return "(Err TypeError)"

    # ---- oracle on the registration itself
    def oracle_registration(self, app, code_only, items, ob, rec):
        ctx = self.ctx
        uris = [reg_exact(r) for _, r in items]
        echo, stored = ob["echo"], ob["stored"]
        if len(echo) != len(uris):
            ctx.violation("registration-echo-mismatch", "the client sent %r, the registration response names %r" % (uris, echo), rec)
        else:
            for i, ((kind, r), e) in enumerate(zip(items, echo)):
                m = RFC3986.match(e)
                sch, auth, path, query, frag = m.groups()
                want = RFC3986.match(reg_base(r)).groups()[:3]
                if (sch, auth, path) != want or frag is not None or conventional_query(query) != (r["qd"] or {}):
                    ctx.violation("registration-echo-mismatch", "redirect URI %d sent as %r is named %r in the registration response "
                                  "(list sent: %r)" % (i, uris[i], e, uris), rec)
        if not self.stored_ok_shape(stored) or len(stored) != len(uris):
            ctx.violation("registration-stored-not-own", "the client sent %r, stored is %r" % (uris, stored), rec)
            return
        for i, (kind, r) in enumerate(items):
            got = (stored[i][0], stored[i][1])
            if is_custom(r) and r["qd"] and got == (uris[i], {}):
                # the behaviour repaired by d77dc7b, under its own key
                ctx.violation("custom-scheme-query-forgotten", "custom-scheme redirect URI %r is stored unsplit, as %r: its query "
                              "component is not part of what is matched" % (uris[i], got), rec)
            elif got != own_stored(r):
                ctx.violation("registration-stored-not-own", "redirect URI %d of %r, %r, is stored as %r instead of its own base "
                              "and query %r" % (i, uris, uris[i], got, own_stored(r)), rec)
            alone = self.single.get((app, code_only, uris[i]))
            if alone is not None and got != alone:
                ctx.violation("registration-neighbour-influence", "redirect URI %r is stored as %r when registered alone and as %r "
                              "at position %d of %r" % (uris[i], alone, got, i, uris), rec)

    # ---- one registration and everything asked afterwards
    def flow(self, rng, family, app, rts, items, bad=None, full=True):
        """bad: (position, kind, uri) - a URI no registration may contain is put into the list"""
        ctx, run_ = self.ctx, self.run_
        uris = [reg_exact(r) for _, r in items]
        sent = list(uris)
        if bad is not None:
            sent.insert(bad[0], bad[2])
        code_only = [rt for rt in rts if rt in REG_RT_SUPPORTED] == ["code"]
        ob = self.register(app, rts, sent)
        self.n_reg += 1
        reginfo = {"application_type": app, "response_types": list(rts), "redirect_uris": sent, "family": family,
                   "items": [[k, r] for k, r in items], "bad": list(bad) if bad else None}
        rec = dict(reginfo, kind="registration", out=ob["out"], echo=ob["echo"], stored=ob["stored"])
        ctx.case_seen(rec, True)
        ctx.count("registration:%s" % ob["out"])
        ctx.count("registration-list:%s %s x%d" % (app, family, len(sent)))
        l_c = self.sh.share(coq_list([self.sh.s(u) for u in sent], "pystr"), "list pystr")
        model = "%s, %s, %s" % (self.sh.s(app), coq_bool(code_only), l_c)
        self.rcases.append(("(%s, %s)" % (model, self.coq_obs(ob)), rec))
        for u in sent:
            run_.ud.add(u)
        if ob["out"] != "ok":
            if bad is None:
                ctx.count("registration-refused-without-bad-uri")
            return ob
        if bad is not None:
            # C19's domain (what may be registered); here only: the model agrees, and nothing more is asked
            return ob
        if len(items) == 1 and self.stored_ok_shape(ob["stored"]) and len(ob["stored"]) == 1:
            self.single.setdefault((app, code_only, uris[0]), (ob["stored"][0][0], ob["stored"][0][1]))
        self.oracle_registration(app, code_only, items, ob, rec)
        # ---- the authorization endpoint's answers: OIDC provider = the registered client itself; OAuth2 provider = a
        # client whose record carries the pairs the registration stored
        regs = [r for _, r in items]
        native = app == "native"
        o2 = run_.ops["oauth2"]
        ci = o2.context.cdb["client_1"]
        ci["redirect_uris"] = copy.deepcopy(ob["stored"])
        ci["application_type"] = app
        asked = {}
        for i, (kind, r) in enumerate(items):
            c = comps_of(r)
            for label in (REG_NEAR if full else REG_NEAR_CORE):
                try:
                    asked.setdefault(comps_str(CM[label](c)), "%s[%d]:%s" % (kind, i, label))
                except Exception:
                    pass
            # this URI's base with the query of each neighbour, and with a neighbour's query added to its own
            for j, (kind2, r2) in enumerate(items):
                if j != i and (r2["qd"] or None) != (r["qd"] or None):
                    c2 = copy.deepcopy(c)
                    c2["q"] = comps_of(r2)["q"]
                    asked.setdefault(comps_str(c2), "%s[%d]:q-of-neighbour-%d" % (kind, i, j))
                    if r["qd"] and r2["qd"]:
                        c3 = copy.deepcopy(c)
                        c3["q"] = _q(c) + _q(comps_of(r2))
                        asked.setdefault(comps_str(c3), "%s[%d]:q-plus-neighbour-%d" % (kind, i, j))
        cfg = ("registered:%s" % "+".join(k for k, _ in items), app, regs)
        for uri, label in asked.items():
            allowed, reasons = oracle_match(uri, regs, native)
            run_.ud.add(uri)
            mut = label.split(":", 1)[1]
            same = mut in REG_SAME
            sensitive = ":q-" in label or same
            key = mut in ("exact", "q-drop-all") or mut.startswith("q-of-neighbour")
            for etype, cid in (("oidc", ob["cid"]), ("oauth2", "client_1")):
                if etype == "oauth2" and not (key or full):
                    continue
                out = (self.op if etype == "oidc" else o2).verify(uri, cid=cid)
                vrec = {"kind": "registered-verify", "registration": reginfo, "endpoint_type": etype, "mutation": label, "uri": uri,
                        "out": out, "stored": ob["stored"]}
                ctx.case_seen(vrec, True)
                ctx.count("registered-verify:" + ("accepted" if out == "ok" else out))
                obs = "(Ok tt)" if out == "ok" else EXC.get(out, "(Err TypeError)")
                self.rvcases.append(("(%s, %s, %s, %s)" % (model, coq_bool(etype == "oidc"), self.sh.s(uri), obs), vrec))
                if out == "ok" and not allowed:
                    ctx.violation(sig_of(reasons), "after the registration of %r (%s) verify_uri (%s) accepts redirect_uri %r although %s; "
                                  "stored: %r" % (sent, app, etype, uri, ",".join(reasons), ob["stored"]), vrec)
                if out != "ok" and allowed and same:
                    ctx.violation("registered-uri-refused", "after the registration of %r (%s) verify_uri (%s) refuses the registered "
                                  "redirect_uri %r (%s); stored: %r" % (sent, app, etype, uri, out, ob["stored"]), vrec)
                # the whole endpoint: whatever is accepted, every query near miss, a sample of the rest
                if etype == "oidc":
                    go = (key and (full or mut == "exact" or rng.random() < 0.5)) or (out == "ok" and rng.random() < 0.35) \
                        or (sensitive and full) or rng.random() < 0.02
                else:
                    go = rng.random() < (0.2 if out == "ok" else 0.1 if key else 0.02)
                if go:
                    if etype == "oidc":
                        # verify_response_type reads the client's response_types_supported, which a registration never
                        # writes: a registered client is served the code flow only
                        dyn = {"cid": cid, "op": self.op, "rtypes": ["code"], "coq": model, "rec": reginfo}
                    else:
                        dyn = {"cid": cid, "rtypes": RTYPES_OAUTH, "coq": model, "rec": reginfo}
                    eobs = run_.endpoint_case(cfg, etype, label, uri, rng, dyn=dyn)
                    if eobs is not None and allowed and same and eobs["redirect"] is None and eobs["page"] is None \
                            and eobs["stage"] in ("parse-err", "parse-exc"):
                        ctx.violation("registered-uri-refused", "after the registration of %r (%s) the %s authorization endpoint answers "
                                      "the registered redirect_uri %r with a direct error %r"
                                      % (sent, app, etype, uri, eobs["direct"]), vrec)
        return ob

    def run(self, rng, quick):
        lists = reg_lists(rng, quick)
        # URIs alone first: what is stored for a URI in company is compared with what is stored for it alone
        lists.sort(key=lambda t: 0 if t[0] == "single" else 1)
        for k, (family, app, items) in enumerate(lists):
            http = any(r["scheme"] == "http" for _, r in items)
            rts_pool = REG_RTS["native"] if app == "native" else REG_RTS["web-any" if http else "web-https"]
            if family == "single":
                # alone under both readings of response_types (a web client's http URI only with the code flow)
                for rts in ([["code"]] if (app == "web" and http) else [["code"], rts_pool[1]]):
                    self.flow(rng, family, app, rts, items)
                continue
            rts = rts_pool[k % len(rts_pool)]
            self.flow(rng, family, app, rts, items, full=(not quick or k % 10 == 0))
        # refused registrations: a URI that may not be registered at every position of short lists
        for app, pool in (("native", NATIVE_POOL), ("web", WEB_POOL)):
            good = list(pool)
            for bk, bu in REG_BAD[app]:
                for n in (0, 1, 2):
                    items = rng.sample(good, n)
                    if app == "web" and any(r["scheme"] == "http" for _, r in items):
                        rts = ["code"]
                    else:
                        rts = rng.choice(REG_RTS["native" if app == "native" else "web-https"])
                    for pos in range(n + 1):
                        self.flow(rng, "with-" + bk, app, rts, items, bad=(pos, bk, bu))
        # a web client that is not restricted to the code flow may not register http at all
        self.flow(rng, "http-not-code-only", "web", ["code", "id_token"], [WEB_POOL[0], WEB_POOL[6]])
        self.ctx.notes.append("registration -> authorization: %d registrations through the real endpoint, %d matcher decisions, "
                              "%d endpoint decisions for registered clients" % (self.n_reg, len(self.rvcases), len(self.run_.rdcases)))

    def groups(self):
        imp = ["Lib.Base", "Lib.PyStr", "Model.Uri", "Model.RegFlow"]
        return [
            {"imports": imp, "type": "rcase", "chk": "chk_register", "cases": self.rcases, "label": "register",
             "diag": "diag_register", "shared": self.sh, "shard": 150},
            {"imports": imp, "type": "rvcase", "chk": "chk_reg_verify", "cases": self.rvcases, "label": "regverify",
             "diag": "diag_reg_verify", "shared": self.sh, "shard": 300},
            {"imports": imp, "type": "rdcase", "chk": "chk_reg_decide", "cases": self.run_.rdcases, "label": "regdecide",
             "diag": "diag_reg_decide", "shared": self.sh, "shard": 300},
        ]


# ------------------------------------------------------------------ html.escape differential
def html_cases(ctx, rng, n):
    import html
    cases = []
    for i in range(n):
        s = hostile(rng)
        cases.append(("(%s, %s)" % (coq_str(s), coq_str(html.escape(s))), {"html.escape": s}))
        ctx.case_seen({"html.escape": s}, True)
    return [{"imports": ["Lib.Base", "Lib.PyStr", "Lib.Html", "Model.Delivery"], "type": "pystr * pystr", "chk": "chk_html_escape",
             "cases": cases, "label": "htmlesc"}]


# ------------------------------------------------------------------ entry points
def run(ctx):
    rng = ctx.rng
    run_ = Run(ctx)
    quick = ctx.quick
    # 1. single-fault matrix on verify_uri for both endpoint types; accepted ones and a sample of the refused go through the endpoint
    budget_refused = 0
    for cfg in CONFIGS:
        name, app, regs = cfg
        for etype in ("oidc", "oauth2"):
            pool = []
            for r in regs:
                pool += mutants_single(r)
            if not regs:
                pool = mutants_single(R("https", "client.example.com", "/cb"))[:40]
            for label, uri in pool:
                out, allowed, reasons = run_.verify_case(cfg, etype, label, uri)
                if out == "ok":
                    run_.endpoint_case(cfg, etype, label, uri, rng)
                elif rng.random() < (0.12 if quick else 0.5):
                    run_.endpoint_case(cfg, etype, label, uri, rng)
            if etype == "oauth2":
                run_.endpoint_case(cfg, etype, "no-redirect-uri", None, rng)
            else:
                run_.endpoint_case(cfg, etype, "no-redirect-uri", None, rng)
    # 2. random multi-fault and the malformed stream
    n_multi = 500 if quick else 12000
    for i in range(n_multi):
        cfg = rng.choice([c for c in CONFIGS if c[2]])
        etype = rng.choice(["oidc", "oauth2"])
        if i % 5 == 4:
            label, uri = "random", random_string(rng)
        else:
            label, uri = mutant_multi(rng, rng.choice(cfg[2]))
        out, allowed, reasons = run_.verify_case(cfg, etype, label, uri)
        if out == "ok" or rng.random() < 0.05:
            run_.endpoint_case(cfg, etype, label, uri, rng)
    # 3. delivery: good redirect URIs x response types x modes x hostile state
    n_del = 260 if quick else 6000
    good = [c for c in CONFIGS if c[0] in ("web-plain", "web-query", "web-multi", "native-v4", "web-userinfo")]
    for etype in ("oidc", "oauth2"):
        for cfg in good[:3]:
            for rt in (RTYPES_OIDC if etype == "oidc" else RTYPES_OAUTH):
                for mode in MODES:
                    for r in cfg[2]:
                        run_.endpoint_case(cfg, etype, "exact", reg_exact(r), rng, rtype=rt, mode=mode, state=rng.choice(STATES_FIXED))
    for i in range(n_del):
        cfg = rng.choice(good)
        etype = rng.choice(["oidc", "oauth2"])
        run_.endpoint_case(cfg, etype, "exact", reg_exact(rng.choice(cfg[2])), rng)
    # 3b. valid requests that also carry names of the provider's own result dictionaries as parameters
    for k, extra in enumerate(smuggle_sets(rng, quick)):
        etype = ("oidc", "oauth2")[k % 2]
        cfg = good[k % 3]
        run_.endpoint_case(cfg, etype, "smuggled", reg_exact(rng.choice(cfg[2])), rng,
                           mode=MODES[(k // 2) % 4], state=rng.choice(["st", hostile(rng)]), extra=extra)
        if k % 7 == 0:
            run_.endpoint_case(cfg, "oidc", "smuggled", reg_exact(rng.choice(cfg[2])), rng, rtype="code", mode=None, state="st", extra=extra)
    # 4. several requests in flight at one endpoint object (interleaved calls, login continuation)
    fl = Flights(run_)
    extra = fl.run(rng, quick)
    # 5. end-session
    lo = Logout(ctx, run_.ops["oidc"])
    extra += lo.run(rng, 40 if quick else 1500)
    # 6. html.escape itself
    extra += html_cases(ctx, rng, 200 if quick else 5000)
    # 7. clients that REGISTER their redirect URIs (lists through the real registration endpoint), then authorization
    rf = RegFlow(run_)
    rf.run(rng, quick)
    extra += rf.groups()
    run_.flush(extra)
    sigs = {}
    for v in ctx.violations:
        sigs[v["sig"]] = sigs.get(v["sig"], 0) + 1
    ctx.notes.append("oracle signatures on this run: " + (", ".join("%s=%d" % kv for kv in sorted(sigs.items())) or "none"))


def replay(ctx, rp):
    case = rp.get("case") or {}
    if case.get("kind") == "verify_uri":
        cfg = [c for c in CONFIGS if c[0] == case["config"]][0]
        run_ = Run(ctx)
        run_.verify_case(cfg, case["endpoint_type"], case["mutation"], case["uri"])
        run_.endpoint_case(cfg, case["endpoint_type"], case["mutation"], case["uri"], ctx.rng)
        run_.flush()
        return
    if case.get("kind") in ("registration", "registered-verify") or case.get("registration"):
        # the recorded registration goes through the real endpoint again, followed by everything asked afterwards
        reg = case if case.get("kind") == "registration" else case["registration"]
        run_ = Run(ctx)
        rf = RegFlow(run_)
        items = [(k, r) for k, r in reg["items"]]
        print("replaying the registration of %r (%s, response_types %r)" % (reg["redirect_uris"], reg["application_type"], reg["response_types"]))
        if not reg.get("bad"):
            for kr in items:
                rf.flow(ctx.rng, "single", reg["application_type"], reg["response_types"], [kr])
        rf.flow(ctx.rng, reg.get("family", "replay"), reg["application_type"], reg["response_types"], items,
                bad=tuple(reg["bad"]) if reg.get("bad") else None)
        run_.flush(rf.groups())
        return
    if case.get("kind") == "endpoint":
        cfg = [c for c in CONFIGS if c[0] == case["config"]][0]
        req = case["request"]
        run_ = Run(ctx)
        run_.endpoint_case(cfg, case["endpoint_type"], case["mutation"], req.get("redirect_uri"), ctx.rng,
                           rtype=req["response_type"], mode=req.get("response_mode"), state=req.get("state"),
                           extra=case.get("extra"))
        run_.flush()
        return
    if case.get("kind") == "flight":
        run_ = Run(ctx)
        fl = Flights(run_)
        print("replaying schedule [%s] on the %s endpoint" % (sched_text([tuple(e) for e in case["schedule"]]), case["endpoint_type"]))
        fl.fly(case["endpoint_type"], case["specs"], [tuple(e) for e in case["schedule"]], case.get("family", "replay"),
               reregs=case.get("reregs") or ())
        fl.restore()
        check_groups(ctx, fl.groups())
        return
    if case.get("kind") == "end_session":
        run_ = Run(ctx)
        lo = Logout(ctx, run_.ops["oidc"])
        cfgi = [c[0] for c in Logout.CONFIGS].index(case["config"])
        lo.case(cfgi, case["mutation"], case["uri"], case.get("state"), ctx.rng, other_client=bool(case.get("other_client")))
        check_groups(ctx, [{"imports": ["Lib.Base", "Lib.PyStr", "Lib.Urlenc", "Lib.Html", "Model.Delivery"],
                            "type": "pystr * option pystr * pystr", "chk": "chk_logout_target", "cases": lo.cases, "label": "logout"},
                           {"imports": ["Lib.Base", "Lib.PyStr", "Model.Uri"], "type": "vcase", "chk": "chk_verify",
                            "cases": lo.vcases, "label": "logoutverify", "diag": "diag_verify"}])
        return
    ctx.notes.append("replay re-runs the generator with the recorded seed")
    ctx.rng.seed(rp.get("seed", ctx.seed))
    run(ctx)
