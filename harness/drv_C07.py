"""C07 driver — released user claims are bounded by what the token authorises."""
import base64
import copy
import json

import sess
import srv
from engine import coq_str, coq_list, coq_bool, coq_pyval, coq_opt

RULE = ("(a) unit correspondence: for generated configurations (base claims, always-add as list or dict, add_claims_by_scope, "
        "per-client add_claims by_scope/always, allowed_scopes, per-client scopes_to_claims) x scope lists x claims-request objects "
        "(null / essential / value / values) x the four release points x secondary identifier x 3 users, the real "
        "ClaimsInterface.get_claims_from_request and get_user_claims are compared with the model (restriction incl. order and specs, "
        "released claims); (b) end-to-end oracle: real flows on providers with those configurations; the attributes found in userinfo, "
        "ID Token, introspection and JWT access token must lie within the bound recomputed from configuration + token scopes + claims "
        "request; invalid / foreign-audience tokens release nothing; the same flow on a long-lived provider and on a fresh provider "
        "releases the same. A case is non-trivial when at least one user attribute is released.")
ASSUMPTIONS = ["the user database (users.json) is an arbitrary function user -> attributes", "JSON floats do not occur in the fixture data"]

POINTS = ["userinfo", "id_token", "introspection", "access_token"]
CLAIMS = ["name", "given_name", "family_name", "nickname", "email", "email_verified", "phone_number", "address", "birthdate", "sub", "nonexistent"]
PROVIDER_MAP = None
PROTOCOL = {"sub", "iss", "aud", "exp", "iat", "auth_time", "nonce", "acr", "amr", "azp", "at_hash", "c_hash", "sid", "jti", "scope",
            "client_id", "token_class", "active", "token_type", "username", "nbf", "s_hash", "cnf"}


def module_of(server, point):
    ctx = server.context
    if point == "userinfo":
        return server.get_endpoint("userinfo")
    if point == "introspection":
        return server.get_endpoint("introspection")
    return ctx.session_manager.token_handler[point]


def coq_spec(v):
    if v is None:
        return "None"
    items = []
    for k, x in v.items():
        if k == "essential":
            items.append("(SEssential %s)" % coq_pyval(x))
        elif k == "value":
            items.append("(SValue %s)" % coq_pyval(x))
        elif k == "values":
            items.append("(SValues %s)" % coq_list([coq_pyval(y) for y in x], "pyval"))
        else:
            items.append("(SOther %s)" % coq_str(k))
    return "(Some %s)" % coq_list(items, "spec_item")


def coq_restriction(d):
    return coq_list(["(%s, %s)" % (coq_str(k), coq_spec(v)) for k, v in d.items()], "(pystr * cspec)")


def coq_scope_map(m):
    return coq_list(["(%s, %s)" % (coq_str(k), coq_list([coq_str(c) for c in v], "pystr")) for k, v in m.items()], "(pystr * list pystr)")


def gen_spec(rng, user_vals, claim):
    r = rng.random()
    if r < 0.45:
        return None
    if r < 0.6:
        return {"essential": rng.random() < 0.5}
    val = user_vals.get(claim, "x")
    if isinstance(val, (dict, list)):
        val = "x"
    if r < 0.75:
        return {"value": val if rng.random() < 0.6 else "other"}
    if r < 0.9:
        return {"values": [val, "z"] if rng.random() < 0.6 else ["q", "z"]}
    return {"essential": True, "value": val if rng.random() < 0.5 else "other"}


def unit_cases(ctx, rng, n):
    from idpyoidc.server.scopes import SCOPE2CLAIMS
    server = srv.make_server(clients=("client_1",))
    cctx = server.context
    ci = cctx.claims_interface
    users = json.load(open(srv.USERS))
    cases = []
    for i in range(n):
        point = rng.choice(POINTS)
        sec = rng.choice(["", "", "", "userinfo", "id_token"])
        mod = module_of(server, point)
        saved = dict(mod.kwargs)
        uid = rng.choice(list(users.keys()))
        uvals = users[uid]
        try:
            base = {c: gen_spec(rng, uvals, c) for c in rng.sample(CLAIMS, rng.randint(0, 2))}
            always = rng.choice([None, [], rng.sample(CLAIMS, rng.randint(1, 2)), {c: gen_spec(rng, uvals, c) for c in rng.sample(CLAIMS, 2)}])
            by_scope = rng.random() < 0.6
            per_client = rng.random() < 0.5
            for k in ("base_claims", "always_add_claims", "add_claims_by_scope", "enable_claims_per_client"):
                mod.kwargs.pop(k, None)
            if base or rng.random() < 0.5:
                mod.kwargs["base_claims"] = base
            if always is not None:
                mod.kwargs["always_add_claims"] = always
            mod.kwargs["add_claims_by_scope"] = by_scope
            mod.kwargs["enable_claims_per_client"] = per_client
            crec = cctx.cdb["client_1"]
            for k in ("add_claims", "allowed_scopes", "scopes_to_claims"):
                crec.pop(k, None)
            c_by_scope = None
            c_always = {}
            if rng.random() < 0.6:
                c_by_scope = {p: rng.random() < 0.5 for p in rng.sample(POINTS, rng.randint(0, 3))}
                c_always = {p: rng.sample(CLAIMS, rng.randint(0, 2)) for p in rng.sample(POINTS, rng.randint(0, 3))}
                crec["add_claims"] = {"by_scope": c_by_scope, "always": c_always}
            allowed = None
            if rng.random() < 0.6:
                allowed = rng.sample(list(SCOPE2CLAIMS.keys()), rng.randint(1, 5))
                crec["allowed_scopes"] = allowed
            cmap = None
            if rng.random() < 0.25:
                cmap = {"email": ["email"], "profile": ["nickname", "birthdate"], "custom": ["address"]}
                crec["scopes_to_claims"] = cmap
            scopes = rng.sample(list(SCOPE2CLAIMS.keys()) + ["custom", "unknown"], rng.randint(0, 5))
            req = {c: gen_spec(rng, uvals, c) for c in rng.sample(CLAIMS, rng.randint(0, 3))}
            auth_req = {"client_id": "client_1", "scope": scopes}
            if req or rng.random() < 0.3:
                auth_req["claims"] = {point: req}
            restriction = ci.get_claims_from_request(auth_req, point, scopes=scopes or None, client_id="client_1", secondary_identifier=sec)
            released = ci.get_user_claims(uid, restriction, "client_1")
            rec = {"point": point, "secondary": sec, "scopes": scopes, "request_claims": req, "restriction": restriction,
                   "released": released, "module": {"base": base, "always": always, "by_scope": by_scope, "per_client": per_client},
                   "client": {"by_scope": c_by_scope, "always": c_always, "allowed": allowed, "scope_map": bool(cmap)}, "user": uid}
            ctx.case_seen(rec, bool(released))
            ctx.count("point:" + point)
            ctx.count("released:%d" % min(len(released), 3))
            if any(isinstance(v, float) for v in uvals.values()):
                ctx.unmodelled += 1
                continue
            # ---- oracle (from the property text): every released attribute is permitted by one of the four sources
            src = set(base) | set(req)
            if per_client:
                src |= set(c_always.get(point, [])) | (set(c_always.get(sec, [])) if sec else set())
            elif always:
                src |= set(always)
            the_map = cmap or SCOPE2CLAIMS
            for s in scopes:
                if s in (allowed if allowed is not None else list(SCOPE2CLAIMS.keys())):
                    src |= set(the_map.get(s, []))
            extra = set(released) - src
            if extra:
                ctx.violation("released-beyond-bound", "%s released %r outside the permitted sources %r" % (point, sorted(extra), sorted(src)), rec)
            for k, v in released.items():
                if v is None or uvals.get(k) != v:
                    ctx.violation("released-not-users-value", "released %s=%r, user has %r" % (k, v, uvals.get(k)), rec)
            # ---- model case
            always_t = "None" if always is None else ("(Some (AList %s))" % coq_list([coq_str(x) for x in always], "pystr") if isinstance(always, list)
                                                      else "(Some (ADict %s))" % coq_restriction(always))
            mod_t = "(mkModule %s %s %s %s)" % (coq_restriction(mod.kwargs.get("base_claims", {})), coq_bool(by_scope), always_t, coq_bool(per_client))
            cbs = "None" if c_by_scope is None else "(Some %s)" % coq_list(["(%s, %s)" % (coq_str(k), coq_bool(v)) for k, v in c_by_scope.items()], "(pystr * bool)")
            cal = coq_list(["(%s, %s)" % (coq_str(k), coq_list([coq_str(x) for x in v], "pystr")) for k, v in c_always.items()], "(pystr * list pystr)")
            cl_t = "(Some (mkClient %s %s %s %s))" % (cbs, cal, "None" if allowed is None else "(Some %s)" % coq_list([coq_str(x) for x in allowed], "pystr"),
                                                     "None" if cmap is None else "(Some %s)" % coq_scope_map(cmap))
            ui_t = coq_list(["(%s, %s)" % (coq_str(k), coq_pyval(v)) for k, v in uvals.items()], "(pystr * pyval)")
            term = "(%s, %s, %s, %s, %s, %s, %s, %s, %s, %s)" % (
                coq_scope_map(SCOPE2CLAIMS), mod_t, cl_t, coq_str(point), coq_str(sec), coq_list([coq_str(s) for s in scopes], "pystr"),
                coq_restriction(req), ui_t, coq_restriction(restriction),
                coq_list(["(%s, %s)" % (coq_str(k), coq_pyval(v)) for k, v in released.items()], "(pystr * pyval)"))
            cases.append((term, rec))
        finally:
            mod.kwargs.clear()
            mod.kwargs.update(saved)
    ctx.coq_check_cases(["Lib.Base", "Lib.PyStr", "Model.Claims"], "claims_case", "chk_claims", cases, shard=120, label="claims", diag="diag_claims")


def jwt_payload(tok):
    return json.loads(base64.urlsafe_b64decode(tok.split(".")[1] + "=="))


def e2e(ctx, rng, n):
    from idpyoidc.server.scopes import SCOPE2CLAIMS
    users = json.load(open(srv.USERS))
    for i in range(n):
        jwt = i % 2 == 0
        rs = sess.RealSession(oidc=True, jwt_access=jwt)
        try:
            # configuration of the release points (before any flow)
            cfg = {}
            for point in POINTS:
                mod = module_of(rs.server, point)
                by_scope = rng.random() < 0.6
                always = rng.sample(CLAIMS[:8], rng.randint(0, 2))
                mod.kwargs["add_claims_by_scope"] = by_scope
                mod.kwargs["always_add_claims"] = always
                mod.kwargs["enable_claims_per_client"] = False
                cfg[point] = (by_scope, always, dict(mod.kwargs.get("base_claims", {})))
            seen_first = {}
            for rep in range(2):
                for (u, c, scopes, req) in [("diana", "client_1", ["openid", "email", "profile"], {"nickname": None}),
                                            ("babs", "client_2", ["openid", "address", "phone", "profile"], {"email": {"essential": True}}),
                                            ("diana", "client_12", ["openid"], {})]:
                    claims_param = {"userinfo": req, "id_token": req} if req else None
                    extra = {"claims": claims_param} if claims_param else {}
                    o = rs.run(("authz", u, c, scopes, "code", extra))
                    if o[0] != "ok":
                        ctx.notes.append("e2e authz failed %r" % (o,))
                        continue
                    code = o[1][0]
                    rs.run(("tparse", c, ("tok", code), "same"))
                    p = rs.run(("proc", len(rs.parsed) - 1, None))
                    if p[0] != "ok":
                        continue
                    allowed = rs.ctx.cdb[c].get("allowed_scopes", list(SCOPE2CLAIMS.keys()))

                    def bound(point):
                        by_scope, always, base = cfg[point]
                        b = set(base) | set(always) | (set(req) if point in ("userinfo", "id_token") else set())
                        if by_scope:
                            for s in scopes:
                                if s in allowed:
                                    b |= set(SCOPE2CLAIMS.get(s, []))
                        return b
                    at = p[1]["access_token"]
                    views = {}
                    ui = rs.ep["userinfo"]
                    pr = ui.parse_request({}, http_info={"headers": {"authorization": "Bearer " + rs.tokens[at]}})
                    r = ui.process_request(pr)
                    views["userinfo"] = dict(r["response_args"])
                    views["id_token"] = jwt_payload(rs.tokens[p[1]["id_token"]])
                    ie = rs.ep["introspection"]
                    ir = ie.process_request(ie.parse_request(rs._token_req(c, {"token": rs.tokens[at]})))["response_args"]
                    views["introspection"] = dict(ir)
                    if jwt:
                        views["access_token"] = jwt_payload(rs.tokens[at])
                    rec = {"user": u, "client": c, "scopes": scopes, "claims_request": req, "config": {k: [v[0], v[1]] for k, v in cfg.items()},
                           "released": {k: sorted(x for x in v if x in users[u]) for k, v in views.items()}}
                    ctx.case_seen(rec, any(rec["released"].values()))
                    for point, payload in views.items():
                        attrs = {k for k in payload if k in users[u] and k not in PROTOCOL}
                        extra_attrs = attrs - bound(point)
                        if extra_attrs:
                            ctx.violation("e2e-beyond-bound", "%s contains %r beyond %r" % (point, sorted(extra_attrs), sorted(bound(point))), rec)
                    key = (u, c)
                    if key in seen_first:
                        if seen_first[key] != rec["released"]:
                            ctx.violation("history-dependent", "same flow released %r first and %r later" % (seen_first[key], rec["released"]), rec)
                    else:
                        seen_first[key] = rec["released"]
                    # foreign audience and dead token release nothing
                    other = [x for x in sess.CLIENTS if x != c][0]
                    ir2 = ie.process_request(ie.parse_request(rs._token_req(other, {"token": rs.tokens[at]})))["response_args"]
                    if any(k in users[u] for k in ir2.keys()):
                        ctx.violation("released-to-foreign-audience", "introspection by %s of %s's token released %r" % (other, c, sorted(ir2.keys())), rec)
                    if rep == 1:
                        rs.sm.revoke_token(rs.grants[rs.tok_grant[at]][0], rs.tokens[at])
                        out = rs.run(("userinfo", ("tok", at)))
                        if out[0] == "ok":
                            ctx.violation("released-for-dead-token", "userinfo answered for a revoked token", rec)
        finally:
            rs.close()


def exchange_policy(ctx, rng):
    """A token obtained by cross-client token exchange is released under the policy of the client that HOLDS it (its
    add_claims, its allowed scopes), not under the policy of the client the subject token was issued to."""
    import drv_C05
    from idpyoidc.server.scopes import SCOPE2CLAIMS
    users = json.load(open(srv.USERS))
    POL = {"userinfo": ["email", "phone_number"], "introspection": ["email", "nickname"], "access_token": ["email", "address"]}
    for rich, poor in (("client_1", "client_2"), ("client_2", "client_1"), ("client_12", "client_1")):
        over = {rich: {"add_claims": {"always": copy.deepcopy(POL), "by_scope": {}}}}
        old = sess.FIXED_AUTHZ
        sess.FIXED_AUTHZ = drv_C05.EXCH_AUTHZ
        try:
            rs = sess.RealSession(oidc=True, jwt_access=True, client_over=over)
        finally:
            sess.FIXED_AUTHZ = old
        try:
            for point in ("userinfo", "introspection"):
                rs.server.get_endpoint(point).kwargs["enable_claims_per_client"] = True
                rs.server.get_endpoint(point).kwargs["add_claims_by_scope"] = True
            rs.sm.token_handler.handler["access_token"].kwargs["enable_claims_per_client"] = True
            for subject_of, holder in ((rich, poor), (poor, rich)):
                u = rng.choice(["diana", "babs"])
                scopes = ["openid", "email", "offline_access"]
                o = rs.run(("authz", u, subject_of, scopes))
                if o[0] != "ok":
                    ctx.notes.append("exchange_policy: authz failed %r" % (o,))
                    continue
                rs.run(("tparse", subject_of, ("tok", o[1][0]), "same"))
                p = rs.run(("proc", len(rs.parsed) - 1, None))
                if p[0] != "ok":
                    continue
                at = rs.tokens[p[1]["access_token"]]
                body = {"grant_type": drv_C05.TE, "subject_token": at, "subject_token_type": drv_C05.TT + "access_token", "audience": holder}
                resp, err = drv_C05.token_call(rs, holder, body)
                rec = {"exchange": True, "user": u, "subject_token_of": subject_of, "held_by": holder, "policy_client": rich, "refused": err}
                if not resp:
                    ctx.case_seen(rec, False)
                    ctx.count("exchange-policy:refused")
                    continue
                t2 = resp["access_token"]
                views = {"access_token": jwt_payload(t2)}
                ui = rs.ep["userinfo"]
                try:
                    views["userinfo"] = dict(ui.process_request(ui.parse_request({}, http_info={"headers": {"authorization": "Bearer " + t2}}))["response_args"])
                except Exception as e:
                    views["userinfo"] = {}
                ie = rs.ep["introspection"]
                views["introspection"] = dict(ie.process_request(ie.parse_request(rs._token_req(holder, {"token": t2})))["response_args"])
                allowed = rs.ctx.cdb[holder].get("allowed_scopes", list(SCOPE2CLAIMS.keys()))
                tscope = resp.get("scope") or []
                tscope = tscope.split() if isinstance(tscope, str) else list(tscope)
                rec["released"] = {k: sorted(x for x in v if x in users[u]) for k, v in views.items()}
                ctx.case_seen(rec, True)
                ctx.count("exchange-policy:%s" % ("holder-has-policy" if holder == rich else "subject-client-has-policy"))
                # ---- a token without any audience (exchange without audience / resource): it is nobody else's to inspect
                body3 = {"grant_type": drv_C05.TE, "subject_token": at, "subject_token_type": drv_C05.TT + "access_token"}
                resp3, err3 = drv_C05.token_call(rs, holder, body3)
                if resp3 and resp3.get("access_token"):
                    third = [x for x in sess.CLIENTS if x not in (holder,)][0]
                    try:
                        ir3 = dict(ie.process_request(ie.parse_request(rs._token_req(third, {"token": resp3["access_token"]})))["response_args"])
                    except Exception:
                        ir3 = {}
                    leaked = sorted(k for k in ir3 if k in users[u] and k not in PROTOCOL)
                    ctx.count("exchange-policy:no-audience-token:%s" % ("active-to-third" if ir3.get("active") else "inactive-to-third"))
                    if leaked:
                        ctx.violation("released-to-foreign-audience", "introspection by %s of a token held by %s (no audience) released %r"
                                      % (third, holder, leaked), dict(rec, third=third))
                for point, payload in views.items():
                    mod = module_of(rs.server, point)
                    b = set(mod.kwargs.get("base_claims", {})) | set(mod.kwargs.get("always_add_claims", []) or [])
                    if holder == rich:
                        b |= set(POL[point])
                    if mod.kwargs.get("add_claims_by_scope"):
                        for sc in tscope:
                            if sc in allowed:
                                b |= set(SCOPE2CLAIMS.get(sc, []))
                    attrs = {k for k in payload if k in users[u] and k not in PROTOCOL}
                    if attrs - b:
                        ctx.violation("e2e-beyond-bound", "%s of a token %s obtained by exchanging a token of %s contains %r beyond %r (the policy of %s)"
                                      % (point, holder, subject_of, sorted(attrs - b), sorted(b), holder), rec)
        finally:
            rs.close()


def browser_session_flows(ctx, rng):
    """A later authorization request from the same browser (the provider's session cookie is presented) releases what
    ITS OWN scope and claims parameter authorise - not what an earlier request of that browser session asked for."""
    from idpyoidc.server.scopes import SCOPE2CLAIMS
    users = json.load(open(srv.USERS))
    for jwt in (False, True):
        rs = sess.RealSession(oidc=True, jwt_access=jwt)
        try:
            for point in POINTS:
                mod = module_of(rs.server, point)
                mod.kwargs["add_claims_by_scope"] = True
                mod.kwargs["always_add_claims"] = []
                mod.kwargs["enable_claims_per_client"] = False
            first_claims = {"userinfo": {"email": None, "phone_number": None}, "id_token": {"nickname": None}}
            for c in ("client_1", "client_2"):
                u = "diana"
                nonce = "n-%s-%d" % (c, int(jwt))
                base = {"state": "browser-state", "nonce": nonce}
                o1 = rs.op_authz(u, c, ["openid"], extra=dict(base, claims=first_claims))
                ck = rs.last_cookie
                if o1[0] != "ok" or not ck:
                    ctx.notes.append("browser_session_flows: first request failed %r" % (o1,))
                    continue
                variants = [("same-without-claims", ["openid"], None), ("same-other-claims", ["openid"], {"userinfo": {"nickname": None}}),
                            ("other-scope", ["openid", "email"], None)]
                for vname, scopes, claims in variants:
                    extra = dict(base)
                    if claims:
                        extra["claims"] = claims
                    o2 = rs.op_authz(u, c, scopes, extra=extra, cookie=ck)
                    ck = rs.last_cookie or ck
                    if o2[0] != "ok" or not o2[1]:
                        ctx.count("browser-session:%s:refused" % vname)
                        continue
                    code = o2[1][0]
                    rs.run(("tparse", c, ("tok", code), "same"))
                    p = rs.run(("proc", len(rs.parsed) - 1, None))
                    if p[0] != "ok":
                        continue
                    at = p[1]["access_token"]
                    views = {}
                    ui = rs.ep["userinfo"]
                    views["userinfo"] = dict(ui.process_request(ui.parse_request({}, http_info={"headers": {"authorization": "Bearer " + rs.tokens[at]}}))["response_args"])
                    views["id_token"] = jwt_payload(rs.tokens[p[1]["id_token"]])
                    if jwt:
                        views["access_token"] = jwt_payload(rs.tokens[at])
                    allowed = rs.ctx.cdb[c].get("allowed_scopes", list(SCOPE2CLAIMS.keys()))
                    rec = {"browser_session": True, "variant": vname, "client": c, "scopes": scopes, "claims_request": claims,
                           "earlier_claims_request": first_claims,
                           "released": {k: sorted(x for x in v if x in users[u]) for k, v in views.items()}}
                    ctx.case_seen(rec, True)
                    ctx.count("browser-session:%s" % vname)
                    for point, payload in views.items():
                        b = set()
                        for sc in scopes:
                            if sc in allowed:
                                b |= set(SCOPE2CLAIMS.get(sc, []))
                        if claims and point in claims:
                            b |= set(claims[point])
                        attrs = {k for k in payload if k in users[u] and k not in PROTOCOL}
                        if attrs - b:
                            ctx.violation("e2e-beyond-bound", "%s of a later request of the browser session (%s) contains %r beyond what that request authorises %r"
                                          % (point, vname, sorted(attrs - b), sorted(b)), rec)
        finally:
            rs.close()


def order_independence(ctx, rng, n_orders):
    """What a flow releases does not depend on the flows processed before it: flows of different response types
    for one client (per-client always-add claims, secondary release point for response_type=id_token) in every
    order on one long-lived provider vs. each flow alone on a fresh provider."""
    import itertools
    users = json.load(open(srv.USERS))
    over = {"client_1": {"add_claims": {"always": {"id_token": ["nickname"], "userinfo": ["email", "phone_number"], "introspection": ["name"]},
                                        "by_scope": {"id_token": False, "userinfo": True}}}}
    flows = [("id_token", ["openid"]), ("code", ["openid", "profile"]), ("code id_token", ["openid"]), ("id_token", ["openid", "email"])]

    def setup():
        rs = sess.RealSession(oidc=True, client_over=copy.deepcopy(over))
        for point in POINTS:
            mod = module_of(rs.server, point)
            mod.kwargs["enable_claims_per_client"] = True
        return rs

    def run_flow(rs, rt, scopes):
        o = rs.run(("authz", "diana", "client_1", scopes, rt, {}))
        if o[0] != "ok":
            return {"error": o}
        out = {}
        new = o[1]
        for i in new:
            if rs.tokobj[i].token_class == "id_token":
                out["authz_id_token"] = sorted(k for k in jwt_payload(rs.tokens[i]) if k in users["diana"])
        codes = [i for i in new if rs.tokobj[i].token_class == "authorization_code"]
        if codes:
            rs.run(("tparse", "client_1", ("tok", codes[0]), "same"))
            p = rs.run(("proc", len(rs.parsed) - 1, None))
            if p[0] == "ok":
                out["token_id_token"] = sorted(k for k in jwt_payload(rs.tokens[p[1]["id_token"]]) if k in users["diana"])
                ui = rs.ep["userinfo"]
                pr = ui.parse_request({}, http_info={"headers": {"authorization": "Bearer " + rs.tokens[p[1]["access_token"]]}})
                out["userinfo"] = sorted(k for k in ui.process_request(pr)["response_args"] if k in users["diana"])
        return out

    alone = {}
    for rt, sc in flows:
        rs = setup()
        try:
            alone[(rt, tuple(sc))] = run_flow(rs, rt, sc)
        finally:
            rs.close()
    orders = list(itertools.permutations(range(len(flows))))
    rng.shuffle(orders)
    for order in orders[:n_orders]:
        rs = setup()
        try:
            before = copy.deepcopy(rs.ctx.cdb["client_1"].get("add_claims"))
            hist = []
            for i in order:
                rt, sc = flows[i]
                got = run_flow(rs, rt, sc)
                hist.append({"flow": rt, "scopes": sc, "released": got})
                if got != alone[(rt, tuple(sc))]:
                    ctx.violation("history-dependent", "flow %s %r released %r after %r but %r on a fresh provider"
                                  % (rt, sc, got, [h["flow"] for h in hist[:-1]], alone[(rt, tuple(sc))]), hist)
            after = rs.ctx.cdb["client_1"].get("add_claims")
            if after != before:
                ctx.violation("client-config-changed", "the client's add_claims changed from %r to %r" % (before, after), hist)
            ctx.case_seen({"order": [flows[i][0] for i in order], "hist": hist}, True)
        finally:
            rs.close()


def run(ctx):
    order_independence(ctx, ctx.rng, 6 if ctx.quick else 24)
    unit_cases(ctx, ctx.rng, 400 if ctx.quick else 12000)
    e2e(ctx, ctx.rng, 3 if ctx.quick else 40)
    exchange_policy(ctx, ctx.rng)
    browser_session_flows(ctx, ctx.rng)


def replay(ctx, rp):
    run(ctx)
